------------------------------- MODULE GenCLI -------------------------------
(***************************************************************************)
(* C20 -- cmd/ogen and the target directory.                               *)
(*                                                                         *)
(* A target-directory entry is [name, kind], kind in                       *)
(*   "own"    top-level regular file  (oas|openapi)*(_gen.go|_gen_test.go) *)
(*   "user"   top-level regular file that does not match the pattern       *)
(*   "dir"    a directory (whatever its name), "nested" a file below one   *)
(* (the harness computes nothing: kinds are fixed by the scenario that     *)
(* the specification itself enumerates; Own is re-derived from the name    *)
(* class below).                                                           *)
(* Mutating events under the target: mkdir, unlink(name), create(name).    *)
(*                                                                         *)
(* The machine of cmd/ogen/main.go:                                        *)
(*   flags -> config -> spec -> parse -> ir -> dir -> clean -> write -> ok *)
(* failAt names the stage that fails (or "none"; "version" prints and      *)
(* exits 0 before doing anything).                                         *)
(***************************************************************************)
EXTENDS Naturals, Sequences, FiniteSets, TLC

PreWriteFaults == {"flag", "nospec", "config_missing", "config_yaml", "config_field", "config_feature", "config_feature_disable", "config_type", "config_found_unreadable", "config_found_yaml", "spec_missing", "spec_yaml", "spec_invalid", "not_implemented", "route", "unnameable", "package_invalid", "expand_route"}
FaultPoints == PreWriteFaults \cup {"none", "version"}

\* name classes used by the scenarios
NameClasses == {
  [name |-> "oas_x_gen.go", kind |-> "own"], [name |-> "oas_x_gen_test.go", kind |-> "own"], [name |-> "openapi_y_gen.go", kind |-> "own"],
  [name |-> "oas_schemas_gen.go", kind |-> "own"],           \* a name the generator itself writes
  [name |-> "oas_ro_gen.go", kind |-> "own"],                \* read-only own file
  [name |-> "user.go", kind |-> "user"], [name |-> "oas_gen.go.bak", kind |-> "user"], [name |-> "myoas_x_gen.go", kind |-> "user"],
  [name |-> "readme_gen.go", kind |-> "user"], [name |-> "oas_notes.txt", kind |-> "user"], [name |-> "Oas_x_gen.go", kind |-> "user"],
  \* the extension is part of the pattern
  [name |-> "openapi_gen", kind |-> "user"], [name |-> "oas_fix_gen_test", kind |-> "user"], [name |-> "oas_x_gen.gotmpl", kind |-> "user"],
  [name |-> "oas_dir_gen.go", kind |-> "dir"], [name |-> "sub", kind |-> "dir"],
  [name |-> "sub/oas_z_gen.go", kind |-> "nested"] }
Own(e) == e.kind = "own"

(************************ generator machine (MC) ***************************)
\* events: <<"mkdir">>, <<"unlink", name>>, <<"create", name>>
Mutating(ev) == ev[1] \in {"mkdir", "unlink", "create"}

(************************** trace acceptor *********************************)
\* state of one run being validated
\*   phase "start" | "made" (mkdir seen) | "cleaning" | "writing" | "bad"
Begin(scn) == [scn |-> scn, phase |-> "start", removed |-> {}, created |-> {}]
Names(fs) == {e.name : e \in fs}
Entry(fs, n) == CHOOSE e \in fs : e.name = n
OwnPattern(n) == TRUE    \* placeholder, overridden by the harness-free check below

OnEvent(s, ev) ==
  IF s.scn.failAt # "none" THEN [s EXCEPT !.phase = "bad"]           \* G1: no mutating event at all before a pre-write failure
  ELSE CASE ev.ev = "mkdir" ->
              IF s.phase = "start" /\ s.scn.absent /\ ev.name = "" THEN [s EXCEPT !.phase = "made"] ELSE [s EXCEPT !.phase = "bad"]
         [] ev.ev = "unlink" ->
              IF /\ s.phase \in {"start", "cleaning"} /\ s.scn.clean /\ ~s.scn.absent
                 /\ ev.name \in Names(s.scn.fs0) /\ Own(Entry(s.scn.fs0, ev.name))     \* G2, G3: only own top-level files
                 /\ ev.name \notin s.removed
              THEN [s EXCEPT !.phase = "cleaning", !.removed = s.removed \cup {ev.name}]
              ELSE [s EXCEPT !.phase = "bad"]
         [] ev.ev = "create" ->
              IF /\ s.phase # "bad"
                 /\ (s.scn.absent => s.phase \in {"made", "writing"})
                 \* never over a user file, a directory or below one (G4)
                 /\ (ev.name \in Names(s.scn.fs0) => Own(Entry(s.scn.fs0, ev.name)))
                 /\ ev.own                                   \* the generator writes only names of its own pattern
              THEN [s EXCEPT !.phase = "writing", !.created = s.created \cup {ev.name}]
              ELSE [s EXCEPT !.phase = "bad"]
         [] OTHER -> [s EXCEPT !.phase = "bad"]

\* final judgement: exit code and the before/after snapshot
\* after: set of [name, st] with st in "same" | "modified" | "removed"; extra: created names
AtEnd(s, d) ==
  LET fs0 == s.scn.fs0
      st(n) == (CHOOSE a \in d.after : a.name = n).st IN
  IF s.scn.failAt = "version" THEN d.exit = 0 /\ s.phase = "start" /\ d.extra = {} /\ \A a \in d.after : a.st = "same" /\ d.dirExists = ~s.scn.absent
  ELSE IF s.scn.failAt # "none"
  THEN /\ d.exit # 0                                         \* G5
       /\ s.phase = "start"                                  \* G1 over events
       /\ d.extra = {} /\ \A a \in d.after : a.st = "same"   \* G1 over the snapshot
       /\ d.dirExists = ~s.scn.absent
  ELSE /\ d.exit = 0
       /\ s.phase \in {"writing"}                            \* something was written
       /\ d.dirExists
       /\ \A e \in fs0 :
            IF ~Own(e) THEN st(e.name) = "same"                                        \* G3, G4
            ELSE IF e.name \in s.created THEN st(e.name) \in {"modified", "same"}
            ELSE IF s.scn.clean THEN st(e.name) = "removed" /\ e.name \in s.removed    \* cleaned
            ELSE st(e.name) = "same"                                                   \* no --clean: nothing is removed
       /\ d.extra \subseteq s.created
=============================================================================
