--------------------------- MODULE JSONEqualCheck ---------------------------
(* B3 for C18.  One observation:                                              *)
(*   sa, sb  spellings (echoed), ta, tb the texts given to json.Equal,        *)
(*   ab, ba, aa  results "true" | "false" | "err" | "panic" of Equal(a,b),    *)
(*   Equal(b,a), Equal(a,a); mal: some text is malformed (then sa, sb are     *)
(*   placeholders); enum: outcome of parsing a schema with enum [a, b]        *)
(*   ("dup" | "ok" | "err" | "na"); red: for two numbers, whether the         *)
(*   generator folded two default responses differing only in this bound      *)
(*   ("folded" | "kept" | "err" | "na"); doc: the same enum read from a       *)
(*   document text through the loader ("dup" | "ok" | "err" | "na"), f64:      *)
(*   both are numbers with the same float64 rounding.                         *)
EXTENDS JSONEqual, ObsLib
CONSTANT KnownDeviations

B(x) == IF x THEN "true" ELSE "false"

Verdict(o) ==
  IF o.mal THEN (IF o.ab # "true" /\ o.ba # "true" /\ o.ab # "panic" /\ o.ba # "panic" THEN "ok" ELSE "viol")
  ELSE IF Text(o.sa) # o.ta \/ Text(o.sb) # o.tb THEN "harness-render-mismatch"
  ELSE IF HasDup(o.sa) \/ HasDup(o.sb)
       \* repeated member names: the statement fixes no denotation; it does demand an
       \* equivalence relation, so symmetry and reflexivity are judged
       THEN IF o.ab = o.ba /\ o.ab \in {"true", "false"} /\ o.aa = "true"
            THEN (IF o.ab = B(SemEqual(o.sa, o.sb)) THEN "ok" ELSE "drift")
            ELSE IF "Dev_DupKeyAsymmetry" \in KnownDeviations
                    /\ o.ab = B(ImplEqual(o.sa, o.sb, {"Dev_DupKeyAsymmetry"}))
                    /\ o.ba = B(ImplEqual(o.sb, o.sa, {"Dev_DupKeyAsymmetry"}))
                 THEN "known=Dev_DupKeyAsymmetry" ELSE "viol"
  ELSE LET want == B(SemEqual(o.sa, o.sb)) IN
       IF o.ab = want /\ o.ba = want /\ o.aa = "true"
          /\ (o.enum = "na" \/ (o.enum = "dup") = SemEqual(o.sa, o.sb))
          \* the enum [a, m, b] with a third value m between the two: a repeated value is found
          \* wherever it stands (m with repeated member names has no fixed denotation: not judged)
          /\ (o.enum3 \in {"na", "err"} \/ HasDup(o.sm) \/ (o.enum3 = "dup") = (SemEqual(o.sa, o.sb) \/ SemEqual(o.sa, o.sm) \/ SemEqual(o.sm, o.sb)))
          \* gen/reduce.go: two default responses that differ only in a numeric bound are
          \* one response exactly when the two bounds are the same number
          /\ (o.red \in {"na", "err"} \/ (o.red = "folded") = SemEqual(o.sa, o.sb))
       THEN (IF o.doc \in {"na", "err"} \/ (o.doc = "dup") = SemEqual(o.sa, o.sb)
             THEN (IF o.ab = B(ImplEqual(o.sa, o.sb, {})) THEN "ok" ELSE "drift")
             \* the enum read from a document text: the loader turns numbers into float64
             \* before the comparison sees them, so different numbers with one float64
             \* rounding are reported as duplicates
             \* (and equal numbers spelled so that only one of them is rounded, or both leave
             \* the float64 range, are taken for different ones); doc is observed for pairs
             \* of numbers only, and the direct parser verdict (enum) above has already agreed
             ELSE IF "Dev_LoaderRoundsNumbers" \in KnownDeviations THEN "known=Dev_LoaderRoundsNumbers"
             ELSE "viol")
       ELSE "viol"

VARIABLE l
Init == l = 0
Next == l < Len(Obs) /\ l' = l + 1 /\ Report(l', Verdict(Obs[l']))
=============================================================================
