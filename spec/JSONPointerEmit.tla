-------------------------- MODULE JSONPointerEmit --------------------------
(* B1 for C16: the fixed documents (Mode = "docs") and every enumerated       *)
(* pointer text in its three spellings, per document (Mode = "ptrs").         *)
EXTENDS JSONPointer, Json, IOUtils, SequencesExt
CONSTANTS MaxToks, Mode
Plain == {Join(t) : t \in SeqsUpTo(RawToks, MaxToks)}
Pointers == Plain \cup {Frag(p) : p \in Plain} \cup {FragAll(p) : p \in Plain}
          \cup {<<HASH>>, <<97>>, <<97, HASH>>, <<97, HASH, SLASH, 97>>, <<97, 46, 106, HASH, SLASH, 48>>, <<HASH, 97>>, <<HASH, PCT>>, <<HASH, SLASH, PCT, 122, 122>>}
Out == IF Mode = "docs" THEN [i \in 1..Len(Docs) |-> [d |-> i, doc |-> Docs[i]]]
       ELSE SetToSeq({[d |-> d, ptr |-> p] : d \in 1..Len(Docs), p \in Pointers})
ASSUME ndJsonSerialize(IOEnv.VERIF_VECTORS, Out)
VARIABLE x
Init == x = 0
Next == x' = x
=============================================================================
