------------------------------ MODULE RoundTrip ------------------------------
(***************************************************************************)
(* C04 -- JSON encoding of generated types round-trips and conforms to the *)
(* schema.                                                                 *)
(*                                                                         *)
(* Abstract statement (on JSON values, SchemaValid's tagged instances):    *)
(* for every schema S and every instance v valid against S, the text the   *)
(* generated type writes after reading v is well-formed, valid against S   *)
(* and the same JSON value as v (objects compared as name -> value maps).  *)
(* That one equation carries the three states of a member (absent stays    *)
(* absent, null stays null, a value stays that value), nil-versus-empty    *)
(* arrays ([] stays [], absent stays absent) and the variant of a sum.     *)
(*                                                                         *)
(* Implementation layer: the Go representation.  A member of a generated   *)
(* struct is held in a box chosen from (required, nullable, array or not)  *)
(* by gen/generics.go boxType; a box can hold some of the states absent /  *)
(* null / value.  Dec maps the state of the member in the text to a state  *)
(* of the box, Enc maps it back.  TLC checks that the table is adequate    *)
(* (every state the schema admits is representable and comes back).        *)
(***************************************************************************)
EXTENDS SchemaValid

(******************************* abstract layer ****************************)
RECURSIVE WellFormed(_)
\* no member name twice, at any depth
WellFormed(v) ==
  CASE v.t = "arr" -> \A i \in 1..Len(v.v) : WellFormed(v.v[i])
    [] v.t = "obj" -> Cardinality(Names(v.m)) = Len(v.m) /\ \A i \in 1..Len(v.m) : WellFormed(v.m[i][2])
    [] OTHER -> TRUE

RECURSIVE Canon(_)
\* objects as functions from names: member order is not part of the value
Canon(v) ==
  CASE v.t = "arr" -> [t |-> "arr", v |-> [i \in 1..Len(v.v) |-> Canon(v.v[i])]]
    [] v.t = "obj" -> [t |-> "obj", f |-> [n \in Names(v.m) |-> Canon(v.m[Get(v.m, n)][2])]]
    [] OTHER -> v
Same(a, b) == Canon(a) = Canon(b)

(* What a generated type holds of a valid instance.  An object schema that  *)
(* does not mention additionalProperties gets a struct with the declared   *)
(* members only: undeclared members of the instance are not part of the Go *)
(* value (the quantifier of C04 is over values of the generated types).    *)
(* Everything else is held as it is.                                       *)
RECURSIVE Proj(_, _, _)
Proj(root, S0, v) ==
  CASE S0.k = "self" -> Proj(root, root, v)
    [] S0.k = "ref" -> Proj(Defs[S0.name], Defs[S0.name], v)
    \* a formatted string is held as the value it spells: it comes back in canonical spelling
    [] S0.k = "fmt" /\ S0.ty = "string" /\ V(root, S0, v) /\ v.s # <<>> -> [t |-> "str", s |-> <<FmtEcho(S0.name, v.s[1])>>]
    [] S0.k \in {"nullable", "enum"} -> IF v.t = "null" THEN v ELSE Proj(root, S0.s, v)
    [] S0.k = "arr" /\ v.t = "arr" -> [t |-> "arr", v |-> [i \in 1..Len(v.v) |-> Proj(root, S0.items, v.v[i])]]
    [] S0.k = "obj" /\ v.t = "obj" ->
         LET keep == SelectSeq(v.m, LAMBDA p : p[1] \in PropNames(S0) \/ S0.addl.k # "addl_true")
             sub(p) == IF p[1] \in PropNames(S0) THEN Proj(root, PropOf(S0, p[1]).s, p[2])
                       ELSE IF S0.addl.k \in {"addl_true", "addl_false"} THEN p[2] ELSE Proj(root, S0.addl, p[2]) IN
         [t |-> "obj", m |-> [i \in 1..Len(keep) |-> <<keep[i][1], sub(keep[i])>>]]
    [] S0.k = "allOf" /\ v.t = "obj" /\ (\A i \in 1..Len(S0.ss) : S0.ss[i].k = "obj") ->
         \* the merged struct declares what any member declares
         LET declared == UNION {PropNames(S0.ss[i]) : i \in 1..Len(S0.ss)}
             open == \E i \in 1..Len(S0.ss) : S0.ss[i].addl.k # "addl_true"
             keep == SelectSeq(v.m, LAMBDA p : p[1] \in declared \/ open)
             owner(n) == CHOOSE i \in 1..Len(S0.ss) : n \in PropNames(S0.ss[i])
             sub(p) == IF p[1] \in declared THEN Proj(root, PropOf(S0.ss[owner(p[1])], p[1]).s, p[2]) ELSE p[2] IN
         [t |-> "obj", m |-> [i \in 1..Len(keep) |-> <<keep[i][1], sub(keep[i])>>]]
    [] S0.k \in {"oneOf", "anyOf"} /\ (\E i \in 1..Len(S0.ss) : V(root, S0.ss[i], v)) ->
         Proj(root, S0.ss[CHOOSE i \in 1..Len(S0.ss) : V(root, S0.ss[i], v)], v)
    [] OTHER -> v
Held(S0, v) == Proj(S0, S0, v)

\* what the echo of a valid instance has to be
EchoOK(S0, in, out) == WellFormed(out) /\ Valid(S0, out) /\ Same(Held(S0, in), out)

\* deviations visible in an echo (the first is C03's, seen here from the encoding side)
EchoDeviations == {"Dev_RequiredUndeclaredNotEnforced", "Dev_DroppedMembersCounted"}
\* deviations seen only with values built in the process (not read from JSON):
\*   Dev_PropertyCountNotInValidate: minProperties / maxProperties are checked by the
\*     decoder while it reads, the generated Validate does not look at them, so a value
\*     with too few / too many members passes Validate and is written as invalid JSON
\*   Dev_AdditionalPropsKeyNamedLikeMember: a key of the additional-properties map that
\*     equals a declared member is written next to / instead of that member
\*   Dev_NilRawWrittenAsNothing: a nil jx.Raw (schema without type) is written as no text
\*   Dev_NilPointerEmptyStruct: an object schema without properties is boxed as a pointer;
\*     a nil pointer inside a set optional is written as {} and read back as non-nil
\*   Dev_SharedArrayNilSemantic: an array component used both as an optional member and
\*     as an array item keeps the optional's "nil means absent": a nil item passes
\*     Validate and is dropped from the array when written
\*   Dev_NullableEnumAcceptsNull: the C03 deviation of this name, met from the writing side
\*   Dev_EnumIgnoresOtherKeywords: likewise (an enum type's Validate checks membership only)
BuiltDeviations == {"Dev_EnumIgnoresOtherKeywords", "Dev_NullableEnumAcceptsNull", "Dev_PropertyCountNotInValidate", "Dev_AdditionalPropsKeyNamedLikeMember", "Dev_NilRawWrittenAsNothing",
                    "Dev_NilPointerEmptyStruct", "Dev_SharedArrayNilSemantic"}

(**************************** implementation layer *************************)
States == {"absent", "null", "value"}
\* states of a member the schema admits
Admits(req, nullable) == {"value"} \cup (IF req THEN {} ELSE {"absent"}) \cup (IF nullable THEN {"null"} ELSE {})
\* gen/generics.go boxType: the box of a member
Box(req, nullable, array) ==
  CASE req /\ ~nullable -> "plain"
    [] ~req /\ ~nullable -> IF array THEN "slice_nil_is_absent" ELSE "opt"
    [] req /\ nullable -> IF array THEN "slice_nil_is_null" ELSE "nil"
    [] ~req /\ nullable -> "optnil"
\* states a box can hold
Holds(box) ==
  CASE box = "plain" -> {"value"}
    [] box \in {"opt", "slice_nil_is_absent"} -> {"absent", "value"}
    [] box \in {"nil", "slice_nil_is_null"} -> {"null", "value"}
    [] box = "optnil" -> States
\* reading a member state into a box, and writing the box
Dec(box, st) == IF st \in Holds(box) THEN st ELSE "refused"
Enc(box, held) == held
\* a nil slice stands for exactly one state; the empty array is a value, never nil
NilMeans(box) == CASE box = "slice_nil_is_absent" -> "absent" [] box = "slice_nil_is_null" -> "null" [] OTHER -> "none"
=============================================================================
