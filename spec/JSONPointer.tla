---------------------------- MODULE JSONPointer ----------------------------
(***************************************************************************)
(* C16 -- jsonpointer.Resolve against RFC 6901.                            *)
(*                                                                         *)
(* Bytes are integers, texts are sequences of bytes.  A document node is   *)
(*   [k |-> "map", keys |-> <<name,...>>, vals |-> <<node,...>>]           *)
(*   [k |-> "seq", keys |-> <<>>,         vals |-> <<node,...>>]           *)
(*   [k |-> "leaf", keys |-> <<>>,        vals |-> <<>>]                   *)
(* with pairwise distinct member names (RFC 8259 leaves duplicates open).  *)
(* A node is identified by its path: the sequence of child positions from  *)
(* the root.  Results: [kind |-> "node", path |-> p] or [kind |-> "err"].  *)
(***************************************************************************)
EXTENDS Naturals, Sequences, FiniteSets, TLC

SLASH == 47
TILDE == 126
HASH == 35
PCT == 37
IsDigit(c) == c >= 48 /\ c <= 57
IsHex(c) == IsDigit(c) \/ (c >= 97 /\ c <= 102) \/ (c >= 65 /\ c <= 70)
HexVal(c) == IF IsDigit(c) THEN c - 48 ELSE IF c >= 97 /\ c <= 102 THEN c - 87 ELSE c - 55
Drop(s, k) == SubSeq(s, k + 1, Len(s))

Node(p) == [kind |-> "node", path |-> p]
Err == [kind |-> "err", path |-> <<>>]

FirstIdx(s, c) ==
  LET I == {k \in 1..Len(s) : s[k] = c} IN
  IF I = {} THEN 0 ELSE CHOOSE k \in I : \A j \in I : k <= j

\* split on '/', keeping empty tokens: "a//b" -> <<a, <<>>, b>>
RECURSIVE Split(_)
Split(s) ==
  LET k == FirstIdx(s, SLASH) IN
  IF k = 0 THEN <<s>> ELSE <<SubSeq(s, 1, k - 1)>> \o Split(Drop(s, k))

\* percent-decoding of the URI fragment form (RFC 6901 section 6)
RECURSIVE PctValid(_)
PctValid(s) ==
  IF s = <<>> THEN TRUE
  ELSE IF s[1] = PCT THEN Len(s) >= 3 /\ IsHex(s[2]) /\ IsHex(s[3]) /\ PctValid(Drop(s, 3))
  ELSE PctValid(Tail(s))
RECURSIVE PctDecode(_)
PctDecode(s) ==
  IF s = <<>> THEN <<>>
  ELSE IF s[1] = PCT THEN <<HexVal(s[2]) * 16 + HexVal(s[3])>> \o PctDecode(Drop(s, 3))
  ELSE <<s[1]>> \o PctDecode(Tail(s))

(************************** abstract layer *********************************)
\* RFC 6901 section 3: '~' must be followed by '0' or '1'.
RECURSIVE TildeValid(_)
TildeValid(t) ==
  IF t = <<>> THEN TRUE
  ELSE IF t[1] = TILDE THEN Len(t) >= 2 /\ t[2] \in {48, 49} /\ TildeValid(Drop(t, 2))
  ELSE TildeValid(Tail(t))
\* section 4: "~1" -> "/" and "~0" -> "~", left to right, never re-scanned.
\* An invalid '~' is kept literally (used only for the lenient reading below).
RECURSIVE Unescape(_)
Unescape(t) ==
  IF t = <<>> THEN <<>>
  ELSE IF t[1] = TILDE /\ Len(t) >= 2 /\ t[2] = 49 THEN <<SLASH>> \o Unescape(Drop(t, 2))
  ELSE IF t[1] = TILDE /\ Len(t) >= 2 /\ t[2] = 48 THEN <<TILDE>> \o Unescape(Drop(t, 2))
  ELSE <<t[1]>> \o Unescape(Tail(t))

\* array-index = %x30 / ( %x31-39 *(%x30-39) ) -- no leading zeros, no sign, no "-"
IsIndex(t) == /\ Len(t) >= 1
              /\ \A i \in 1..Len(t) : IsDigit(t[i])
              /\ (t[1] = 48 => Len(t) = 1)
RECURSIVE DecVal(_)
DecVal(t) == IF t = <<>> THEN 0 ELSE DecVal(SubSeq(t, 1, Len(t) - 1)) * 10 + (t[Len(t)] - 48)

KeyPos(n, name) ==
  LET I == {i \in 1..Len(n.keys) : n.keys[i] = name} IN
  IF I = {} THEN 0 ELSE CHOOSE i \in I : \A j \in I : i <= j

RECURSIVE EvalToks(_, _, _)
EvalToks(n, path, toks) ==
  IF toks = <<>> THEN Node(path)
  ELSE LET t == toks[1] IN
    CASE n.k = "map" ->
           LET i == KeyPos(n, Unescape(t)) IN
           IF i = 0 THEN Err ELSE EvalToks(n.vals[i], Append(path, i), Tail(toks))
      [] n.k = "seq" ->
           IF IsIndex(t) /\ Len(t) <= 6 /\ DecVal(t) < Len(n.vals)
           THEN EvalToks(n.vals[DecVal(t) + 1], Append(path, DecVal(t) + 1), Tail(toks))
           ELSE Err
      [] OTHER -> Err

\* plain (JSON string) form
AllowedPlain(doc, s) ==
  IF s = <<>> THEN {Node(<<>>)}
  ELSE IF s[1] # SLASH THEN {Err}
  ELSE LET toks == Split(Tail(s)) IN
       IF \A i \in 1..Len(toks) : TildeValid(toks[i])
       THEN {EvalToks(doc, <<>>, toks)}
       \* A dangling '~' is a syntax error in RFC 6901; reading it literally is the
       \* lenient alternative.  Both are admitted: the text demands no more than
       \* "never a different node", and the literal reading designates the same member
       \* the escape-free spelling would.
       ELSE {Err, EvalToks(doc, <<>>, toks)}

\* any accepted spelling of a pointer
Allowed(doc, s) ==
  IF s = <<>> \/ s[1] = SLASH THEN AllowedPlain(doc, s)
  ELSE IF s[1] = HASH
       THEN IF PctValid(Tail(s)) THEN AllowedPlain(doc, PctDecode(Tail(s))) ELSE {Err}
  \* anything else is a URI reference, not a pointer: only its fragment can designate
  \* a node of this document, and refusing it is always admissible
  ELSE LET h == FirstIdx(s, HASH) IN
       IF h = 0 THEN {Err, Node(<<>>)}
       ELSE IF PctValid(Drop(s, h)) THEN {Err} \cup AllowedPlain(doc, PctDecode(Drop(s, h))) ELSE {Err}

(*********************** implementation layer ******************************)
\* jsonpointer.Resolve / find / splitFunc / unescape / findKey / findIdx as a pc machine.
\*  mode "dispatch" | "find" | "tok" | terminal "node" | "err"
\* Dev_LeadingZeroIndex: strconv.ParseUint accepts "01" (the pinned behaviour).
InitState(doc, s) == [doc |-> doc, mode |-> "dispatch", s |-> s, orig |-> s, cur |-> doc, path |-> <<>>]
Terminal == {"node", "err"}

\* strings.NewReplacer("~1","/","~0","~"): single left-to-right pass == Unescape
ImplUnescape(t) == Unescape(t)

\* strconv.ParseUint(part, 10, 64): non-empty, digits only (leading zeros accepted)
ParsesUint(t) == Len(t) >= 1 /\ \A i \in 1..Len(t) : IsDigit(t[i])
RECURSIVE StripZeros(_)
StripZeros(t) == IF Len(t) > 1 /\ t[1] = 48 THEN StripZeros(Tail(t)) ELSE t

Step(st, devs) ==
  CASE st.mode = "dispatch" ->
         IF st.s = <<>> \/ st.s = <<HASH>> THEN [st EXCEPT !.mode = "node"]
         ELSE IF st.s[1] = SLASH THEN [st EXCEPT !.mode = "find"]
         ELSE IF st.s[1] = HASH
              THEN IF PctValid(Tail(st.s)) THEN [st EXCEPT !.mode = "find", !.s = PctDecode(Tail(st.s))]
                   ELSE [st EXCEPT !.mode = "err"]
         ELSE \* url.Parse(ptr).Fragment; modelled for the '#'-carrying references only
              LET h == FirstIdx(st.s, HASH) IN
              IF ~PctValid(IF h = 0 THEN st.s ELSE SubSeq(st.s, 1, h - 1)) THEN [st EXCEPT !.mode = "err"]
              ELSE IF h = 0 THEN [st EXCEPT !.mode = "find", !.s = <<>>]
              ELSE IF PctValid(Drop(st.s, h)) THEN [st EXCEPT !.mode = "find", !.s = PctDecode(Drop(st.s, h))]
              ELSE [st EXCEPT !.mode = "err"]
    [] st.mode = "find" ->
         IF st.s = <<>> THEN [st EXCEPT !.mode = "node"]
         ELSE IF st.s[1] # SLASH THEN [st EXCEPT !.mode = "err"]
         ELSE [st EXCEPT !.mode = "tok", !.s = Tail(st.s)]
    [] st.mode = "tok" ->          \* one callback of splitFunc
         LET k == FirstIdx(st.s, SLASH)
             part == ImplUnescape(IF k = 0 THEN st.s ELSE SubSeq(st.s, 1, k - 1))
             rest == IF k = 0 THEN <<>> ELSE Drop(st.s, k)
             after == IF k = 0 THEN "node" ELSE "tok"
             n == st.cur IN
         CASE n.k = "map" ->
                LET i == KeyPos(n, part) IN
                IF i = 0 THEN [st EXCEPT !.mode = "err"]
                ELSE [st EXCEPT !.cur = n.vals[i], !.path = Append(st.path, i), !.s = rest, !.mode = after]
           [] n.k = "seq" ->
                LET okSyntax == IF "Dev_LeadingZeroIndex" \in devs THEN ParsesUint(part) ELSE IsIndex(part)
                    d == StripZeros(part) IN
                IF ~okSyntax \/ Len(d) > 6 \/ DecVal(d) >= Len(n.vals) THEN [st EXCEPT !.mode = "err"]
                ELSE [st EXCEPT !.cur = n.vals[DecVal(d) + 1], !.path = Append(st.path, DecVal(d) + 1), !.s = rest, !.mode = after]
           [] OTHER -> [st EXCEPT !.mode = "err"]

RECURSIVE RunImpl(_, _)
RunImpl(st, devs) == IF st.mode \in Terminal THEN st ELSE RunImpl(Step(st, devs), devs)
Outcome(st) == IF st.mode = "node" THEN Node(st.path) ELSE Err
ImplOutcome(doc, s, devs) == Outcome(RunImpl(InitState(doc, s), devs))

(****************************** domains ************************************)
Leaf == [k |-> "leaf", keys |-> <<>>, vals |-> <<>>]
Map(ks, vs) == [k |-> "map", keys |-> ks, vals |-> vs]
Arr(vs) == [k |-> "seq", keys |-> <<>>, vals |-> vs]

\* adversarial member names: "", "a", "0", "01", "1", "~", "/", "a/b", "~1", "~0", "%25", "-", "~01", "m~n", " "
N_empty == <<>>
N_a == <<97>>
N_0 == <<48>>
N_01 == <<48, 49>>
N_1 == <<49>>
N_tilde == <<126>>
N_slash == <<47>>
N_a_b == <<97, 47, 98>>
N_t1 == <<126, 49>>
N_t0 == <<126, 48>>
N_pct == <<37, 50, 53>>
N_dash == <<45>>
N_t01 == <<126, 48, 49>>
N_mtn == <<109, 126, 110>>
N_sp == <<32>>
N_hash == <<35>>
N_plus == <<97, 43, 98>>
N_aspb == <<97, 32, 98>>
Names == <<N_empty, N_a, N_0, N_01, N_1, N_tilde, N_slash, N_a_b, N_t1, N_t0, N_pct, N_dash, N_t01, N_mtn, N_sp, N_hash, N_plus, N_aspb>>

Arr3 == Arr(<<Leaf, Leaf, Leaf>>)
Inner == Map(<<N_empty, N_0, N_01, N_slash, N_t1>>, <<Leaf, Leaf, Arr3, Leaf, Leaf>>)
\* document 1: every adversarial name at the root, nested maps and arrays below
Doc1 == Map(Names, <<Inner, Arr3, Leaf, Leaf, Arr(<<Inner, Leaf>>), Leaf, Leaf, Leaf, Leaf, Leaf, Leaf, Leaf, Leaf, Leaf, Leaf, Leaf, Leaf, Leaf>>)
\* document 2: an array at the root (numeric tokens meet a sequence first)
Doc2 == Arr(<<Inner, Arr(<<Leaf, Arr3>>), Leaf, Leaf, Leaf, Leaf, Leaf, Leaf, Leaf, Leaf, Leaf, Map(<<N_a>>, <<Leaf>>)>>)
\* document 3: a scalar root
Doc3 == Leaf
Docs == <<Doc1, Doc2, Doc3>>

\* raw tokens pointers are built from: escaped spellings of the names plus index-like
\* and malformed tokens
Esc(t) == \* RFC escaping of a member name
  LET F[i \in 0..Len(t)] == IF i = 0 THEN <<>> ELSE F[i-1] \o (IF t[i] = TILDE THEN <<126, 48>> ELSE IF t[i] = SLASH THEN <<126, 49>> ELSE <<t[i]>>) IN F[Len(t)]
IndexToks == {<<48>>, <<49>>, <<50>>, <<51>>, <<48, 49>>, <<48, 48>>, <<49, 49>>, <<45>>, <<43, 49>>, <<49, 101, 48>>, <<48, 120, 49>>}
BadToks == {<<126>>, <<126, 50>>, <<97, 126>>, <<126, 126, 49>>}
RawToks == {Esc(Names[i]) : i \in 1..Len(Names)} \cup {Names[i] : i \in {2, 3, 4, 5, 11, 12, 15, 16, 17, 18}} \cup IndexToks \cup BadToks

RECURSIVE SeqsUpTo(_, _)
SeqsUpTo(S, n) ==
  IF n = 0 THEN {<<>>}
  ELSE LET R == SeqsUpTo(S, n - 1) IN
       R \cup {Append(s, c) : s \in {t \in R : Len(t) = n - 1}, c \in S}

RECURSIVE Join(_)
Join(toks) == IF toks = <<>> THEN <<>> ELSE <<SLASH>> \o toks[1] \o Join(Tail(toks))

\* fragment spelling: '#' + percent-encoding of everything outside a small safe set
HexDigit(n) == IF n < 10 THEN 48 + n ELSE 55 + n
PctEnc(c) == <<PCT, HexDigit(c \div 16), HexDigit(c % 16)>>
\* literal "+" is legal in a fragment and is NOT a space there
FragSafe(c) == (c >= 97 /\ c <= 122) \/ IsDigit(c) \/ c \in {SLASH, TILDE, 45, 43}
Frag(s) == LET F[i \in 0..Len(s)] == IF i = 0 THEN <<HASH>> ELSE F[i-1] \o (IF FragSafe(s[i]) THEN <<s[i]>> ELSE PctEnc(s[i])) IN F[Len(s)]
\* over-encoded fragment spelling: every byte escaped, lower-case hex for letters
LowHex(n) == IF n < 10 THEN 48 + n ELSE 87 + n
FragAll(s) == LET F[i \in 0..Len(s)] == IF i = 0 THEN <<HASH>> ELSE F[i-1] \o <<PCT, LowHex(s[i] \div 16), LowHex(s[i] % 16)>> IN F[Len(s)]
=============================================================================
