----------------------------- MODULE ExchangeCheck -----------------------------
(* B3 for C01.  One line per call of a generated client against the generated   *)
(* server of the same document:                                                 *)
(*  kind "param": row c, group (req | opt | dflt), the value given for the one   *)
(*    parameter that varies, the outcome, what the handler and the middleware    *)
(*    saw for it, and whether every other parameter of the call (held at a core  *)
(*    value) arrived unchanged                                                   *)
(*  kind "body": the body given / seen by handler and middleware                 *)
(*  kind "resp": variant, code and header the handler returned / the caller got  *)
EXTENDS Exchange, ObsLib
CONSTANT KnownDeviations
RespVerdict(o) ==
  IF RespOK(o.v, o.k, o.payload, o.outcome, o.v2, o.k2, o.payload2) THEN "ok"
  \* recorded finding: exactly the misrouting the unchecked implementation produces
  ELSE IF "Dev_ResponseCodeUnchecked" \in KnownDeviations /\ HasCode(o.v) /\ ~Carriable(o.v, o.k)
          /\ o.outcome = "ok" /\ o.v2 = ImplResp(o.v, o.k)[1] /\ (HasCode(o.v2) => o.k2 = ImplResp(o.v, o.k)[2])
       THEN "known=Dev_ResponseCodeUnchecked"
  ELSE IF o.outcome = "ok" THEN "viol-response-delivered-as-a-different-one"
  ELSE "viol-carriable-response-not-delivered"
Range(s) == {s[i] : i \in 1..Len(s)}
DeclOf(d) == [exact |-> Range(d.exact), pats |-> Range(d.pats), dflt |-> d.dflt]
\* a response operation with any declared set (kind "respd"): d, variant v, code k, message
RespDVerdict(o) ==
  LET d == DeclOf(o.d) IN
  IF RespOKD(d, o.v, o.k, o.msg, o.outcome, o.v2, o.k2, o.msg2) THEN "ok"
  ELSE IF "Dev_ResponseCodeUnchecked" \in KnownDeviations /\ o.v.kind # "code" /\ ~CarriableD(d, o.v, o.k)
          /\ o.outcome = "ok" /\ o.v2 = ImplRespD(d, o.v, o.k)[1] /\ (o.v2.kind # "code" => o.k2 = ImplRespD(d, o.v, o.k)[2])
       THEN "known=Dev_ResponseCodeUnchecked"
  ELSE IF o.outcome = "ok" THEN "viol-response-delivered-as-a-different-one"
  ELSE "viol-carriable-response-not-delivered"
\* a body with several declared media entries (kind "media"): dir req | resp, declared set D,
\* the entry e the value is a variant of, the type ct it travels as, its payload
MediaVerdict(o) ==
  LET D == Range(o.D) IN
  IF MediaOK(D, o.e, o.ct, o.payload, o.outcome, o.e2, o.ct2, o.payload2) THEN "ok"
  ELSE IF "Dev_ContentTypeOverridesVariant" \in KnownDeviations /\ o.dir = "resp" /\ ~MediaCarriable(D, o.e, o.ct)
          /\ ImplMediaOverride(D, o.e, o.ct, o.outcome, o.e2, o.ct2)
       THEN "known=Dev_ContentTypeOverridesVariant"
  ELSE IF o.outcome = "ok" THEN "viol-body-delivered-as-another-media-variant-or-changed"
  ELSE "viol-carriable-media-variant-not-delivered"
Verdict(o) ==
  CASE o.kind = "param" ->
         IF ~o.others THEN "viol-another-parameter-of-the-call-changed"
         ELSE IF ParamOK(o.c, o.group, o.sent, o.outcome, o.got, o.mwgot) THEN "ok"
         ELSE IF "Dev_EmptyArrayCollision" \in KnownDeviations /\ ImplEmptyArray(o.c, o.sent, o.outcome, o.got) /\ o.mwgot = o.got THEN "known=Dev_EmptyArrayCollision"
         ELSE IF "Dev_HeaderValueTrimmed" \in KnownDeviations /\ ImplHeaderTrim(o.c, o.sent, o.outcome, o.got) /\ o.mwgot = o.got THEN "known=Dev_HeaderValueTrimmed"
         ELSE IF o.outcome = "ok" THEN (IF ~SameValue(o.got, o.mwgot) THEN "viol-middleware-saw-another-value" ELSE "viol-parameter-delivered-changed")
         ELSE IF o.outcome \in {"client_err", "refused_4xx"} THEN "viol-core-value-not-delivered"
         ELSE "viol-neither-delivered-nor-refused"
    [] o.kind = "body" -> IF BodyOK(o.sent, o.outcome, o.got, o.mwgot) THEN "ok" ELSE "viol-body-delivered-changed"
    [] o.kind = "form" -> IF FormOK(o.sent, o.outcome, o.got, o.mwgot) THEN "ok" ELSE "viol-form-body-delivered-changed"
    \* a streamed (application/octet-stream) request and response body: the bytes, unchanged
    [] o.kind = "stream" -> IF o.outcome = "ok" /\ o.got = o.sent /\ o.rgot = o.rsent THEN "ok" ELSE "viol-streamed-body-delivered-changed"
    [] o.kind = "resp" -> RespVerdict(o)
    \* a query parameter whose schema is a map of strings (form, explode): the members given arrive
    \* (an empty map is "nothing": deliverable for an optional parameter only); Dev_MapQueryParameterDropped
    \* is the recorded finding that the members never reach the handler
    [] o.kind = "mapparam" ->
         IF ~o.others THEN "viol-another-parameter-of-the-call-changed"
         ELSE IF o.outcome = "ok" /\ o.got = o.sent /\ o.mwgot = o.got THEN "ok"
         ELSE IF o.outcome \in {"client_err", "refused_4xx"} /\ o.sent = Nil /\ o.required THEN "ok"
         ELSE IF "Dev_MapQueryParameterDropped" \in KnownDeviations /\ o.sent # Nil
                 /\ ((o.outcome = "ok" /\ o.got = Nil /\ o.mwgot = Nil /\ ~o.required) \/ (o.outcome \in {"refused_4xx", "client_err"} /\ o.required))
              THEN "known=Dev_MapQueryParameterDropped"
         ELSE IF o.outcome = "ok" THEN "viol-parameter-delivered-changed" ELSE "viol-core-value-not-delivered"
    [] o.kind = "respd" -> RespDVerdict(o)
    [] o.kind = "media" -> MediaVerdict(o)
    \* a webhook operation (header parameter, JSON body, JSON response) through the generated
    \* WebhookClient / WebhookServer: everything given arrives, everything returned comes back
    [] o.kind = "hook" -> IF o.outcome = "ok" /\ o.gotp = o.sentp /\ o.mwp = o.sentp /\ o.gotb = o.sentb /\ o.mwb = o.sentb /\ o.rgot = o.rsent THEN "ok"
                          ELSE IF o.outcome \in {"client_err", "refused_4xx"} /\ ~o.core THEN "ok"
                          ELSE "viol-webhook-exchange-changed-a-value"
VARIABLE l
Init == l = 0
Next == l < Len(Obs) /\ l' = l + 1 /\ Report(l', Verdict(Obs[l']))
=============================================================================
