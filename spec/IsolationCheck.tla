---------------------------- MODULE IsolationCheck ----------------------------
(* B2 for C19: the trace of one driver run, one event per line.                 *)
EXTENDS Isolation, ObsLib
VARIABLES l, st
Init == l = 0 /\ st = StInit
Next == /\ l < Len(Obs) /\ l' = l + 1 /\ st' = OnEvent(st, Obs[l'])
        /\ Report(l', IF st'.ok THEN "ok" ELSE IF st.ok THEN "viol-" \o st'.why ELSE "ok")
=============================================================================
