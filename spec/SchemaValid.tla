----------------------------- MODULE SchemaValid -----------------------------
(***************************************************************************)
(* C03 -- validity of a JSON instance against a schema of the keyword      *)
(* fragment ogen implements (Draft 4 semantics + OpenAPI `nullable`).      *)
(*                                                                         *)
(* Values (numbers are exact tenths, so 1 = 1.0 and 0.1 is exact):         *)
(*   [t |-> "null"] [t |-> "bool", b] [t |-> "num", n (tenths)]            *)
(*   [t |-> "str", s (seq of chars)] [t |-> "arr", v] [t |-> "obj", m]     *)
(*   m = sequence of <<name, value>> with distinct names                   *)
(* Schemas (constructor language, k = kind):                               *)
(*   any | bool | str(minL,maxL,pat) | int/num(lo,hi,xlo,xhi,mult)         *)
(*   | arr(items,minI,maxI,uniq) | obj(props,addl,minP,maxP)               *)
(*   | nullable(s) | enum(vals, s) | allOf(ss) | oneOf(ss) | anyOf(ss)     *)
(*   | self  (a reference to the enclosing root schema: recursion)         *)
(*   | fmt(ty, name)  (type ty with `format: name`)                        *)
(*   | ref(name)  (a $ref to the shared component Defs[name]; every        *)
(*     generated document carries all of Defs, so components are shared    *)
(*     between the operations of a document)                               *)
(* Bounds use NONE (= 0 - 1000) for "keyword absent".                      *)
(* A property record is [name, s, req, decl]; decl = FALSE is a name that  *)
(* appears under `required` only (not under `properties`).                 *)
(* Keywords of one schema object are conjunctive: `nullable` widens `type` *)
(* only, so an `enum` beside it still has to list null (OAS 3.0.3).        *)
(***************************************************************************)
EXTENDS Integers, Sequences, FiniteSets, TLC

NONE == 0 - 1000
Null == [t |-> "null"]
B(b) == [t |-> "bool", b |-> b]
N(n) == [t |-> "num", n |-> n]
S(s) == [t |-> "str", s |-> s]
A(v) == [t |-> "arr", v |-> v]
O(m) == [t |-> "obj", m |-> m]

\* characters of the concrete text of each multi-character symbol (cross-checked by the harness against its table)
SymInfo == [sf_2p63 |-> [len |-> 21, hasb |-> FALSE], sf_2p64 |-> [len |-> 22, hasb |-> FALSE], su_max |-> [len |-> 20, hasb |-> FALSE], su_over |-> [len |-> 20, hasb |-> FALSE], du_neg250ms |-> [len |-> 6, hasb |-> FALSE], du_neg1ns |-> [len |-> 4, hasb |-> FALSE], du_neg90m |-> [len |-> 4, hasb |-> FALSE], du_neg1h30m0s |-> [len |-> 8, hasb |-> FALSE], du_zero |-> [len |-> 2, hasb |-> FALSE], du_us |-> [len |-> 5, hasb |-> FALSE], d_1 |-> [len |-> 10, hasb |-> FALSE], d_feb30 |-> [len |-> 10, hasb |-> FALSE], d_short |-> [len |-> 8, hasb |-> FALSE], dt_feb30 |-> [len |-> 20, hasb |-> FALSE], dt_frac |-> [len |-> 22, hasb |-> FALSE], dt_month13 |-> [len |-> 20, hasb |-> FALSE], dt_nozone |-> [len |-> 19, hasb |-> FALSE], dt_off |-> [len |-> 25, hasb |-> FALSE], dt_plus |-> [len |-> 25, hasb |-> FALSE], dt_z |-> [len |-> 20, hasb |-> FALSE], du_1 |-> [len |-> 6, hasb |-> FALSE], du_1h30m0s |-> [len |-> 7, hasb |-> FALSE], du_90m |-> [len |-> 3, hasb |-> FALSE], du_bad |-> [len |-> 2, hasb |-> FALSE], du_frac |-> [len |-> 4, hasb |-> FALSE], ip_1 |-> [len |-> 11, hasb |-> FALSE], ip_256 |-> [len |-> 9, hasb |-> FALSE], si_12 |-> [len |-> 2, hasb |-> FALSE], si_7 |-> [len |-> 1, hasb |-> FALSE], si_big |-> [len |-> 19, hasb |-> FALSE], si_frac |-> [len |-> 3, hasb |-> FALSE], si_neg |-> [len |-> 2, hasb |-> FALSE], t_1 |-> [len |-> 8, hasb |-> FALSE], t_25h |-> [len |-> 8, hasb |-> FALSE], t_frac |-> [len |-> 10, hasb |-> FALSE], u_1 |-> [len |-> 36, hasb |-> TRUE], u_short |-> [len |-> 8, hasb |-> FALSE], u_upper |-> [len |-> 36, hasb |-> FALSE]]
FmtSyms == DOMAIN SymInfo

\* the three patterns of the fragment, by name (their meaning is C08's business)
Pat(p, s) ==
  CASE p = "" -> TRUE
    [] p = "^a+$" -> s # <<>> /\ \A i \in 1..Len(s) : s[i] = "a"
    [] p = "b" -> \E i \in 1..Len(s) : s[i] = "b" \/ (s[i] \in DOMAIN SymInfo /\ SymInfo[s[i]].hasb)
\* length in characters: a symbol is one character unless the table says otherwise
RECURSIVE Chars(_)
Chars(s) == IF s = <<>> THEN 0 ELSE (IF Head(s) \in DOMAIN SymInfo THEN SymInfo[Head(s)].len ELSE 1) + Chars(Tail(s))

(* Formats.  A formatted string is one symbol of the table below; the harness owns  *)
(* the concrete text of each symbol (harness/prop/c03 Symbols).  ok = the text is  *)
(* a spelling of a value of the format; echo = the symbol of the canonical         *)
(* spelling of that value (what a codec that loses nothing writes back).           *)
FRow(sym, fmt, ok, echo) == [sym |-> sym, fmt |-> fmt, ok |-> ok, echo |-> echo]
FmtTable == {
  FRow("dt_z", "date-time", TRUE, "dt_z"), FRow("dt_plus", "date-time", TRUE, "dt_z"), FRow("dt_off", "date-time", TRUE, "dt_off"),
  FRow("dt_frac", "date-time", TRUE, "dt_frac"), FRow("dt_month13", "date-time", FALSE, ""), FRow("dt_nozone", "date-time", FALSE, ""), FRow("dt_feb30", "date-time", FALSE, ""),
  FRow("d_1", "date", TRUE, "d_1"), FRow("d_feb30", "date", FALSE, ""), FRow("d_short", "date", FALSE, ""), FRow("dt_z", "date", FALSE, ""),
  FRow("t_1", "time", TRUE, "t_1"), FRow("t_frac", "time", TRUE, "t_frac"), FRow("t_25h", "time", FALSE, ""),
  FRow("u_1", "uuid", TRUE, "u_1"), FRow("u_upper", "uuid", TRUE, "u_1"), FRow("u_short", "uuid", FALSE, ""),
  FRow("ip_1", "ipv4", TRUE, "ip_1"), FRow("ip_256", "ipv4", FALSE, ""), FRow("u_1", "ipv4", FALSE, ""),
  FRow("du_1", "duration", TRUE, "du_1"), FRow("du_90m", "duration", TRUE, "du_1h30m0s"), FRow("du_frac", "duration", TRUE, "du_frac"), FRow("du_bad", "duration", FALSE, ""), FRow("du_neg250ms", "duration", TRUE, "du_neg250ms"), FRow("du_neg1ns", "duration", TRUE, "du_neg1ns"), FRow("du_neg90m", "duration", TRUE, "du_neg1h30m0s"),
  FRow("du_neg1h30m0s", "duration", TRUE, "du_neg1h30m0s"), FRow("du_zero", "duration", TRUE, "du_zero"), FRow("du_us", "duration", TRUE, "du_us"),

  FRow("si_12", "uint64", TRUE, "si_12"), FRow("si_big", "uint64", TRUE, "si_big"), FRow("si_7", "uint64", TRUE, "si_7"), FRow("si_frac", "uint64", FALSE, ""), FRow("su_max", "uint64", TRUE, "su_max"), FRow("si_neg", "uint64", FALSE, ""), FRow("su_over", "uint64", FALSE, ""),
  \* `type: string, format: float64`: the text of a binary64 number; the echo is the shortest text that reads back as the same number
  FRow("si_12", "float64", TRUE, "si_12"), FRow("si_neg", "float64", TRUE, "si_neg"), FRow("si_7", "float64", TRUE, "si_7"), FRow("si_frac", "float64", TRUE, "si_frac"),
  FRow("si_big", "float64", TRUE, "sf_2p63"), FRow("su_max", "float64", TRUE, "sf_2p64"), FRow("su_over", "float64", TRUE, "sf_2p64"), FRow("sf_2p63", "float64", TRUE, "sf_2p63"), FRow("sf_2p64", "float64", TRUE, "sf_2p64"),
  FRow("si_12", "int64", TRUE, "si_12"), FRow("si_neg", "int64", TRUE, "si_neg"), FRow("si_7", "int64", TRUE, "si_7"), FRow("du_1h30m0s", "duration", TRUE, "du_1h30m0s"), FRow("si_frac", "int64", FALSE, ""), FRow("si_big", "int64", FALSE, "")}
StrFormats == {"date-time", "date", "time", "uuid", "ipv4", "duration", "int64", "uint64", "float64"}
IntFormats == {"unix-seconds", "unix-milli", "int32", "int64"}
FmtOK(name, sym) == \E r \in FmtTable : r.sym = sym /\ r.fmt = name /\ r.ok
FmtEcho(name, sym) == (CHOOSE r \in FmtTable : r.sym = sym /\ r.fmt = name /\ r.ok).echo

Names(m) == {m[i][1] : i \in 1..Len(m)}
Get(m, name) == (CHOOSE i \in 1..Len(m) : m[i][1] = name)
PropNames(S0) == {S0.props[i].name : i \in {j \in 1..Len(S0.props) : S0.props[j].decl}}
PropOf(S0, name) == S0.props[CHOOSE i \in 1..Len(S0.props) : S0.props[i].decl /\ S0.props[i].name = name]

(**************************** schema constructors **************************)
AnyS == [k |-> "any"]
Bool == [k |-> "bool"]
Str(minL, maxL, pat) == [k |-> "str", minL |-> minL, maxL |-> maxL, pat |-> pat]
IntS(lo, hi, xlo, xhi, mult) == [k |-> "int", lo |-> lo, hi |-> hi, xlo |-> xlo, xhi |-> xhi, mult |-> mult]
Num(lo, hi, xlo, xhi, mult) == [k |-> "num", lo |-> lo, hi |-> hi, xlo |-> xlo, xhi |-> xhi, mult |-> mult]
Arr(items, minI, maxI, uniq) == [k |-> "arr", items |-> items, minI |-> minI, maxI |-> maxI, uniq |-> uniq]
P(name, s, req) == [name |-> name, s |-> s, req |-> req, decl |-> TRUE]
\* a name listed under `required` that `properties` does not declare
PH(name) == [name |-> name, s |-> [k |-> "any"], req |-> TRUE, decl |-> FALSE]
Obj(props, addl, minP, maxP) == [k |-> "obj", props |-> props, addl |-> addl, minP |-> minP, maxP |-> maxP]
Nullable(s) == [k |-> "nullable", s |-> s]
Enum(vals, s) == [k |-> "enum", vals |-> vals, s |-> s]
AllOf(ss) == [k |-> "allOf", ss |-> ss]
OneOf(ss) == [k |-> "oneOf", ss |-> ss]
AnyOf(ss) == [k |-> "anyOf", ss |-> ss]
Self == [k |-> "self"]
Fmt(ty, name) == [k |-> "fmt", ty |-> ty, name |-> name]

\* additionalProperties: true / false (or a schema)
AT == [k |-> "addl_true"]
AF == [k |-> "addl_false"]
AnyStr == Str(0, NONE, "")
AnyInt == IntS(NONE, NONE, FALSE, FALSE, NONE)
AnyNum == Num(NONE, NONE, FALSE, FALSE, NONE)

\* shared components (referenced by name from the schema domain)
Defs == [ArrN |-> Nullable(Arr(AnyStr, 0, NONE, FALSE)), ArrS |-> Arr(AnyStr, 0, NONE, FALSE), ArrM |-> Arr(AnyInt, 1, 2, FALSE),
         DA |-> Obj(<<P("a", AnyInt, TRUE), P("b", AnyInt, TRUE)>>, AT, 0, NONE), DB |-> Obj(<<P("b", AnyInt, TRUE)>>, AF, 0, NONE), DC |-> Obj(<<P("a", AnyInt, TRUE)>>, AF, 0, NONE),
         \* variants of a sum with a discriminator (member c): the first carries its data in additional members only
         DVa |-> Obj(<<P("c", Enum(<<S(<<"a">>)>>, AnyStr), TRUE)>>, AnyInt, 0, NONE),
         DVb |-> Obj(<<P("c", Enum(<<S(<<"b">>)>>, AnyStr), TRUE), P("a", AnyStr, FALSE)>>, AF, 0, NONE),
         StrN |-> Nullable(Str(1, NONE, "")), En |-> Enum(<<S(<<"a">>), S(<<"b">>)>>, AnyStr), Dt |-> Fmt("string", "date-time")]
Ref(name) == [k |-> "ref", name |-> name]
\* oneOf with `discriminator: {propertyName, mapping}`: the keyword does not change validity
OneOfD(ss, prop, tags) == [k |-> "oneOf", ss |-> ss, disc |-> [prop |-> prop, tags |-> tags]]

NumOK(S0, n) ==
  /\ (S0.lo # NONE => IF S0.xlo THEN n > S0.lo ELSE n >= S0.lo)
  /\ (S0.hi # NONE => IF S0.xhi THEN n < S0.hi ELSE n <= S0.hi)
  /\ (S0.mult # NONE => n % S0.mult = 0)

\* null beside an enum: the enum has to list it
NullListed(S0) == S0.k = "enum" => \E i \in 1..Len(S0.vals) : S0.vals[i] = Null
RECURSIVE V(_, _, _)
\* root: the schema `self` refers to
V(root, S0, v) ==
  CASE S0.k = "any" -> TRUE
    [] S0.k = "self" -> V(root, root, v)
    [] S0.k = "ref" -> V(Defs[S0.name], Defs[S0.name], v)
    [] S0.k = "nullable" -> IF v.t = "null" THEN NullListed(S0.s) ELSE V(root, S0.s, v)
    [] S0.k = "enum" -> (\E i \in 1..Len(S0.vals) : S0.vals[i] = v) /\ V(root, S0.s, v)
    [] S0.k = "bool" -> v.t = "bool"
    [] S0.k = "fmt" -> IF S0.ty = "string" THEN v.t = "str" /\ ((Len(v.s) = 1 /\ FmtOK(S0.name, v.s[1]))) ELSE v.t = "num" /\ v.n % 10 = 0
    [] S0.k = "str" -> v.t = "str" /\ Chars(v.s) >= S0.minL /\ (S0.maxL # NONE => Chars(v.s) <= S0.maxL) /\ Pat(S0.pat, v.s)
    [] S0.k = "int" -> v.t = "num" /\ v.n % 10 = 0 /\ NumOK(S0, v.n)
    [] S0.k = "num" -> v.t = "num" /\ NumOK(S0, v.n)
    [] S0.k = "arr" -> /\ v.t = "arr" /\ Len(v.v) >= S0.minI /\ (S0.maxI # NONE => Len(v.v) <= S0.maxI)
                       /\ (S0.uniq => \A i, j \in 1..Len(v.v) : i # j => v.v[i] # v.v[j])
                       /\ \A i \in 1..Len(v.v) : V(root, S0.items, v.v[i])
    [] S0.k = "obj" -> /\ v.t = "obj"
                       /\ \A i \in 1..Len(S0.props) : S0.props[i].req => S0.props[i].name \in Names(v.m)
                       /\ \A i \in 1..Len(v.m) :
                            IF v.m[i][1] \in PropNames(S0) THEN V(root, PropOf(S0, v.m[i][1]).s, v.m[i][2])
                            ELSE IF S0.addl.k = "addl_true" THEN TRUE ELSE IF S0.addl.k = "addl_false" THEN FALSE ELSE V(root, S0.addl, v.m[i][2])
                       /\ Len(v.m) >= S0.minP /\ (S0.maxP # NONE => Len(v.m) <= S0.maxP)
    [] S0.k = "allOf" -> \A i \in 1..Len(S0.ss) : V(root, S0.ss[i], v)
    [] S0.k = "anyOf" -> \E i \in 1..Len(S0.ss) : V(root, S0.ss[i], v)
    [] S0.k = "oneOf" -> Cardinality({i \in 1..Len(S0.ss) : V(root, S0.ss[i], v)}) = 1
Valid(S0, v) == V(S0, S0, v)

(*********************** implementation layer (named deviations) ***********)
(* VI is V with the deviations in D switched on; VI(.., {}) = V.  Both sit in *)
(* gen/_template/validators.tmpl: the array branch runs ValidateLength on     *)
(* len(slice) without consulting the nil semantic of the slice, so a nil      *)
(* slice that stands for "absent" or for "null" is judged as an empty array.  *)
(*   Dev_AbsentArrayLengthChecked: optional, absent array property, minItems>0 *)
(*   Dev_NullArrayLengthChecked:   nullable array holding null, minItems>0     *)
(*   Dev_NullEmptyStructRefused:   nullable object without declared properties  *)
(*     (an empty Go struct, boxed as a pointer because ir.Type.CanGeneric is     *)
(*     false): gen/_template/json/decode.tmpl dec_pointer never accepts null     *)
(*   Dev_NullableEnumAcceptsNull:  `nullable: true` beside an `enum` that does  *)
(*     not list null: the generated Nil/OptNil wrapper accepts null without     *)
(*     consulting the enum                                                       *)
(*   Dev_RequiredUndeclaredNotEnforced: a name under `required` that is not     *)
(*     declared under `properties` has no field and no bit in the required mask *)
(*   Dev_SumVariantByMemberPresence: a oneOf over objects is decoded by the     *)
(*     presence of members only one variant declares (encoders_sum.tmpl); an    *)
(*     instance carrying such members of two variants is refused as "multiple   *)
(*     oneOf matches" even when only one variant validates                       *)
Deref(S0) == IF S0.k = "ref" THEN Defs[S0.name] ELSE S0
IsArrMin(S0) == Deref(S0).k = "arr" /\ Deref(S0).minI > 0
IsEmptyStruct(S0) == Deref(S0).k = "obj" /\ Deref(S0).props = <<>> /\ Deref(S0).addl.k \in {"addl_true", "addl_false"}
\* members only variant i of a sum declares
UniqueIn(S0, i) == PropNames(Deref(S0.ss[i])) \ UNION {PropNames(Deref(S0.ss[j])) : j \in (1..Len(S0.ss)) \ {i}}
(*   Dev_SumUniqueCachedOnSharedVariant: gen/schema_gen_sum.go stores the unique      *)
(*     members of a variant on the variant's own type (SumSpec.Unique) and skips the  *)
(*     computation when it is already set: a component that is a variant of two sums  *)
(*     keeps, in the second, the unique members computed for the first.  SumDecode is *)
(*     the generated decoder for a given assignment Us of unique members.             *)
SharedSums == {OneOf(<<Ref("DA"), Ref("DC")>>), OneOf(<<Ref("DA"), Ref("DB")>>)}
AltUnique(S0, i) == {UniqueIn(S0, i)} \cup {UniqueIn(x, j) : <<x, j>> \in {<<y, jj>> \in SharedSums \X (1..2) : jj <= Len(y.ss) /\ y.ss[jj] = S0.ss[i]}}
RECURSIVE VI(_, _, _, _)
VI(root, S0, v, D) ==
  CASE S0.k = "any" -> TRUE
    [] S0.k = "self" -> VI(root, root, v, D)
    [] S0.k = "ref" -> VI(Defs[S0.name], Defs[S0.name], v, D)
    [] S0.k = "nullable" -> IF v.t = "null" THEN /\ ~("Dev_NullArrayLengthChecked" \in D /\ IsArrMin(S0.s)) /\ ~("Dev_NullEmptyStructRefused" \in D /\ IsEmptyStruct(S0.s))
                                                 /\ ("Dev_NullableEnumAcceptsNull" \in D \/ NullListed(S0.s))
                            ELSE VI(root, S0.s, v, D)
    \* Dev_EnumIgnoresOtherKeywords: an enum type checks membership only
    [] S0.k = "enum" -> (\E i \in 1..Len(S0.vals) : S0.vals[i] = v) /\ ("Dev_EnumIgnoresOtherKeywords" \in D \/ VI(root, S0.s, v, D))
    [] S0.k \in {"bool", "str", "int", "num", "fmt"} -> V(root, S0, v)
    [] S0.k = "arr" -> /\ v.t = "arr" /\ Len(v.v) >= S0.minI /\ (S0.maxI # NONE => Len(v.v) <= S0.maxI)
                       /\ (S0.uniq => \A i, j \in 1..Len(v.v) : i # j => v.v[i] # v.v[j])
                       /\ \A i \in 1..Len(v.v) : VI(root, S0.items, v.v[i], D)
    [] S0.k = "obj" -> /\ v.t = "obj"
                       /\ \A i \in 1..Len(S0.props) : S0.props[i].req /\ (S0.props[i].decl \/ "Dev_RequiredUndeclaredNotEnforced" \notin D) => S0.props[i].name \in Names(v.m)
                       /\ \A i \in 1..Len(S0.props) :
                            (~S0.props[i].req /\ S0.props[i].name \notin Names(v.m) /\ IsArrMin(S0.props[i].s)) => "Dev_AbsentArrayLengthChecked" \notin D
                       /\ \A i \in 1..Len(v.m) :
                            \* an optional nullable property is an OptNil wrapper, whose null never reaches the array branch
                            IF v.m[i][1] \in PropNames(S0) THEN
                                 LET p == PropOf(S0, v.m[i][1]) IN
                                 IF ~p.req /\ p.s.k = "nullable" /\ v.m[i][2].t = "null" THEN ~("Dev_NullEmptyStructRefused" \in D /\ IsEmptyStruct(p.s.s)) /\ ("Dev_NullableEnumAcceptsNull" \in D \/ NullListed(p.s.s)) ELSE VI(root, p.s, v.m[i][2], D)
                            ELSE IF S0.addl.k = "addl_true" THEN TRUE ELSE IF S0.addl.k = "addl_false" THEN FALSE ELSE VI(root, S0.addl, v.m[i][2], D)
                       \* (C04) members the type drops were counted when the value was read
                       \* (C04, built values) the member count is checked when a value is read, not by Validate
                       /\ \/ "Dev_PropertyCountNotInValidate" \in D
                          \/ (("Dev_DroppedMembersCounted" \in D /\ S0.addl.k = "addl_true") \/ Len(v.m) >= S0.minP) /\ (S0.maxP # NONE => Len(v.m) <= S0.maxP)
    \* allOf branches are merged into one type: a name one branch lists under `required` and
    \* another branch declares IS enforced (whatever Dev_RequiredUndeclaredNotEnforced says about
    \* names no branch declares)
    [] S0.k = "allOf" -> /\ \A i \in 1..Len(S0.ss) : VI(root, S0.ss[i], v, D)
                         /\ LET objs == {i \in 1..Len(S0.ss) : Deref(S0.ss[i]).k = "obj"}
                                declared == UNION {PropNames(Deref(S0.ss[i])) : i \in objs} IN
                            v.t = "obj" => \A i \in objs : \A j \in 1..Len(Deref(S0.ss[i]).props) :
                               LET q == Deref(S0.ss[i]).props[j] IN (q.req /\ ~q.decl /\ q.name \in declared) => q.name \in Names(v.m)
    [] S0.k = "anyOf" -> \E i \in 1..Len(S0.ss) : VI(root, S0.ss[i], v, D)
    [] S0.k = "oneOf" -> LET exact == Cardinality({i \in 1..Len(S0.ss) : VI(root, S0.ss[i], v, D)}) = 1
                             \* members only variant i declares
                             U(i) == UniqueIn(S0, i)
                             claimed == {i \in 1..Len(S0.ss) : U(i) \cap Names(v.m) # {}} IN
                         IF "Dev_SumVariantByMemberPresence" \in D /\ v.t = "obj" /\ (\A i \in 1..Len(S0.ss) : Deref(S0.ss[i]).k = "obj") /\ Cardinality(claimed) >= 2
                         THEN FALSE ELSE exact
ImplValid(S0, v, D) == VI(S0, S0, v, D)
\* the generated sum decoder with unique members Us (one set per variant): the variant is
\* the one claimed by a present member; none claimed -> the variant without unique members
SumDecode(S0, v, Us, D) ==
  LET claimed == {i \in 1..Len(S0.ss) : Us[i] \cap Names(v.m) # {}}
      dflt == {i \in 1..Len(S0.ss) : Us[i] = {}} IN
  IF v.t # "obj" \/ Cardinality(claimed) >= 2 THEN FALSE
  ELSE IF claimed # {} THEN ImplValid(S0.ss[CHOOSE i \in claimed : TRUE], v, D)
  ELSE IF dflt # {} THEN ImplValid(S0.ss[CHOOSE i \in dflt : \A j \in dflt : i <= j], v, D)
  ELSE FALSE
\* outcomes the stale cache can produce for a shared sum
StaleOutcomes(S0, v, D) == {SumDecode(S0, v, Us, D) : Us \in {f \in [1..Len(S0.ss) -> SUBSET {"a", "b", "c"}] : \A i \in 1..Len(S0.ss) : f[i] \in AltUnique(S0, i)}}
Deviations == {"Dev_AbsentArrayLengthChecked", "Dev_NullArrayLengthChecked", "Dev_NullEmptyStructRefused", "Dev_NullableEnumAcceptsNull", "Dev_RequiredUndeclaredNotEnforced", "Dev_SumVariantByMemberPresence", "Dev_SumUniqueCachedOnSharedVariant", "Dev_EnumIgnoresOtherKeywords"}

(******************************* schema domain *****************************)
StrSchemas == {AnyStr, Str(2, NONE, ""), Str(0, 2, ""), Str(1, 2, ""), Str(0, 0, ""), Str(0, NONE, "^a+$"), Str(0, NONE, "b"), Str(2, 2, "^a+$"),
               Enum(<<S(<<"a">>), S(<<"b", "b">>)>>, AnyStr), Nullable(AnyStr), Nullable(Str(2, NONE, "")), Nullable(Enum(<<S(<<"a">>), Null>>, AnyStr)),
               \* enum beside other keywords: all of them apply
               Enum(<<S(<<"a">>), S(<<"a", "b">>), S(<<"a", "a", "a">>)>>, Str(0, 2, "")), Enum(<<S(<<"a">>), S(<<"b">>)>>, Str(0, NONE, "^a+$")),
               \* nullable beside an enum that does not list null
               Nullable(Enum(<<S(<<"a">>), S(<<"b">>)>>, AnyStr))}
IntSchemas == {AnyInt, IntS(10, NONE, FALSE, FALSE, NONE), IntS(NONE, 30, FALSE, FALSE, NONE), IntS(10, 30, TRUE, FALSE, NONE), IntS(10, 30, FALSE, TRUE, NONE),
               IntS(10, 30, TRUE, TRUE, NONE), IntS(NONE, NONE, FALSE, FALSE, 20), IntS(0, 40, FALSE, FALSE, 20), Enum(<<N(10), N(30)>>, AnyInt), Nullable(AnyInt),
               IntS(0 - 10, 10, FALSE, FALSE, NONE),
               \* a divisor that is not a power of two, against negative instances
               IntS(NONE, NONE, FALSE, FALSE, 30), IntS(0 - 30, NONE, FALSE, FALSE, 20), Nullable(Enum(<<N(10), N(30)>>, AnyInt))}
NumSchemas == {AnyNum, Num(5, NONE, FALSE, FALSE, NONE), Num(NONE, 15, FALSE, FALSE, NONE), Num(5, 15, TRUE, TRUE, NONE), Num(NONE, NONE, FALSE, FALSE, 5),
               Num(NONE, NONE, FALSE, FALSE, 1), Num(NONE, NONE, FALSE, FALSE, 15),
               \* multipleOf 1: every integer passes, a number with a fraction does not
               Num(NONE, NONE, FALSE, FALSE, 10), Num(0 - 20, 20, FALSE, FALSE, 10), IntS(NONE, NONE, FALSE, FALSE, 10), Enum(<<N(5), N(10)>>, AnyNum), Nullable(Num(5, 15, FALSE, FALSE, NONE))}
ArrSchemas == {Arr(AnyStr, 0, NONE, FALSE), Arr(AnyInt, 1, NONE, FALSE), Arr(AnyStr, 0, 1, FALSE), Arr(AnyInt, 1, 2, TRUE), Arr(AnyStr, 0, NONE, TRUE),
               Arr(Str(2, NONE, ""), 0, NONE, FALSE), Arr(IntS(10, NONE, FALSE, FALSE, NONE), 0, 2, FALSE), Arr(AnyNum, 0, NONE, TRUE), Nullable(Arr(AnyStr, 0, NONE, FALSE)),
               Arr(Arr(AnyInt, 0, 1, FALSE), 0, NONE, FALSE), Arr(Nullable(AnyStr), 0, NONE, FALSE),
               \* the nil-slice cases: null / absent where an array with minItems is declared
               Nullable(Arr(AnyStr, 1, NONE, FALSE)), Arr(Nullable(Arr(AnyInt, 1, NONE, FALSE)), 0, NONE, FALSE)}
PA == P("a", AnyStr, TRUE)
PBo == P("b", AnyInt, FALSE)
ObjSchemas == {Obj(<<PA, PBo>>, AT, 0, NONE), Obj(<<PA, PBo>>, AF, 0, NONE), Obj(<<PA, PBo>>, AnyInt, 0, NONE), Obj(<<P("a", AnyStr, FALSE), PBo>>, AT, 1, NONE),
               Obj(<<P("a", AnyStr, FALSE), PBo>>, AT, 0, 1), Obj(<<P("a", Str(2, NONE, ""), TRUE), P("b", IntS(10, 30, FALSE, FALSE, NONE), TRUE)>>, AF, 0, NONE),
               Obj(<<>>, AnyStr, 0, 2), Obj(<<>>, AnyInt, 1, NONE),
               \* only the additional members are constrained (the declared ones need no validation)
               Obj(<<P("a", AnyStr, FALSE)>>, Str(0, 2, ""), 0, NONE), Obj(<<P("a", AnyStr, TRUE), P("b", AnyInt, FALSE)>>, IntS(10, NONE, FALSE, FALSE, NONE), 0, NONE),
               Arr(Obj(<<P("a", AnyStr, FALSE)>>, Str(0, 2, ""), 0, NONE), 0, NONE, FALSE), Obj(<<P("a", Nullable(AnyStr), TRUE)>>, AT, 0, NONE), Obj(<<P("a", Nullable(AnyStr), FALSE)>>, AF, 0, NONE),
               Obj(<<P("a", Obj(<<P("b", AnyInt, TRUE)>>, AF, 0, NONE), TRUE)>>, AT, 0, NONE), Obj(<<P("a", Arr(AnyInt, 1, NONE, TRUE), TRUE), P("c", Bool, FALSE)>>, AT, 0, NONE),
               Nullable(Obj(<<PA>>, AF, 0, NONE)),
               Obj(<<P("a", Arr(AnyStr, 1, NONE, FALSE), FALSE), PBo>>, AT, 0, NONE), Obj(<<P("a", Nullable(Arr(AnyStr, 1, 2, FALSE)), TRUE)>>, AF, 0, NONE),
               Obj(<<P("a", Nullable(Arr(AnyStr, 1, 2, FALSE)), FALSE)>>, AF, 0, NONE),
               Nullable(Obj(<<>>, AF, 0, NONE)), Obj(<<P("a", Nullable(Obj(<<>>, AT, 0, 2)), FALSE)>>, AT, 0, NONE),
               \* two optional (and two nullable) text members with different patterns: each member keeps its own
               Obj(<<P("a", Str(0, NONE, "^a+$"), FALSE), P("b", Str(0, NONE, "b"), FALSE)>>, AF, 0, NONE),
               Obj(<<P("a", Nullable(Str(0, NONE, "b")), TRUE), P("b", Nullable(Str(0, NONE, "^a+$")), TRUE)>>, AF, 0, NONE),
               OneOf(<<Str(0, NONE, "^a+$"), AnyInt>>), OneOf(<<Str(0, NONE, "b"), Bool>>),
               \* recursion: a list node
               Obj(<<P("a", AnyInt, TRUE), P("c", Self, FALSE)>>, AF, 0, NONE),
               \* recursion where the recursive member is declared before the only member that carries a
               \* constraint (whether a type needs validation at all is computed by walking the type graph,
               \* cutting at the type under way), directly and through an array
               Obj(<<P("a", Self, FALSE), P("b", IntS(10, NONE, FALSE, FALSE, NONE), TRUE)>>, AF, 0, NONE),
               Obj(<<P("a", Arr(Self, 0, NONE, FALSE), FALSE), P("b", Str(2, NONE, ""), TRUE)>>, AF, 0, NONE)}
ObjA == Obj(<<P("a", AnyStr, TRUE)>>, AF, 0, NONE)
ObjB == Obj(<<P("b", AnyInt, TRUE)>>, AF, 0, NONE)
ObjAo == Obj(<<P("a", AnyStr, TRUE)>>, AT, 0, NONE)
ObjBo == Obj(<<P("b", AnyInt, TRUE)>>, AT, 0, NONE)
SumSchemas == {OneOf(<<AnyStr, AnyInt>>),
               \* variants told apart by their required member only: an instance with both is in both
               OneOf(<<ObjAo, ObjBo>>), OneOf(<<Obj(<<P("a", AnyStr, TRUE), P("c", Bool, FALSE)>>, AT, 0, NONE), Obj(<<P("b", AnyInt, TRUE), P("c", Bool, FALSE)>>, AT, 0, NONE)>>),
               \* three variants that all declare one common member next to their own required one
               OneOf(<<Obj(<<P("a", AnyStr, TRUE), P("c", Bool, FALSE)>>, AT, 0, NONE), Obj(<<P("b", AnyInt, TRUE), P("c", Bool, FALSE)>>, AT, 0, NONE), Obj(<<P("d", AnyInt, TRUE), P("c", Bool, FALSE)>>, AT, 0, NONE)>>),
               \* allOf over primitives: every bound of every member applies
               AllOf(<<IntS(NONE, 30, FALSE, TRUE, NONE), IntS(0, NONE, FALSE, FALSE, NONE)>>), AllOf(<<IntS(10, NONE, TRUE, FALSE, NONE), IntS(NONE, 30, FALSE, FALSE, NONE)>>),
               AllOf(<<Num(NONE, 15, FALSE, TRUE, NONE), Num(5, NONE, TRUE, FALSE, NONE)>>),
               \* the exclusive flag belongs to the bound that wins
               AllOf(<<IntS(NONE, 30, FALSE, TRUE, NONE), IntS(NONE, 20, FALSE, FALSE, NONE)>>), AllOf(<<IntS(10, NONE, TRUE, FALSE, NONE), IntS(20, NONE, FALSE, FALSE, NONE)>>),
               AllOf(<<IntS(NONE, 20, FALSE, FALSE, NONE), IntS(NONE, 20, FALSE, TRUE, NONE)>>), Enum(<<N(10), N(30)>>, IntS(NONE, 20, FALSE, FALSE, NONE)), AllOf(<<Str(1, NONE, ""), Str(0, 2, "")>>),
               AllOf(<<Arr(AnyInt, 1, NONE, FALSE), Arr(AnyInt, 0, 2, TRUE)>>),
               \* required names that properties does not declare
               Obj(<<P("a", AnyStr, FALSE), PH("c")>>, AT, 0, NONE), Obj(<<PH("b")>>, AT, 0, NONE), OneOf(<<Str(2, NONE, ""), IntS(10, NONE, FALSE, FALSE, NONE), Bool>>), OneOf(<<ObjA, ObjB>>), OneOf(<<AnyStr, Arr(AnyInt, 0, NONE, FALSE)>>),
               AnyOf(<<AnyStr, AnyInt>>), AnyOf(<<Str(0, 1, ""), AnyNum>>), OneOf(<<ObjA, AnyStr>>), Nullable(OneOf(<<AnyStr, AnyInt>>)),
               AllOf(<<Obj(<<P("a", AnyStr, TRUE)>>, AT, 0, NONE), Obj(<<P("b", AnyInt, TRUE)>>, AT, 0, NONE)>>),
               \* `required` in one branch, the declaration in another (Base + {required: [a]})
               AllOf(<<Obj(<<P("a", AnyStr, FALSE), P("b", AnyInt, FALSE)>>, AT, 0, NONE), Obj(<<PH("a")>>, AT, 0, NONE)>>),
               AllOf(<<Obj(<<PH("b")>>, AT, 0, NONE), Obj(<<P("a", AnyStr, FALSE)>>, AT, 0, NONE), Obj(<<P("b", AnyInt, FALSE)>>, AT, 0, NONE)>>),
               AllOf(<<Obj(<<P("a", AnyStr, TRUE)>>, AT, 0, NONE), Obj(<<P("b", AnyInt, FALSE), P("c", Bool, TRUE)>>, AT, 0, NONE)>>)}
\* required-mask byte boundaries: 9 and 17 properties, the last one required
Letters == <<"a", "b", "c", "d", "e", "f", "g", "h", "i", "j", "k", "l", "m", "n", "o", "p", "q">>
Wide(n) == Obj([i \in 1..n |-> P(Letters[i], AnyInt, i \in {1, 8, 9, n})], AF, 0, NONE)
FmtSchemas == {Fmt("string", f) : f \in StrFormats} \cup {Fmt("integer", f) : f \in IntFormats}
              \cup {Nullable(Fmt("string", "date-time")), Arr(Fmt("string", "date"), 0, NONE, FALSE), Arr(Fmt("string", "uuid"), 0, 2, TRUE),
                    Obj(<<P("a", Fmt("string", "date-time"), FALSE), P("b", Fmt("integer", "unix-seconds"), FALSE)>>, AF, 0, NONE),
                    Obj(<<P("a", Nullable(Fmt("string", "duration")), TRUE)>>, AF, 0, NONE), Obj(<<>>, Fmt("string", "time"), 0, NONE),
                    OneOf(<<Fmt("integer", "int64"), Fmt("string", "uuid")>>), Arr(Fmt("string", "duration"), 0, NONE, FALSE),
                    \* an optional number and an optional number-as-text in one object (both are held as a Go float64 behind an optional wrapper)
                    Obj(<<P("a", Fmt("string", "float64"), FALSE), P("b", AnyNum, FALSE)>>, AF, 0, NONE),
                    Obj(<<P("a", AnyNum, FALSE), P("b", Nullable(Fmt("string", "float64")), FALSE), P("c", Nullable(AnyNum), TRUE)>>, AF, 0, NONE)}
RefSchemas == {Obj(<<P("a", Ref("ArrN"), TRUE), P("b", Ref("ArrS"), FALSE)>>, AF, 0, NONE), Arr(Ref("ArrN"), 0, NONE, FALSE), Arr(Ref("ArrS"), 0, NONE, FALSE),
               Obj(<<>>, Ref("ArrN"), 0, NONE), Obj(<<P("a", Ref("ArrM"), FALSE), P("c", Ref("StrN"), TRUE)>>, AF, 0, NONE),
               Obj(<<P("a", Ref("StrN"), FALSE), P("b", Ref("En"), FALSE), P("c", Ref("Dt"), FALSE)>>, AF, 0, NONE),
               \* two sums sharing a variant: what tells DA apart differs (b in the first, a ... in the second)
               Ref("ArrN"), Ref("DA"), OneOfD(<<Ref("DVa"), Ref("DVb")>>, "c", <<"a", "b">>),
               Obj(<<P("a", OneOfD(<<Ref("DVa"), Ref("DVb")>>, "c", <<"a", "b">>), TRUE)>>, AF, 0, NONE)} \cup SharedSums
Schemas == RefSchemas \cup FmtSchemas \cup StrSchemas \cup IntSchemas \cup NumSchemas \cup ArrSchemas \cup ObjSchemas \cup SumSchemas \cup {Bool, Nullable(Bool), AnyS, Wide(9), Wide(17)}

(****************************** instance domain ****************************)
Leaves == {Null, B(TRUE), B(FALSE), N(0), N(10), N(20), N(30), N(40), N(5), N(15), N(1), N(0 - 10), N(0 - 20), N(0 - 30), N(0 - 60), N(0 - 160), S(<<>>), S(<<"a">>), S(<<"a", "a">>), S(<<"a", "a", "a">>), S(<<"b">>), S(<<"a", "b">>), S(<<"b", "b">>), S(<<"e">>),
           \* strings the JSON codec has to escape or pass through: each symbol is one character
           \* (quote, backslash, line feed, NUL, U+2028, an astral character, U+00E9, '<')
           S(<<"quote">>), S(<<"bslash", "a">>), S(<<"nl">>), S(<<"nul", "b">>), S(<<"ls">>), S(<<"astral", "ee">>), S(<<"lt", "quote", "bslash">>)} \cup {S(<<x>>) : x \in FmtSyms}
Small == {Null, N(10), N(5), S(<<"a">>), S(<<"a", "a">>), N(20)}
Arrays == {A(<<>>)} \cup {A(<<x>>) : x \in Leaves} \cup {A(<<x, y>>) : x \in Small, y \in Small} \cup {A(<<N(10), N(20), N(30)>>), A(<<A(<<N(10)>>)>>), A(<<A(<<N(10), N(20)>>)>>), A(<<S(<<"a">>), S(<<"a">>), S(<<"b">>)>>)}
Keys == {"a", "b", "c"}
Objects == {O(<<>>)} \cup {O(<< <<k, x>> >>) : k \in Keys, x \in Leaves}
           \cup {O(<< <<"a", x>>, <<"b", y>> >>) : x \in Small, y \in Small} \cup {O(<< <<"b", y>>, <<"a", x>> >>) : x \in {S(<<"a">>), N(10)}, y \in {N(10), S(<<"a">>)}}
           \cup {O(<< <<"a", x>>, <<"c", y>> >>) : x \in {S(<<"a">>), N(10), A(<<N(10)>>)}, y \in {B(TRUE), N(10), Null}}
           \cup {O(<< <<"a", S(<<"dt_z">>)>>, <<"b", y>> >>) : y \in {N(10), N(5), S(<<"dt_z">>)}}
           \cup {O(<< <<"a", O(<< <<"b", y>> >>)>> >>) : y \in {N(10), S(<<"a">>), Null}} \cup {O(<< <<"a", O(<<>>)>> >>), O(<< <<"a", A(<<N(10), N(10)>>)>> >>), O(<< <<"a", A(<<>>)>> >>)}
           \cup {O(<< <<"a", N(10)>>, <<"c", O(<< <<"a", y>> >>)>> >>) : y \in {N(20), S(<<"a">>)}} \cup {O(<< <<"a", N(10)>>, <<"c", O(<< <<"a", N(20)>>, <<"c", O(<< <<"a", N(30)>> >>)>> >>)>> >>)}
           \cup {O(<< <<"a", S(<<"a">>)>>, <<"b", N(10)>>, <<"c", B(TRUE)>> >>), O(<< <<"a", S(<<"a">>)>>, <<"b", N(10)>>, <<"c", N(10)>> >>)}
           \* nested values that break a constraint one, two and three levels down (and their valid twins)
           \cup {O(<< <<"a", O(<< <<"b", y>> >>)>>, <<"b", N(10)>> >>) : y \in {N(5), N(10)}}
           \cup {O(<< <<"a", O(<< <<"a", O(<< <<"b", y>> >>)>>, <<"b", N(20)>> >>)>>, <<"b", N(10)>> >>) : y \in {N(5), N(10)}}
           \cup {O(<< <<"a", A(<<O(<< <<"b", y>> >>)>>)>>, <<"b", S(<<"a", "a">>)>> >>) : y \in {S(<<"a">>), S(<<"a", "b">>)}}
           \cup {O(<< <<"a", A(<<O(<< <<"a", A(<<O(<< <<"b", y>> >>)>>)>>, <<"b", S(<<"a", "a">>)>> >>)>>)>>, <<"b", S(<<"a", "a">>)>> >>) : y \in {S(<<"a">>), S(<<"a", "b">>)}}
           \cup {O(<< <<"b", N(10)>>, <<"c", B(TRUE)>> >>), O(<< <<"c", B(TRUE)>>, <<"a", S(<<"a">>)>> >>)}
DiscInsts == {O(<< <<"c", S(<<"a">>)>> >>), O(<< <<"c", S(<<"a">>)>>, <<"b", N(10)>> >>), O(<< <<"c", S(<<"a">>)>>, <<"a", N(10)>>, <<"b", N(20)>> >>), O(<< <<"b", N(10)>>, <<"c", S(<<"a">>)>> >>),
              O(<< <<"c", S(<<"a">>)>>, <<"b", S(<<"a">>)>> >>), O(<< <<"c", S(<<"b">>)>> >>), O(<< <<"c", S(<<"b">>)>>, <<"a", S(<<"a">>)>> >>), O(<< <<"c", S(<<"b">>)>>, <<"b", N(10)>> >>),
              O(<< <<"c", S(<<"e">>)>> >>), O(<< <<"a", O(<< <<"c", S(<<"a">>)>>, <<"b", N(10)>> >>)>> >>), O(<< <<"a", O(<< <<"c", S(<<"b">>)>>, <<"a", S(<<"a">>)>> >>)>> >>)}
WideInst(n, drop) == O([i \in 1..(n - (IF drop = 0 THEN 0 ELSE 1)) |-> LET j == IF drop # 0 /\ i >= drop THEN i + 1 ELSE i IN <<Letters[j], N(10)>>])
WideInsts == {WideInst(9, 0), WideInst(9, 9), WideInst(9, 8), WideInst(9, 1), WideInst(9, 2), WideInst(17, 0), WideInst(17, 17), WideInst(17, 9), WideInst(17, 16)}
Instances == Leaves \cup Arrays \cup Objects \cup WideInsts \cup DiscInsts
=============================================================================
