------------------------------ MODULE Isolation ------------------------------
(***************************************************************************)
(* C19 -- generated clients and servers are safe under concurrent use.     *)
(*                                                                         *)
(* Design: every call owns its decode/encode state; encoder/decoder        *)
(* buffers come from a shared pool (Get / Put) and are owned exclusively   *)
(* between the two; the global tables (regexMap, ratMap) are written at    *)
(* init only.  Abstract: the outcome of call i is F(i), its outcome when   *)
(* run alone, under every interleaving; no buffer has two owners.          *)
(*                                                                         *)
(* The conformance side cannot see pool steps (no hook can be placed in    *)
(* generated code or in jx): it observes call boundaries only.  The        *)
(* acceptor below validates such a trace: a sequential phase fixes F       *)
(* (Seq(i, h)), then concurrent phases may Return(i, g, h) only for a call *)
(* that goroutine g has in flight and only with h = F(i); a data-race      *)
(* report of the runtime (Race) is never admissible; at a Barrier nothing  *)
(* is in flight.                                                           *)
(***************************************************************************)
EXTENDS Naturals, Sequences, FiniteSets, TLC

(******************************* acceptor **********************************)
\* st = [f: function call -> outcome hash (as a set of pairs), fly: set of <<g, i>>, ok: BOOLEAN]
\* bw: streamed bodies (ht.CreateBodyWriter) whose writer callback has returned.  A streamed
\* request body is written by a goroutine of its own that walks the caller's request value;
\* closing the body (what ends the exchange, also an early one) joins that goroutine:
\* BwClosed(i) is admissible only after BwExit(i).  Otherwise the writer still reads the
\* request value after the call has returned it to the caller.
StInit == [f |-> {}, fly |-> {}, ok |-> TRUE, why |-> "ok", bw |-> {}]
F(st, i) == IF \E p \in st.f : p[1] = i THEN (CHOOSE p \in st.f : p[1] = i)[2] ELSE "undefined"
Reject(st, why) == IF st.ok THEN [st EXCEPT !.ok = FALSE, !.why = why] ELSE st
OnEvent(st, e) ==
  CASE e.e = "Seq" -> IF \E p \in st.f : p[1] = e.i THEN Reject(st, "call-fixed-twice") ELSE [st EXCEPT !.f = @ \cup {<<e.i, e.h>>}]
    [] e.e = "Call" -> IF <<e.g, e.i>> \in st.fly THEN Reject(st, "call-started-twice") ELSE [st EXCEPT !.fly = @ \cup {<<e.g, e.i>>}]
    [] e.e = "Return" ->
         IF <<e.g, e.i>> \notin st.fly THEN Reject(st, "return-without-call")
         ELSE IF e.h # F(st, e.i) THEN Reject([st EXCEPT !.fly = @ \ {<<e.g, e.i>>}], "outcome-differs-from-the-call-run-alone")
         ELSE [st EXCEPT !.fly = @ \ {<<e.g, e.i>>}]
    [] e.e = "Barrier" -> IF st.fly # {} THEN Reject(st, "call-never-returned") ELSE st
    [] e.e = "Race" -> Reject(st, "data-race-reported")
    [] e.e = "BwStart" -> st
    [] e.e = "BwExit" -> [st EXCEPT !.bw = @ \cup {e.i}]
    [] e.e = "BwClosed" -> IF e.i \in st.bw THEN st ELSE Reject(st, "streamed-body-closed-while-its-writer-still-runs")
    [] OTHER -> Reject(st, "unknown-event")
=============================================================================
