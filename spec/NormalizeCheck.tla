--------------------------- MODULE NormalizeCheck ---------------------------
(* B3 for C12: every observed (in, kind, out) of the real NormalizeEscapedPath *)
(* is judged against Allowed(in) of the abstract layer; a rejected line is     *)
(* re-examined against the implementation layer with the listed deviations.    *)
EXTENDS Normalize, ObsLib
CONSTANT KnownDeviations

Verdict(o) ==
  LET obs == [kind |-> o.kind, out |-> o.out] IN
  IF obs \in Allowed(o.in)
  THEN IF obs = ImplOutcome(o.in, {}) THEN "ok" ELSE "drift"
  ELSE IF \E d \in KnownDeviations : obs = ImplOutcome(o.in, {d})
       THEN "known=" \o (CHOOSE d \in KnownDeviations : obs = ImplOutcome(o.in, {d}))
       ELSE "viol"

VARIABLE l
Init == l = 0
Next == l < Len(Obs) /\ l' = l + 1 /\ Report(l', Verdict(Obs[l']))
=============================================================================
