--------------------------- MODULE JSONPointerMC ---------------------------
(* Exhaustive refinement check: the pc machine of jsonpointer.Resolve against *)
(* the RFC 6901 abstract layer, over the fixed adversarial documents and all  *)
(* pointers of at most MaxToks raw tokens in three spellings.                 *)
EXTENDS JSONPointer
CONSTANTS MaxToks, Devs
VARIABLE st
Plain == {Join(t) : t \in SeqsUpTo(RawToks, MaxToks)}
Pointers == Plain \cup {Frag(p) : p \in Plain} \cup {FragAll(p) : p \in Plain}
Init == st \in {InitState(Docs[d], p) : d \in 1..Len(Docs), p \in Pointers}
Next == st.mode \notin Terminal /\ st' = Step(st, Devs)
Refines == st.mode \in Terminal => Outcome(st) \in Allowed(st.doc, st.orig)
=============================================================================
