---------------------------- MODULE BodyWriterMC ----------------------------
(* Design of ht.CreateBodyWriter (the streamed request bodies of generated     *)
(* clients): a writer goroutine runs the encoder callback against the write    *)
(* half of a pipe, the transport reads the other half and closes it -- at the  *)
(* end of the body or earlier (early answer, dial error).  A pipe write is a   *)
(* rendezvous: it completes when the reader takes the chunk and fails once     *)
(* the read half is closed.  Close joins the writer before it returns, so     *)
(* nothing walks the caller's request value after the call has handed it      *)
(* back (Joined).  "NoJoin" is the named mistake (Close only closes the read   *)
(* half): TLC finds the state in which Close has returned while the callback   *)
(* still runs -- the negative control the harness demands on every run.  The   *)
(* events BwStart / BwExit / BwClosed of spec/Isolation.tla are the            *)
(* observable steps WStart / WExit / CloseReturn of this machine.              *)
EXTENDS Naturals, TLC
CONSTANTS Chunks, Mistakes
VARIABLES wpc, left, offered, rd, closing, closed, werr
vars == <<wpc, left, offered, rd, closing, closed, werr>>
Init == /\ wpc = "new" /\ left = Chunks /\ offered = FALSE /\ rd = "open" /\ closing = FALSE /\ closed = FALSE /\ werr = FALSE
\* ---- the writer goroutine (the callback)
WStart == wpc = "new" /\ wpc' = "run" /\ UNCHANGED <<left, offered, rd, closing, closed, werr>>
\* offer a chunk to the pipe
WOffer == /\ wpc = "run" /\ left > 0 /\ ~offered /\ rd = "open"
          /\ offered' = TRUE /\ UNCHANGED <<wpc, left, rd, closing, closed, werr>>
\* the write fails because the read half is closed; the callback goes on (it looks at errors later)
WFail == /\ wpc = "run" /\ left > 0 /\ rd = "closed"
         /\ left' = left - 1 /\ offered' = FALSE /\ werr' = TRUE /\ UNCHANGED <<wpc, rd, closing, closed>>
WExit == /\ wpc = "run" /\ left = 0 /\ ~offered
         /\ wpc' = "exited" /\ UNCHANGED <<left, offered, rd, closing, closed, werr>>
\* ---- the transport
RTake == /\ rd = "open" /\ offered /\ ~closing
         /\ offered' = FALSE /\ left' = left - 1 /\ UNCHANGED <<wpc, rd, closing, closed, werr>>
\* Close, first half: the read half is closed (a pending offer fails)
CloseBegin == /\ ~closing /\ closing' = TRUE /\ rd' = "closed"
              /\ offered' = FALSE /\ left' = (IF offered THEN left - 1 ELSE left) /\ werr' = (werr \/ offered)
              /\ UNCHANGED <<wpc, closed>>
\* Close, second half: returns after the writer has been joined
CloseReturn == /\ closing /\ ~closed
               /\ ("NoJoin" \in Mistakes \/ wpc = "exited")
               /\ closed' = TRUE /\ UNCHANGED <<wpc, left, offered, rd, closing, werr>>
Next == WStart \/ WOffer \/ WFail \/ WExit \/ RTake \/ CloseBegin \/ CloseReturn
Spec == Init /\ [][Next]_vars /\ WF_vars(Next)
\* after Close has returned the callback is not running and never runs again
Joined == closed => wpc = "exited"
\* Close always returns (the join cannot hang: a closed read half makes every write fail)
CloseTerminates == closing ~> closed
=============================================================================
