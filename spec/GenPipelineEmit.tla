--------------------------- MODULE GenPipelineEmit ---------------------------
(* B1 for C02.  Mode "cfgs": every FeatureOptions over three feature names    *)
(* and one unknown name (Build semantics); Mode "sets": the feature sets to   *)
(* generate with: none, all, default, every singleton, every all-but-one,     *)
(* every pair (Pairs = TRUE);  Mode "names": hostile names of length <=       *)
(* MaxName over the class alphabet.                                           *)
EXTENDS GenPipeline, Json, IOUtils, SequencesExt
CONSTANTS Mode, Pairs, MaxName
Small == {"paths/client", "ogen/otel", "debug/example_tests", "no/such/feature"}
Cfgs == {[disableAll |-> d, disable |-> SetToSeq(x), enable |-> SetToSeq(y)] : d \in BOOLEAN, x \in SUBSET Small, y \in SUBSET Small}
Sets == {{}, AllFeatures, DefaultFeatures} \cup {{f} : f \in AllFeatures} \cup {AllFeatures \ {f} : f \in AllFeatures}
        \cup (IF Pairs THEN {{f, g} : f \in AllFeatures, g \in AllFeatures} \cup {DefaultFeatures \cup {f, g} : f \in AllFeatures, g \in AllFeatures} ELSE {})
RECURSIVE SeqsUpTo(_, _)
SeqsUpTo(S, n) == IF n = 0 THEN {<<>>} ELSE LET R == SeqsUpTo(S, n - 1) IN R \cup {Append(s, c) : s \in {t \in R : Len(t) = n - 1}, c \in S}
\* a A 1 _ - . space " \ e-acute + / $ { * : `
NameSigma == {97, 65, 49, 95, 45, 46, 32, 34, 92, 233, 43, 47, 36, 123, 42, 58, 96}
Names == SeqsUpTo(NameSigma, MaxName) \ {<<>>}
EmitOut == CASE Mode = "cfgs" -> SetToSeq(Cfgs)
             [] Mode = "sets" -> SetToSeq({[set |-> SetToSeq(s)] : s \in Sets})
             [] Mode = "names" -> SetToSeq({[name |-> n] : n \in Names})
ASSUME ndJsonSerialize(IOEnv.VERIF_VECTORS, EmitOut)
VARIABLE x
Init == x = 0
Next == x' = x
=============================================================================
