------------------------------ MODULE SpellingMC ------------------------------
(* The recipe space keeps the data: whatever style a recipe ends up using for a  *)
(* string of any class resolves to a string; a non-string is only ever plain;    *)
(* every class that needs quoting has a witness; every recipe is reachable.      *)
EXTENDS Spelling
VARIABLES r, class
Init == r \in Recipes /\ class \in Classes
Next == UNCHANGED <<r, class>>
KeepsStrings == Resolve(class, StrStyle(r, class)) = "str"
NonStringsPlain == \A tag \in {"bool", "null", "int", "float"} : (PlainTag(class) = tag) => Keeps(tag, class) = {"plain"}
\* as a key, a canonical decimal integer text may be written plain, and the quoted styles keep it too
KeysAreNames == /\ "plain" \in KeyKeeps("intish", TRUE) /\ "double" \in KeyKeeps("intish", TRUE)
                /\ "plain" \notin KeyKeeps("intish", FALSE) /\ "plain" \notin KeyKeeps("boolish", TRUE)
Witnessed == Len(Witness[class]) > 0 /\ (PlainTag(class) # "str" => "plain" \notin Keeps("str", class))
=============================================================================
