---------------------------- MODULE SpellingCheck ----------------------------
(* B3 for C17.  kind "witness": what the reader resolves a plain spelling of a   *)
(* witness text to (binds PlainTag to the reader).  kind "variant": one           *)
(* re-spelling of one document: den = the harness re-read the variant and found   *)
(* the same data (precondition: otherwise the harness, not ogen, is at fault),    *)
(* ref / got = class of outcome (ok | err), same = generated files byte-identical *)
(* resp. diagnostics identical with positions removed.                            *)
EXTENDS Spelling, ObsLib
Verdict(o) ==
  CASE o.kind = "witness" -> IF o.tag = "unreadable" \/ o.got = o.tag THEN "ok" ELSE "harness-reader-resolves-" \o o.text \o "-as-" \o o.got
    [] o.kind = "variant" ->
         IF ~o.den THEN "harness-respelling-changed-the-data"
         ELSE IF o.ref # o.got THEN "viol-one-spelling-accepted-the-other-refused"
         ELSE IF ~o.same THEN (IF o.ref = "ok" THEN "viol-generated-code-differs" ELSE "viol-diagnostic-differs")
         ELSE "ok"
VARIABLE l
Init == l = 0
Next == l < Len(Obs) /\ l' = l + 1 /\ Report(l', Verdict(Obs[l']))
=============================================================================
