---------------------------- MODULE SecurityEmit ----------------------------
(* B1 for C09: every structure of SecurityMC's domain with its credential     *)
(* assignments (0 absent, 1 accept, 2 skip, 3 reject), the byte-boundary      *)
(* structures, and generation-only structures with one not-implemented        *)
(* scheme that some alternative mentions.                                     *)
EXTENDS SecurityMC, Json, IOUtils
Code(c) == CASE c = "absent" -> 0 [] c = "accept" -> 1 [] c = "skip" -> 2 [] c = "reject" -> 3
SeqOfSet(S) == SetToSortSeq(S, <)
R(q) == [i \in 1..Len(q) |-> SeqOfSet(q[i])]
Enc(cr, n) == [s \in 1..n |-> Code(cr[s - 1])]
Narrow == {[reqs |-> R(q), notImpl |-> <<>>, creds |-> SetToSeq({Enc(c, N) : c \in Creds}), n |-> N, wide |-> FALSE] : q \in Structures}
WideV == {[reqs |-> R(q), notImpl |-> <<>>, creds |-> SetToSeq({Enc(c, 20) : c \in WideCreds(q)}), n |-> 20, wide |-> TRUE] : q \in Wide}
\* credentials for a structure with a not-implemented scheme x: nothing can be presented for x
CredsWithout(x) == {c \in Creds : c[x] = "absent"}
GenOnly == {[reqs |-> R(q), notImpl |-> <<x>>, creds |-> SetToSeq({Enc(c, N) : c \in CredsWithout(x)}), n |-> N, wide |-> FALSE] : q \in {s \in Structures : Len(s) <= 2}, x \in Schemes}
           \cup {[reqs |-> R(q), notImpl |-> <<9>>, creds |-> <<>>, n |-> 10, wide |-> FALSE] : q \in {<<0..9>>, <<0..9, {0}>>, <<{0}, 0..9>>, <<0..8, {9}, {0}>>}}
ASSUME ndJsonSerialize(IOEnv.VERIF_VECTORS, SetToSeq(Narrow \cup WideV \cup {g \in GenOnly : \E i \in 1..Len(g.reqs) : g.notImpl[1] \in Range(g.reqs[i])}))
EInit == reqs = <<>> /\ notImpl = {} /\ cred = <<>> /\ st = InitRT
ENext == UNCHANGED <<reqs, notImpl, cred, st>>
=============================================================================
