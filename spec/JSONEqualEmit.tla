--------------------------- MODULE JSONEqualEmit ---------------------------
(* B1 for C18: every unordered pair of the spelling domain with both texts.  *)
EXTENDS JSONEqual, Json, IOUtils, SequencesExt
CONSTANT Part, Parts
D == SetToSeq(Scalars \cup Arrs \cup Objs)
Pairs == {<<i, j>> \in (1..Len(D)) \X (1..Len(D)) : i <= j /\ (i % Parts) = Part}
ASSUME ndJsonSerialize(IOEnv.VERIF_VECTORS,
         SetToSeq({[sa |-> D[p[1]], sb |-> D[p[2]], ta |-> Text(D[p[1]]), tb |-> Text(D[p[2]])] : p \in Pairs}))
VARIABLE x
Init == x = 0
Next == x' = x
=============================================================================
