--------------------------- MODULE ServerPipeline ---------------------------
(***************************************************************************)
(* C15 -- the request pipeline of a generated server (handlers.tmpl):      *)
(*   route -> security -> params -> body -> middleware/handler -> encode   *)
(* Each stage either passes or fails; a failing stage reports through      *)
(* ErrorHandler (or the convenient-error path) and returns.                *)
(*                                                                         *)
(* An operation shape says which stages exist:                             *)
(*   [sec, params : BOOLEAN, body : {"none","optional","required"}]        *)
(* Observable events of one request (what the harness can see from the     *)
(* public surface): err(kind), handler (middleware reached), and at the    *)
(* end the number of WriteHeader calls, the status, bytes written, panic.  *)
(*                                                                         *)
(* Acceptor state:  [phase, errs, ran]                                     *)
(*   phase "idle" | "pre" (before the handler) | "ran" | "failed"          *)
(***************************************************************************)
EXTENDS Naturals, Sequences, FiniteSets, TLC

ErrKinds == {"sec", "params", "body", "handler", "notimpl", "encode", "other"}
Idle == [phase |-> "idle", errs |-> <<>>, ran |-> FALSE, shape |-> [sec |-> FALSE, params |-> FALSE, body |-> "none"], cls |-> "", opt |-> FALSE]
\* opt: the request method is OPTIONS
Start(shape, cls, opt) == [phase |-> "pre", errs |-> <<>>, ran |-> FALSE, shape |-> shape, cls |-> cls, opt |-> opt]

\* which error may be reported in which state (stage order; each failure returns early)
ErrEnabled(st, kind) ==
  CASE kind = "sec" -> st.phase = "pre" /\ st.shape.sec
    [] kind = "params" -> st.phase = "pre" /\ st.shape.params
    [] kind = "body" -> st.phase = "pre" /\ st.shape.body # "none"
    [] kind \in {"handler", "notimpl", "encode"} -> st.phase = "ran"
    [] OTHER -> FALSE
OnErr(st, kind) == [st EXCEPT !.phase = "failed", !.errs = Append(st.errs, kind)]
HandlerEnabled(st) == st.phase = "pre"
OnHandler(st) == [st EXCEPT !.phase = "ran", !.ran = TRUE]

\* status classes (DESIGN.md appendix A.3); a custom ErrorHandler is not installed
StatusOK(kind, code) ==
  CASE kind = "sec" -> code = 401
    [] kind = "params" -> code = 400
    [] kind = "body" -> code \in {400, 415}
    [] kind = "handler" -> code >= 400 /\ code < 600          \* the spec's error response or 500
    [] kind = "notimpl" -> code = 501
    [] kind = "encode" -> code = 500
    [] OTHER -> FALSE

\* generic obligations at the end of every request, whatever the request was
Generic(st, d) ==
  /\ ~d.panic
  /\ d.wh = 1                                   \* exactly one response
  /\ Len(st.errs) <= 1                          \* a failing stage returns
  /\ (st.ran => \A i \in 1..Len(st.errs) : st.errs[i] \in {"handler", "notimpl", "encode"})
  /\ (st.errs # <<>> => StatusOK(st.errs[1], d.status))
  \* nothing happened: not routed.  An OPTIONS request for a known path without an OPTIONS
  \* operation is answered as a CORS preflight (204) by the default MethodNotAllowed handler:
  \* deliberate, documented behaviour, named here rather than treated as a deviation.
  /\ (st.phase = "pre" => d.status \in {404, 405} \/ (st.opt /\ d.status = 204))

\* what the property demands for a request of a known class (the harness built the
\* request so that exactly this stage must refuse it)
Classified(st, d) ==
  CASE st.cls = "valid" -> st.ran /\ d.status \notin {400, 401, 404, 405, 415}
    [] st.cls = "unknown_path" -> ~st.ran /\ st.errs = <<>> /\ d.status = 404
    [] st.cls = "wrong_method" -> ~st.ran /\ st.errs = <<>> /\ (d.status = 405 \/ (st.opt /\ d.status = 204))
    [] st.cls = "no_creds" -> ~st.ran /\ st.errs = <<"sec">> /\ d.status = 401
    [] st.cls \in {"param", "malformed_optional_pair", "content_param_trailing"} -> ~st.ran /\ st.errs = <<"params">> /\ d.status = 400
    [] st.cls = "wrong_ct" -> ~st.ran /\ st.errs = <<"body">> /\ d.status \in {415, 400}
    [] st.cls = "body" -> ~st.ran /\ st.errs = <<"body">> /\ d.status \in {400, 415}
    [] st.cls = "handler_fail" -> st.ran /\ st.errs = <<"handler">> /\ d.status >= 400 /\ d.status < 600
    [] OTHER -> TRUE                                       \* unclassified: generic obligations only

(* Named deviations (implementation layer): what the generated server does instead.   *)
(*  Dev_MalformedQueryPairDropped: parameters are read from r.URL.Query(), which drops *)
(*    a pair with a malformed escape (or a ';') without an error: for an optional      *)
(*    parameter the request then runs with the parameter absent                        *)
(*  Dev_ContentParamTrailingData: a parameter with `content: application/json` is      *)
(*    decoded without checking that the text is exhausted                              *)
KnownFor(st, d) ==
  IF st.ran /\ (\A i \in 1..Len(st.errs) : st.errs[i] \in {"handler", "notimpl", "encode"}) /\ d.status \notin {400, 401, 404, 405, 415}
  THEN (CASE st.cls = "malformed_optional_pair" -> "Dev_MalformedQueryPairDropped"
          [] st.cls = "content_param_trailing" -> "Dev_ContentParamTrailingData"
          [] OTHER -> "")
  ELSE ""
=============================================================================
