------------------------------- MODULE Router -------------------------------
(***************************************************************************)
(* C05 -- the generated router.                                            *)
(*                                                                         *)
(* Tokens are one-character strings; P stands for a path parameter.        *)
(* A template is a token sequence starting with "/", no two adjacent P.    *)
(* A route set RS is a sequence of [t |-> template, ms |-> set of methods] *)
(* in insertion order (the order gen.Generator.route() adds operations).   *)
(*                                                                         *)
(* abstract layer        MatchArgs, Safe, More, Allowed  (A1-A4 of         *)
(*                       DESIGN.md appendix A.1)                           *)
(* implementation layer  Insert/Chain  = gen/route_tree.go addRoute and    *)
(*                       gen/route_node.go addChild;                       *)
(*                       Walk = gen/_template/router.tmpl route_edge with  *)
(*                       Go's break-exits-innermost-switch semantics.      *)
(* Named deviations (both reproduced on regenerated servers):              *)
(*   Dev_BreakSkipsRestore       a `break` inside a static case skips      *)
(*                               `elem = origElem`                         *)
(*   Dev_TailParamSwallowsSlash  a parameter followed by static text is    *)
(*                               cut at the tail bytes only, not at "/"    *)
(***************************************************************************)
EXTENDS Naturals, Sequences, FiniteSets, TLC, SequencesExt

P == "P"
Sl == "/"
Lit == {"a", "b"}
Tok == Lit \cup {Sl, P}
\* "x" never occurs in a template: a fresh parameter value
PChar == Lit \cup {Sl, "x"}

\* "Z", "Y", "W", "X" stand for the bytes A8, A9, AA, C3 of multi-byte characters (static text only)
Rank(t) == CASE t = Sl -> 1 [] t = "a" -> 2 [] t = "b" -> 3 [] t = "x" -> 4 [] t = P -> 5 [] t = "Z" -> 6 [] t = "Y" -> 7 [] t = "W" -> 8 [] t = "X" -> 9
Drop(s, k) == SubSeq(s, k + 1, Len(s))

RECURSIVE SeqsUpTo(_, _)
SeqsUpTo(S, n) == IF n = 0 THEN {<<>>}
                  ELSE LET R == SeqsUpTo(S, n - 1) IN R \cup {Append(s, c) : s \in {t \in R : Len(t) = n - 1}, c \in S}

NoAdjP(t) == \A i \in 1..(Len(t) - 1) : ~(t[i] = P /\ t[i + 1] = P)
IsTemplate(t) == Len(t) >= 1 /\ t[1] = Sl /\ NoAdjP(t)
NParams(t) == Cardinality({i \in 1..Len(t) : t[i] = P})

Templates(RS) == {RS[i].t : i \in 1..Len(RS)}
Methods(RS, t) == UNION {RS[i].ms : i \in {j \in 1..Len(RS) : RS[j].t = t}}

(************************** abstract layer *********************************)
\* all argument tuples (slash-free, possibly empty) with Instance(t, args) = p
RECURSIVE MatchArgs(_, _)
MatchArgs(t, p) ==
  IF t = <<>> THEN (IF p = <<>> THEN {<<>>} ELSE {})
  ELSE IF t[1] = P
       THEN UNION {{<<SubSeq(p, 1, k)>> \o r : r \in MatchArgs(Tail(t), Drop(p, k))} :
                   k \in {j \in 0..Len(p) : \A i \in 1..j : p[i] # Sl}}
  ELSE IF p # <<>> /\ p[1] = t[1] THEN MatchArgs(Tail(t), Tail(p)) ELSE {}

ParamPos(t) == SetToSortSeq({i \in 1..Len(t) : t[i] = P}, <)
\* literals that directly follow the parameter at position i in some template of the set
\* sharing everything up to and including that parameter
Follow(t, i, TS) == {u[i + 1] : u \in {w \in TS : Len(w) > i /\ SubSeq(w, 1, i) = SubSeq(t, 1, i)}} \ {P}
\* values for which the statement promises delivery
Safe(t, args, TS) ==
  \A k \in 1..Len(args) : /\ args[k] # <<>>
                           /\ {args[k][j] : j \in 1..Len(args[k])} \cap Follow(t, ParamPos(t)[k], TS) = {}
\* t1 is more specific than t2: at the first position where they differ t1 has a literal
\* (or has ended) where t2 has a parameter
More(t1, t2) ==
  \E i \in 1..Len(t2) : /\ t2[i] = P
                        /\ i - 1 <= Len(t1) /\ SubSeq(t1, 1, i - 1) = SubSeq(t2, 1, i - 1)
                        /\ (i > Len(t1) \/ t1[i] # P)

NotFound == [k |-> "404", t |-> <<>>, m |-> "", args |-> <<>>, allow |-> {}]
Routed(t, m, a) == [k |-> "route", t |-> t, m |-> m, args |-> a, allow |-> {}]
NotAllowed(ms) == [k |-> "405", t |-> <<>>, m |-> "", args |-> <<>>, allow |-> ms]
Out(RS, x, m) == IF m \in Methods(RS, x[1]) THEN Routed(x[1], m, x[2]) ELSE NotAllowed(Methods(RS, x[1]))

Allowed(RS, p, m) ==
  LET TS == Templates(RS)
      M == UNION {{<<t, a>> : a \in MatchArgs(t, p)} : t \in TS}
      S == {x \in M : Safe(x[1], x[2], TS)} IN
  IF M = {} THEN {NotFound}
  \* only unsafe instances match: the statement promises nothing beyond soundness
  ELSE IF S = {} THEN {NotFound} \cup {Out(RS, x, m) : x \in M}
  ELSE LET top == CHOOSE x \in S : \A y \in S : y[1] = x[1] \/ More(x[1], y[1]) IN
       {Out(RS, x, m) : x \in {y \in M : y[1] = top[1] \/ More(y[1], top[1])}}

(*********************** implementation layer: tree ************************)
\* node = [pre: static prefix, par: is-parameter, kids: children sorted by head, rts: set of <<t, m>>]
Node(pre, par) == [pre |-> pre, par |-> par, kids |-> <<>>, rts |-> {}]
HeadOf(n) == IF n.par THEN P ELSE n.pre[1]

RECURSIVE InsSorted(_, _)
InsSorted(kids, ch) ==
  IF kids = <<>> THEN <<ch>>
  ELSE IF Rank(HeadOf(ch)) < Rank(HeadOf(kids[1])) THEN <<ch>> \o kids
  ELSE <<kids[1]>> \o InsSorted(Tail(kids), ch)

IdxOfHead(kids, h) == LET S == {i \in 1..Len(kids) : HeadOf(kids[i]) = h} IN IF S = {} THEN 0 ELSE CHOOSE i \in S : TRUE

RECURSIVE LCP(_, _)
LCP(p, q) == IF p = <<>> \/ q = <<>> \/ p[1] # q[1] THEN 0 ELSE 1 + LCP(Tail(p), Tail(q))

FirstP(path) == LET S == {i \in 1..Len(path) : path[i] = P} IN IF S = {} THEN 0 ELSE CHOOSE i \in S : \A j \in S : i <= j

\* addChild: build the chain for `path` below child ch; the routes land on the deepest node
RECURSIVE Chain(_, _, _)
Chain(path, ch, rts) ==
  LET s == FirstP(path) IN
  IF s = 0 THEN [ch EXCEPT !.rts = rts]
  ELSE IF s = 1 THEN
     LET ch1 == [ch EXCEPT !.par = TRUE] IN
     IF Len(path) > 1
     THEN LET rest == Tail(path) IN [ch1 EXCEPT !.kids = InsSorted(ch1.kids, Chain(rest, Node(rest, FALSE), rts))]
     ELSE [ch1 EXCEPT !.rts = rts]
  ELSE LET rest == Drop(path, s - 1) IN
     [ch EXCEPT !.pre = SubSeq(path, 1, s - 1), !.kids = InsSorted(ch.kids, Chain(rest, Node(<<>>, TRUE), rts))]

\* addRoute, one loop iteration per recursion step
RECURSIVE Insert(_, _, _)
Insert(n, path, rt) ==
  IF path = <<>> THEN [n EXCEPT !.rts = n.rts \cup {rt}]
  ELSE LET i == IdxOfHead(n.kids, path[1]) IN
    IF i = 0 THEN [n EXCEPT !.kids = InsSorted(n.kids, Chain(path, Node(path, FALSE), {rt}))]
    ELSE LET c == n.kids[i] IN
      IF c.par THEN [n EXCEPT !.kids[i] = Insert(c, Tail(path), rt)]
      ELSE LET k == LCP(path, c.pre) IN
        IF k = Len(c.pre) THEN [n EXCEPT !.kids[i] = Insert(c, Drop(path, k), rt)]
        ELSE LET old == [c EXCEPT !.pre = Drop(c.pre, k)]
                 rest == Drop(path, k)
                 nc0 == [pre |-> SubSeq(path, 1, k), par |-> FALSE, kids |-> <<old>>, rts |-> {}]
                 nc == IF rest = <<>> THEN [nc0 EXCEPT !.rts = {rt}]
                       ELSE [nc0 EXCEPT !.kids = InsSorted(nc0.kids, Chain(rest, Node(rest, FALSE), {rt}))]
             IN [n EXCEPT !.kids[i] = nc]

Root == [pre |-> <<>>, par |-> FALSE, kids |-> <<>>, rts |-> {}]
\* the (template, method) pairs in insertion order: methods of one entry sorted
RouteSeq(RS) == LET F[i \in 0..Len(RS)] == IF i = 0 THEN <<>>
                       ELSE F[i - 1] \o [j \in 1..Cardinality(RS[i].ms) |-> <<RS[i].t, SetToSortSeq(RS[i].ms, LAMBDA a, b : a = "GET" /\ b = "POST")[j]>>]
                IN F[Len(RS)]
RECURSIVE BuildSeq(_, _)
BuildSeq(root, rs) == IF rs = <<>> THEN root ELSE BuildSeq(Insert(root, rs[1][1], rs[1]), Tail(rs))
Build(RS) == BuildSeq(Root, RouteSeq(RS))

(********************* implementation layer: matcher ***********************)
Ret(n, args, idx) == [k |-> "ret", rts |-> n.rts, args |-> SubSeq(args, 1, idx), elem |-> <<>>]
Fall(e, a) == [k |-> "fall", rts |-> {}, elem |-> e, args |-> a]
Brk(e, a) == [k |-> "brk", rts |-> {}, elem |-> e, args |-> a]
Cont(e, a) == [k |-> "cont", rts |-> {}, elem |-> e, args |-> a]
IsPre(p, s) == Len(p) <= Len(s) /\ SubSeq(s, 1, Len(p)) = p
Statics(n) == SelectSeq(n.kids, LAMBDA c : ~c.par)
Params(n) == SelectSeq(n.kids, LAMBDA c : c.par)
Tails(c) == {HeadOf(x) : x \in Range(Statics(c))}
FirstIn(e, S) == LET I == {i \in 1..Len(e) : e[i] \in S} IN IF I = {} THEN Len(e) + 1 ELSE CHOOSE i \in I : \A j \in I : i <= j

RECURSIVE Walk(_, _, _, _, _)
Walk(n, elem, args, idx, devs) ==
  IF n.kids = <<>> THEN (IF elem = <<>> THEN Ret(n, args, idx) ELSE Fall(elem, args))
  ELSE IF n.rts # {} /\ elem = <<>> THEN Ret(n, args, idx)
  ELSE
   LET st == Statics(n)
       pr == Params(n)
       restore == "Dev_BreakSkipsRestore" \notin devs
       afterStatic ==
         IF st = <<>> THEN Cont(elem, args)
         ELSE IF elem = <<>> THEN Brk(elem, args)                   \* `if len(elem) == 0 { break }`, n.rts = {} here
         ELSE LET j == IdxOfHead(st, elem[1]) IN
           IF j = 0 THEN Cont(elem, args)
           ELSE LET c == st[j] IN
             IF ~IsPre(c.pre, elem) THEN Cont(elem, args)           \* prefix mismatch: break out of this switch
             ELSE LET r == Walk(c, Drop(elem, Len(c.pre)), args, idx, devs) IN
               CASE r.k = "ret" -> r
                 [] r.k = "fall" -> Cont(IF pr # <<>> THEN elem ELSE r.elem, r.args)
                 [] r.k = "brk" -> Cont(IF restore /\ pr # <<>> THEN elem ELSE r.elem, r.args)
   IN CASE afterStatic.k = "ret" -> afterStatic
        [] afterStatic.k = "brk" -> afterStatic
        [] OTHER ->
           LET e == afterStatic.elem
               a == afterStatic.args IN
           IF pr = <<>> THEN Fall(e, a)
           ELSE LET c == pr[1]
                    tl == Tails(c) IN
             IF tl # {}
             THEN LET stop == IF "Dev_TailParamSwallowsSlash" \in devs THEN tl ELSE tl \cup {Sl}
                      i == FirstIn(e, stop) IN
                  Walk(c, Drop(e, i - 1), [a EXCEPT ![idx + 1] = SubSeq(e, 1, i - 1)], idx + 1, devs)
             ELSE IF Sl \in Range(e) THEN Brk(e, a)
             ELSE Walk(c, <<>>, [a EXCEPT ![idx + 1] = e], idx + 1, devs)

NoArgs == <<<<>>, <<>>, <<>>, <<>>, <<>>, <<>>>>
\* ServeHTTP / FindPath: empty path is not found; the method switch of the node reached
Serve(tree, path, m, devs) ==
  IF path = <<>> THEN NotFound
  ELSE LET r == Walk(tree, path, NoArgs, 0, devs) IN
    IF r.k # "ret" THEN NotFound
    ELSE IF \E rt \in r.rts : rt[2] = m
         THEN LET rt == CHOOSE x \in r.rts : x[2] = m IN Routed(rt[1], m, SubSeq(r.args, 1, NParams(rt[1])))
         ELSE NotAllowed({rt[2] : rt \in r.rts})

(***************************** tree invariants *****************************)
RECURSIVE TreeOK(_)
TreeOK(n) ==
  /\ \A i, j \in 1..Len(n.kids) : i < j => Rank(HeadOf(n.kids[i])) < Rank(HeadOf(n.kids[j]))   \* sorted, unique heads
  /\ Len(Params(n)) <= 1
  /\ \A i \in 1..Len(n.kids) : (n.kids[i].par \/ n.kids[i].pre # <<>>) /\ TreeOK(n.kids[i])
\* every inserted (template, method) sits on exactly the node its template spells
RECURSIVE Spelled(_, _)
Spelled(n, acc) ==
  LET here == acc \o (IF n.par THEN <<P>> ELSE n.pre) IN
  {<<here, rt>> : rt \in n.rts} \cup UNION {Spelled(n.kids[i], here) : i \in 1..Len(n.kids)}
TreeSpells(RS, tree) == Spelled(tree, <<>>) = {<<rt[1], rt>> : rt \in Range(RouteSeq(RS))}
=============================================================================
