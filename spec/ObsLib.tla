------------------------------ MODULE ObsLib ------------------------------
(* Shared plumbing for B3: observations logged by the Go harness (one JSON   *)
(* object per line, TLC-safe values only) are stepped through one per state  *)
(* and judged by the including module's Verdict operator.                    *)
EXTENDS Naturals, Sequences, TLC, Json, IOUtils

Obs == ndJsonDeserialize(IOEnv.VERIF_OBS)

\* A verdict other than "ok" is printed as one line  "V:<line>:<verdict>"  that the
\* harness parses; the run itself never stops at the first disagreement, so every
\* observation of the chunk is judged.
Report(i, v) == IF v = "ok" THEN TRUE ELSE PrintT("V:" \o ToString(i) \o ":" \o v)
=============================================================================
