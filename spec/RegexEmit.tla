------------------------------ MODULE RegexEmit ------------------------------
(* B1 for C08: Mode "pats": every AST of the chosen tiers with its rendering;  *)
(* Mode "subs": the canonical subject sequence.                                *)
EXTENDS Regex, Json, IOUtils
CONSTANTS Mode, MaxLen, Tier
ASTs == CASE Tier = 2 -> Atoms \cup Size2 \cup Opaque \cup Anchored
          [] Tier = 3 -> Atoms \cup Size2 \cup Size3 \cup Opaque \cup Anchored
          [] Tier = 4 -> Atoms \cup Size2 \cup Size3 \cup Size4 \cup Opaque \cup Anchored
EmitOut == IF Mode = "subs" THEN [i \in 1..Len(Subjects(MaxLen)) |-> [s |-> Subjects(MaxLen)[i]]]
           ELSE SetToSeq({[ast |-> a, pat |-> Render(a)] : a \in ASTs})
ASSUME ndJsonSerialize(IOEnv.VERIF_VECTORS, EmitOut)
VARIABLE x
Init == x = 0
Next == x' = x
=============================================================================
