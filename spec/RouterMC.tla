------------------------------ MODULE RouterMC ------------------------------
(* Exhaustive: every ordered route set of at most MaxRoutes templates (at    *)
(* most MaxTplLen tokens, method sets from MethodSets) x every request path  *)
(* of at most MaxPathLen characters x both methods.  The transcription of    *)
(* addRoute + the generated matcher must stay inside Allowed (A1-A4), and    *)
(* the tree must satisfy its structural invariants after every insertion.    *)
EXTENDS Router
CONSTANTS MaxTplLen, MaxPathLen, MaxRoutes, Devs, MethodSets
VARIABLES rs, path, m

TemplatesAll == {t \in SeqsUpTo(Tok, MaxTplLen) : IsTemplate(t)}
Paths == {p \in SeqsUpTo(PChar, MaxPathLen) : Len(p) >= 1}
Entries == {[t |-> t, ms |-> ms] : t \in TemplatesAll, ms \in MethodSets}
RouteSets == {o \in SeqsUpTo(Entries, MaxRoutes) : Len(o) >= 1 /\ \A i, j \in 1..Len(o) : i # j => o[i].t # o[j].t}

Init == rs \in RouteSets /\ path = <<>> /\ m = "GET"
Next == path = <<>> /\ path' \in Paths /\ m' \in {"GET", "POST"} /\ UNCHANGED rs

Sound == path # <<>> => Serve(Build(rs), path, m, Devs) \in Allowed(rs, path, m)
\* prefixes of the insertion sequence: the invariants hold after each insert
TreeInv == path = <<>> => \A k \in 1..Len(rs) : LET pre == SubSeq(rs, 1, k) IN TreeOK(Build(pre)) /\ TreeSpells(pre, Build(pre))
=============================================================================
