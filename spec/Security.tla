------------------------------ MODULE Security ------------------------------
(***************************************************************************)
(* C09 -- security requirements of one operation.                          *)
(*                                                                         *)
(* Schemes are naturals (rendered k00, k01, ... so that the parser's       *)
(* sort-by-name order is the numeric order).  A requirement structure is a *)
(* sequence of alternatives, each a set of schemes (possibly empty).       *)
(* cred[s] \in {"absent", "accept", "skip", "reject"} is what happens for  *)
(* scheme s on this request: no credential presented, SecurityHandler      *)
(* returns nil / ErrSkipServerSecurity / another error.                    *)
(*                                                                         *)
(* abstract layer:  Allowed(reqs, cred)  (S1-S3, S5)                       *)
(* implementation:  Ord / Masks / BitLen = gen/gen_security.go             *)
(*                  generateSecurities + internal/bitset; the run-time pc  *)
(*                  machine = the security block of handlers.tmpl with     *)
(*                  byte/bit arithmetic (S4).                              *)
(* Dev_RejectedCredentialDenies: the generated security block returns 401  *)
(*   as soon as the security handler returns an error other than "skip",   *)
(*   also when another alternative is fully accepted (fail-closed).        *)
(* Dev_SkippedRequirementKeepsIndexes: a requirement skipped because of a  *)
(*   not-implemented scheme leaves its scheme indexes behind while the     *)
(*   array length only counts kept requirements (fixed in gen/ir).         *)
(***************************************************************************)
EXTENDS Naturals, Sequences, FiniteSets, TLC, SequencesExt, Bitwise

(************************** abstract layer *********************************)
Accepted(cred) == {s \in DOMAIN cred : cred[s] = "accept"}
Rejected(cred) == {s \in DOMAIN cred : cred[s] = "reject"}
Satisfiable(reqs, cred) == \E i \in 1..Len(reqs) : reqs[i] \subseteq Accepted(cred)
Mentioned(reqs) == UNION {reqs[i] : i \in 1..Len(reqs)}

\* outcomes: "handler" (the operation handler ran) | "401" (denied, handler not run)
\* An operation without requirements is public.  The statement is read to the letter: the
\* handler runs iff some alternative has every scheme accepted -- a rejected credential of
\* another alternative does not change that.
\* consulted: with ignore_not_implemented the implemented schemes of a dropped alternative
\* are still consulted; the statement says nothing about credentials of schemes no kept
\* requirement mentions, so a rejection there leaves both outcomes admitted.
AllowedM(reqs, cred, consulted) ==
  IF reqs = <<>> THEN {"handler"}
  ELSE IF ~Satisfiable(reqs, cred) THEN {"401"}
  ELSE IF Rejected(cred) \cap (consulted \ Mentioned(reqs)) # {} THEN {"401", "handler"}
  ELSE {"handler"}
Allowed(reqs, cred) == AllowedM(reqs, cred, Mentioned(reqs))

(********************* implementation layer: generation ********************)
\* index order: first occurrence, ascending inside one requirement
RECURSIVE OrdFrom(_, _)
OrdFrom(reqs, acc) ==
  IF reqs = <<>> THEN acc
  ELSE LET new == SetToSortSeq(reqs[1] \ Range(acc), <) IN OrdFrom(Tail(reqs), acc \o new)
\* kept(reqs, notImpl): requirements that survive `trySkip` (all schemes implemented)
Kept(reqs, notImpl) == SelectSeq(reqs, LAMBDA a : a \cap notImpl = {})
\* generateSecurities appends a scheme to Securities when it is first *seen*, also
\* inside a requirement that is skipped afterwards -- up to the not-implemented scheme
\* at which generateSecurity fails (schemes are visited in ascending order).
SeenOf(a, notImpl) == IF a \cap notImpl = {} THEN a
                      ELSE LET bad == CHOOSE x \in a \cap notImpl : \A y \in a \cap notImpl : x <= y IN {s \in a : s < bad}
Ord(reqs, notImpl) == OrdFrom([i \in 1..Len(reqs) |-> SeenOf(reqs[i], notImpl)], <<>>)
IndexOf(ord, s) == CHOOSE i \in 1..Len(ord) : ord[i] = s          \* 1-based; Go index = this - 1

Pow2(n) == IF n = 0 THEN 1 ELSE IF n = 1 THEN 2 ELSE IF n = 2 THEN 4 ELSE IF n = 3 THEN 8
           ELSE IF n = 4 THEN 16 ELSE IF n = 5 THEN 32 ELSE IF n = 6 THEN 64 ELSE 128
RECURSIVE SumOf(_)
SumOf(S) == IF S = {} THEN 0 ELSE LET x == CHOOSE y \in S : TRUE IN x + SumOf(S \ {x})
\* bitset.Set: byte b of the mask of alternative a; length = highest byte touched + 1
MaskLen(ord, a) == IF a = {} THEN 0 ELSE 1 + ((CHOOSE m \in {IndexOf(ord, s) - 1 : s \in a} : \A n \in {IndexOf(ord, s) - 1 : s \in a} : n <= m) \div 8)
MaskByte(ord, a, b) == SumOf({Pow2((IndexOf(ord, s) - 1) % 8) : s \in {x \in a : (IndexOf(ord, x) - 1) \div 8 = b}})
Masks(reqs, notImpl) == LET ord == Ord(reqs, notImpl) k == Kept(reqs, notImpl) IN
  [i \in 1..Len(k) |-> [b \in 0..(MaskLen(ord, k[i]) - 1) |-> MaskByte(ord, k[i], b)]]
MaxOf(S) == IF S = {} THEN 0 ELSE CHOOSE m \in S : \A n \in S : n <= m
\* ir.SecurityRequirements.BitArrayLen
BitLen(reqs, notImpl, devs) ==
  LET ord == Ord(reqs, notImpl)
      k == Kept(reqs, notImpl)
      byReq == MaxOf({MaskLen(ord, k[i]) : i \in 1..Len(k)}) IN
  IF "Dev_SkippedRequirementKeepsIndexes" \in devs THEN byReq
  ELSE MaxOf({byReq, (Len(ord) + 7) \div 8})
\* S4, generation half: every constant index the template writes is inside the array
\* (otherwise the generated package does not compile)
IndexesInRange(reqs, notImpl, devs) ==
  LET ord == Ord(reqs, notImpl) IN \A i \in 1..Len(ord) : (i - 1) \div 8 < BitLen(reqs, notImpl, devs)

(********************* implementation layer: run time **********************)
\* one request: pc machine of the generated security block
\*   pc "check" : next scheme ord[i] -> securityX(...)
\*   pc "eval"  : nextRequirement loop
\*   terminal   : "handler" | "401"
InitRT == [pc |-> "check", i |-> 1, sat |-> {}, calls |-> <<>>]
\* sat is kept as the set of 0-based indexes set in `satisfied`; SatByte gives the byte
SatByte(sat, b) == SumOf({Pow2(n % 8) : n \in {x \in sat : x \div 8 = b}})

StepRT(st, reqs, notImpl, cred, devs) ==
  LET ord == Ord(reqs, notImpl) IN
  CASE st.pc = "check" ->
         IF ord = <<>> THEN [st EXCEPT !.pc = "handler"]                  \* no Securities: no security block is generated
         ELSE IF st.i > Len(ord) THEN [st EXCEPT !.pc = "eval"]
         ELSE LET s == ord[st.i] c == cred[s] IN
           (CASE c = "absent" -> [st EXCEPT !.i = st.i + 1]                                   \* handler not consulted
              [] c = "accept" -> [st EXCEPT !.i = st.i + 1, !.sat = st.sat \cup {st.i - 1}, !.calls = Append(st.calls, s)]
              [] c = "skip" -> [st EXCEPT !.i = st.i + 1, !.calls = Append(st.calls, s)]
              [] c = "reject" -> IF "Dev_RejectedCredentialDenies" \in devs THEN [st EXCEPT !.pc = "401", !.calls = Append(st.calls, s)]
                                 ELSE [st EXCEPT !.i = st.i + 1, !.calls = Append(st.calls, s)])
    [] st.pc = "eval" ->
         LET masks == Masks(reqs, notImpl)
             ok == \E r \in 1..Len(masks) :
                      \A b \in DOMAIN masks[r] : (SatByte(st.sat, b) & masks[r][b]) = masks[r][b] IN
         [st EXCEPT !.pc = IF ok THEN "handler" ELSE "401"]

RECURSIVE RunRT(_, _, _, _, _)
RunRT(st, reqs, notImpl, cred, devs) == IF st.pc \in {"handler", "401"} THEN st ELSE RunRT(StepRT(st, reqs, notImpl, cred, devs), reqs, notImpl, cred, devs)
ImplOutcome(reqs, notImpl, cred, devs) == RunRT(InitRT, reqs, notImpl, cred, devs)

\* effective requirements the abstract layer speaks about: alternatives with a
\* not-implemented scheme were dropped by explicit configuration (ignore_not_implemented)
Effective(reqs, notImpl) == Kept(reqs, notImpl)
=============================================================================
