---------------------------- MODULE WriteSourceMC ----------------------------
(* The writer as a machine: NT templates, at most K running at once, a pool   *)
(* of NB reusable buffers that survives generations, G consecutive            *)
(* generations in one process; all interleavings.  Every event sequence is    *)
(* accepted by the acceptor of WriteSource; D1: the files of every generation *)
(* are the same function of the template; D2: exclusive, reset buffers.       *)
(* Devs: "Dev_NoReset" (getBuffer without Reset) must break D1/D2.            *)
EXTENDS WriteSource
CONSTANTS NT, K, NB, G, Devs
VARIABLES task, pool, resid, fs, gen, acc, bad

Tasks == 1..NT
Bufs == 1..NB
vars == <<task, pool, resid, fs, gen, acc, bad>>
TName(t) == ToString(t)
\* what template t renders (a function of the shared, read-only configuration only)
Content(t) == <<"c", t>>
Step(r) == /\ bad' = (bad \/ r[1] # "ok") /\ acc' = r[2]

Init == /\ task = [t \in Tasks |-> [pc |-> "idle", buf |-> 0, out |-> <<>>]]
        /\ pool = {} /\ resid = [b \in Bufs |-> <<>>] /\ fs = <<>> /\ gen = 1
        /\ acc = OnGenBegin(Empty, [spec |-> "s"])[2] /\ bad = FALSE
Running == {t \in Tasks : task[t].pc \in {"spawned", "got", "rendered", "wrote"}}
Spawn(t) == /\ task[t].pc = "idle" /\ Cardinality(Running) < K
            /\ task' = [task EXCEPT ![t].pc = "spawned"] /\ UNCHANGED <<pool, resid, fs, gen, acc, bad>>
\* sync.Pool.Get: any pooled buffer or a new one; getBuffer resets it
BufGet(t) == /\ task[t].pc = "spawned"
             /\ \E b \in Bufs : /\ (\A x \in Tasks : task[x].buf # b)       \* pooled, or not in use (a new/dropped one)
                                /\ LET r == IF "Dev_NoReset" \in Devs THEN resid[b] ELSE <<>> IN
                                   /\ resid' = [resid EXCEPT ![b] = r]
                                   /\ Step(OnBufGet(acc, [buf |-> b, len |-> Len(r), tmpl |-> TName(t)]))
                                /\ pool' = pool \ {b} /\ task' = [task EXCEPT ![t].pc = "got", ![t].buf = b]
             /\ UNCHANGED <<fs, gen>>
Render(t) == /\ task[t].pc = "got"
             /\ LET b == task[t].buf  out == resid[b] \o <<Content(t)>> IN
                /\ resid' = [resid EXCEPT ![b] = out] /\ task' = [task EXCEPT ![t].pc = "rendered", ![t].out = out]
                /\ Step(OnRendered(acc, [tmpl |-> TName(t), file |-> TName(t), h |-> out]))
             /\ UNCHANGED <<pool, fs, gen>>
Write(t) == /\ task[t].pc = "rendered"
            /\ fs' = Put(fs, t, task[t].out) /\ task' = [task EXCEPT ![t].pc = "wrote"]
            /\ Step(OnWrote(acc, [tmpl |-> TName(t), file |-> TName(t), h |-> task[t].out]))
            /\ UNCHANGED <<pool, resid, gen>>
\* putBuffer: back to the pool (the pool may also drop it: modelled by BufGet taking a new one)
BufPut(t) == /\ task[t].pc = "wrote"
             /\ Step(OnBufPut(acc, [buf |-> task[t].buf, tmpl |-> TName(t)]))
             /\ pool' = pool \cup {task[t].buf} /\ task' = [task EXCEPT ![t].pc = "done", ![t].buf = 0]
             /\ UNCHANGED <<resid, fs, gen>>
NextGen == /\ \A t \in Tasks : task[t].pc = "done" /\ gen < G
           /\ LET e == OnGenEnd(acc, [outcome |-> "ok"]) b == OnGenBegin(e[2], [spec |-> "s"]) IN
              bad' = (bad \/ e[1] # "ok" \/ b[1] # "ok") /\ acc' = b[2]
           /\ task' = [t \in Tasks |-> [pc |-> "idle", buf |-> 0, out |-> <<>>]] /\ fs' = <<>> /\ gen' = gen + 1
           /\ UNCHANGED <<pool, resid>>
Next == (\E t \in Tasks : Spawn(t) \/ BufGet(t) \/ Render(t) \/ Write(t) \/ BufPut(t)) \/ NextGen

Accepted == ~bad
D1 == (\A t \in Tasks : task[t].pc = "done") => \A t \in Tasks : fs[t] = <<Content(t)>>
D2 == \A t1, t2 \in Tasks : t1 # t2 /\ task[t1].buf # 0 => task[t1].buf # task[t2].buf
Limit == Cardinality(Running) <= K
View == <<task, pool, resid, fs, gen, bad>>
=============================================================================
