----------------------------- MODULE RouterCheck -----------------------------
(* Trace validation for C05 on regenerated servers.  The trace is a sequence  *)
(* of packages: a line k = "rs" announces the route set in the generator's    *)
(* own insertion order (state: cur), the following k = "req" lines are the    *)
(* observations of one (path, method) in nine spellings, each judged against  *)
(* Allowed(cur.rs, p, m).  k = "tree" lines carry the projection of the real  *)
(* gen.RouteTree after inserting rs through gen.Router.Add.                   *)
EXTENDS Router, ObsLib
CONSTANT KnownDeviations

RSOf(o) == [i \in 1..Len(o.rs) |-> [t |-> o.rs[i].t, ms |-> {o.rs[i].ms[j] : j \in 1..Len(o.rs[i].ms)}]]

\* observed sub-record -> model outcome; "route400" is a request routed to an operation
\* whose own parameter check refused it (arguments taken from FindPath by the harness)
Proj(s) == CASE s.k = "route" -> Routed(s.t, s.m, s.args)
             [] s.k = "route400" -> Routed(s.t, s.m, s.args)
             [] s.k = "404" -> NotFound
             [] s.k = "405" -> NotAllowed({s.allow[j] : j \in 1..Len(s.allow)})
             [] OTHER -> [k |-> s.k, t |-> <<>>, m |-> "", args |-> <<>>, allow |-> {}]
\* FindPath: found route or none (none stands for both 404 and 405)
FindOK(f, want) ==
  IF f.k = "route" THEN Routed(f.t, f.m, f.args) \in want
  ELSE f.k = "none" /\ \E w \in want : w.k \in {"404", "405"}
\* A5: lookup API and serving agree
Agree(s, f) == IF s.k \in {"route", "route400"} THEN f.k = "route" /\ f.t = s.t /\ f.m = s.m /\ f.args = s.args
               ELSE f.k = "none"

Subs(o) == <<o.serve, o.pfx, o.esc, o.escU, o.bad, o.escR, o.pfxesc, o.pfxescR>>
Finds(o) == <<o.find, o.findesc, o.findpfx, o.findescR, o.findpfxesc, o.findpfxescR>>

\* an empty argument makes the operation's own parameter check answer 400: fine;
\* 400 with every argument non-empty is not a routing outcome the property admits
Bad400(s) == s.k = "route400" /\ \A i \in 1..Len(s.args) : s.args[i] # <<>>

ReqVerdict(cur, o) ==
  LET want == Allowed(cur.rs, o.p, o.m)
      abstractOK == /\ \A i \in 1..Len(Subs(o)) : Proj(Subs(o)[i]) \in want /\ ~Bad400(Subs(o)[i])
                    /\ \A i \in 1..Len(Finds(o)) : FindOK(Finds(o)[i], want)
                    /\ Agree(o.serve, o.find) /\ Agree(o.esc, o.findesc) /\ Agree(o.pfx, o.findpfx) /\ Agree(o.escR, o.findescR) /\ Agree(o.pfxesc, o.findpfxesc) /\ Agree(o.pfxescR, o.findpfxescR)
                    \* a request without the configured prefix is not found (unless the path itself carries it)
                    /\ (o.nopfx.k = "404" \/ (Len(o.p) >= 4 /\ SubSeq(o.p, 1, 4) = <<"/", "x", "x", "x">>))
      \* Dev_OptionsPreflight204: a known path without an OPTIONS operation answers OPTIONS with 204
      \* and Access-Control-Allow-Methods (the defined methods) instead of 405 with Allow
      preflight == /\ "Dev_OptionsPreflight204" \in KnownDeviations /\ o.m = "OPTIONS"
                   /\ \E w \in want : /\ w.k = "405"
                                        /\ \A i \in 1..Len(Subs(o)) : Subs(o)[i].k = "options204" /\ {Subs(o)[i].allow[j] : j \in 1..Len(Subs(o)[i].allow)} = w.allow
                   /\ \A i \in 1..Len(Finds(o)) : Finds(o)[i].k = "none"
      impl(d) == Serve(cur.tree, o.p, o.m, d)
      sameEverywhere == /\ \A i \in 1..Len(Subs(o)) : Proj(Subs(o)[i]) = Proj(o.serve)
                        /\ \A i \in 1..Len(Finds(o)) : Agree(o.serve, Finds(o)[i]) IN
  IF abstractOK THEN (IF Proj(o.serve) = impl(KnownDeviations) THEN "ok" ELSE "drift")
  ELSE IF preflight THEN "known=Dev_OptionsPreflight204"
  ELSE IF sameEverywhere /\ \E d \in SUBSET KnownDeviations : d # {} /\ Proj(o.serve) = impl(d)
       THEN LET d == CHOOSE x \in SUBSET KnownDeviations : x # {} /\ Proj(o.serve) = impl(x)
                      /\ \A y \in SUBSET KnownDeviations : (y # {} /\ Proj(o.serve) = impl(y)) => Cardinality(x) <= Cardinality(y) IN
            "known=" \o (CHOOSE n \in d : TRUE)
       ELSE "viol"

\* real tree projection: nested records [pre, par, kids, rts (seq of <<t, m>> pairs)]
RECURSIVE TreeOf(_)
TreeOf(n) == [pre |-> n.pre, par |-> n.par, kids |-> [i \in 1..Len(n.kids) |-> TreeOf(n.kids[i])],
              rts |-> {<<n.rts[j].t, n.rts[j].m>> : j \in 1..Len(n.rts)}]
\* the prefix text of a parameter node is never read by the templates: normalised away
RECURSIVE NormTree(_)
NormTree(n) == [pre |-> IF n.par THEN <<>> ELSE n.pre, par |-> n.par, kids |-> [i \in 1..Len(n.kids) |-> NormTree(n.kids[i])], rts |-> n.rts]
TreeVerdict(o) ==
  LET rs == RSOf(o)
      real == TreeOf(o.tree) IN
  IF o.err THEN "ok"                                   \* the set was refused: outside the property's domain
  ELSE IF NormTree(real) = NormTree(Build(rs)) THEN "ok"
  ELSE IF TreeOK(real) /\ TreeSpells(rs, real) THEN "drift"
  ELSE "lead-tree"

VARIABLES l, cur
Init == l = 0 /\ cur = [rs |-> <<>>, tree |-> Root]
Next ==
  /\ l < Len(Obs) /\ l' = l + 1
  /\ LET o == Obs[l'] IN
     CASE o.k = "rs" -> cur' = [rs |-> RSOf(o), tree |-> Build(RSOf(o))]
       [] o.k = "req" -> UNCHANGED cur /\ Report(l', ReqVerdict(cur, o))
       [] o.k = "tree" -> UNCHANGED cur /\ Report(l', TreeVerdict(o))
=============================================================================
