------------------------------ MODULE GenOutcome ------------------------------
(***************************************************************************)
(* C11 -- the generator is total: document -> output or a located          *)
(* diagnostic.                                                             *)
(*                                                                         *)
(* One run: phases parse -> ir -> write, each may end the run with an      *)
(* error; Panic, Hang, StackOverflow and OutOfMemory are not transitions   *)
(* of the machine, so a trace containing one is rejected.                  *)
(* Fault model (what the environment does to a valid document):            *)
(*   op   delete | retype_scalar | retype_map | retype_seq | null          *)
(*        | break_escape | dangling_ref | cyclic_ref | duplicate_key       *)
(*        | big_number | negative_number | nest_deep | bytes               *)
(*   node kind of the place it is applied to; spelling yaml | json.        *)
(* Outcome record: [kind, located, line, col, locs] with kind in           *)
(*   "ok" | "err" | "panic" | "timeout" | "crash"; locs = the positions    *)
(*   the diagnostic names, each judged against the file it names.          *)
(***************************************************************************)
EXTENDS Naturals, Sequences, FiniteSets, TLC

Ops == {"delete", "retype_scalar", "retype_map", "retype_seq", "null", "break_escape", "dangling_ref", "cyclic_ref", "duplicate_key",
        "big_number", "negative_number", "nest_deep", "bytes", "none",
        \* a schema position referring to a component that contains itself through each composition keyword
        "cyclic_oneof", "cyclic_anyof", "cyclic_allof", "cyclic_items", "cyclic_required", "cyclic_addl", "cyclic_pair",
        \* ... through the second of two composition keywords of one schema
        "cyclic_two_oneof_anyof", "cyclic_two_allof_anyof", "cyclic_two_allof_oneof",
        \* tuple-form items with a null / scalar element
        "tuple_null", "tuple_scalar",
        \* a place that refers to a declared thing by name (security requirement, link operationId,
        \* discriminator mapping) names an undeclared one
        "unknown_name",
        \* an enum element of another type than the schema's; a string value replaced by an unusual string
        "wrong_enum_value", "odd_string"}
Terminal == {"ok", "err"}

\* the position of a located diagnostic exists in the document it names
InDocument(o, doc) == o.line >= 1 /\ o.line <= doc.nlines /\ o.col >= 1 /\ o.col <= doc.linelen + 1

\* A diagnostic may name several positions (one per location.Error of the chain, possibly
\* in different files of a document set).  Each one names a file of the set, a position
\* that exists in that file, and the first character of a node of that file: positions
\* are derived from parsed nodes, so one that is not a node start was computed against
\* another file or another node table.
LocOK(x) == x.known /\ x.line >= 1 /\ x.line <= x.nlines /\ x.col >= 1 /\ x.col <= x.linelen + 1 /\ x.nodestart

\* one spelling
OutcomeOK(o, doc) ==
  /\ o.kind \in Terminal
  /\ (o.kind = "err" /\ o.located => InDocument(o, doc))
  /\ (o.kind = "err" => \A i \in 1..Len(o.locs) : LocOK(o.locs[i]))
  /\ (o.kind = "ok" => ~o.located /\ o.locs = <<>>)

\* Faults that make the mutated node itself name something that does not exist (or, for
\* an enum element, be a value the enum's own schema excludes) in an otherwise valid document: the failure is attributable to that node, so some position
\* the diagnostic names is the start of a node on the way from the root to it or below
\* it (onpath, computed by the harness from the mutated text).  Other in-place faults are
\* not judged this way: a component made malformed is legitimately reported where it is
\* referred to.
SelfOffending == {"unknown_name", "dangling_ref", "break_escape", "wrong_enum_value"}
\* The innermost position of the chain -- the most specific one, computed last by looking a
\* key up in the mapping that holds the fault -- is such a node start too (onpathin): a
\* position taken from a sibling entry is outside the offending node.
Attributed(op, o) == (op \in SelfOffending /\ o.kind = "err" /\ o.locs # <<>>) => (o.onpath /\ o.onpathin)

\* A document that is valid before the fault and whose fault leaves data every schema
\* admits is still accepted: "none" is the control and must be ok.
ControlOK(c) == c.op = "none" => c.y.kind = "ok"

\* YAML and JSON spellings of the same data end alike (both ok or both refused)
Alike(c) == c.hasJson => (c.y.kind = "ok") = (c.j.kind = "ok")

(* the machine (for the exhaustive check): the environment picks the failing phase *)
Phases == <<"parse", "ir", "write">>
=============================================================================
