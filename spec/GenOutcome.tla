------------------------------ MODULE GenOutcome ------------------------------
(***************************************************************************)
(* C11 -- the generator is total: document -> output or a located          *)
(* diagnostic.                                                             *)
(*                                                                         *)
(* One run: phases parse -> ir -> write, each may end the run with an      *)
(* error; Panic, Hang, StackOverflow and OutOfMemory are not transitions   *)
(* of the machine, so a trace containing one is rejected.                  *)
(* Fault model (what the environment does to a valid document):            *)
(*   op   delete | retype_scalar | retype_map | retype_seq | null          *)
(*        | break_escape | dangling_ref | cyclic_ref | duplicate_key       *)
(*        | big_number | negative_number | nest_deep | bytes               *)
(*   node kind of the place it is applied to; spelling yaml | json.        *)
(* Outcome record: [kind, located, line, col] with kind in                 *)
(*   "ok" | "err" | "panic" | "timeout" | "crash".                         *)
(***************************************************************************)
EXTENDS Naturals, Sequences, FiniteSets, TLC

Ops == {"delete", "retype_scalar", "retype_map", "retype_seq", "null", "break_escape", "dangling_ref", "cyclic_ref", "duplicate_key",
        "big_number", "negative_number", "nest_deep", "bytes", "none"}
Terminal == {"ok", "err"}

\* the position of a located diagnostic exists in the document it names
InDocument(o, doc) == o.line >= 1 /\ o.line <= doc.nlines /\ o.col >= 1 /\ o.col <= doc.linelen + 1

\* one spelling
OutcomeOK(o, doc) ==
  /\ o.kind \in Terminal
  /\ (o.kind = "err" /\ o.located => InDocument(o, doc))
  /\ (o.kind = "ok" => ~o.located)

\* A document that is valid before the fault and whose fault leaves data every schema
\* admits is still accepted: "none" is the control and must be ok.
ControlOK(c) == c.op = "none" => c.y.kind = "ok"

\* YAML and JSON spellings of the same data end alike (both ok or both refused)
Alike(c) == c.hasJson => (c.y.kind = "ok") = (c.j.kind = "ok")

(* the machine (for the exhaustive check): the environment picks the failing phase *)
Phases == <<"parse", "ir", "write">>
=============================================================================
