----------------------------- MODULE SpellingEmit -----------------------------
EXTENDS Spelling, Json, IOUtils, SequencesExt
CONSTANT Mode
EmitOut == IF Mode = "recipes" THEN SetToSeq(Recipes)
           ELSE SetToSeq({[class |-> c, text |-> Witness[c][i], tag |-> PlainTag(c)] : <<c, i>> \in {<<cc, ii>> \in Classes \X (1..20) : ii <= Len(Witness[cc])}})
ASSUME ndJsonSerialize(IOEnv.VERIF_VECTORS, EmitOut)
VARIABLE x
Init == x = 0
Next == x' = x
=============================================================================
