---------------------------- MODULE SecurityCheck ----------------------------
(* B3 / trace judgement for C09 (uniform line schema, see prop/c09):          *)
(*  k = "req"   one request against a regenerated server: effective           *)
(*              requirements reqs, credentials cred, SecurityHandler calls    *)
(*              (scheme, result) in order, outcome handler | 401, status;     *)
(*  k = "gen"   a structure with a not-implemented scheme under               *)
(*              ignore_not_implemented: ok | rejected | nocompile;            *)
(*  k = "cred"  a credential attached by the regenerated client and what the  *)
(*              regenerated server's SecurityHandler received.                *)
EXTENDS Security, ObsLib
CONSTANT KnownDeviations

Reqs(o) == [i \in 1..Len(o.reqs) |-> Range(o.reqs[i])]
Cred(o) == [s \in 0..(o.n - 1) |-> o.cred[s + 1]]

ReqVerdict(o) ==
  LET raw == Reqs(o)
      ni == Range(o.notImpl)
      reqs == Effective(raw, ni)          \* alternatives with a not-implemented scheme were dropped by configuration
      cred == Cred(o)
      callsOK == \A i \in 1..Len(o.calls) : cred[o.calls[i]] # "absent" /\ o.res[i] = cred[o.calls[i]]
      rtDevs == KnownDeviations \cap {"Dev_RejectedCredentialDenies"}
      impl == ImplOutcome(raw, ni, cred, rtDevs)
      strict == ImplOutcome(raw, ni, cred, {}) IN
  \* every alternative dropped: the statement does not say what an operation whose
  \* requirements cannot be expressed should do; only "no crash" is judged
  IF ni # {} /\ reqs = <<>> THEN (IF o.outcome \in {"handler", "401"} THEN "ok" ELSE "viol")
  ELSE IF /\ o.outcome \in AllowedM(reqs, cred, Mentioned(raw))
          /\ (o.outcome = "401") = (o.status = 401)
          /\ callsOK
  THEN (IF impl.pc = o.outcome /\ impl.calls = o.calls THEN "ok" ELSE "drift")
  \* recorded finding: exactly what the fail-closed block does, where the statement wants the handler
  ELSE IF /\ rtDevs # {} /\ o.outcome = "401" /\ o.status = 401 /\ callsOK
          /\ impl.pc = "401" /\ impl.calls = o.calls /\ strict.pc = "handler"
  THEN "known=Dev_RejectedCredentialDenies"
  ELSE "viol"

GenVerdict(o) ==
  LET reqs == Reqs(o)
      ni == Range(o.notImpl) IN
  IF o.outcome \in {"ok", "rejected"} THEN (IF (o.outcome = "ok") = IndexesInRange(reqs, ni, KnownDeviations) \/ o.outcome = "rejected" THEN "ok" ELSE "drift")
  ELSE IF \E d \in KnownDeviations : ~IndexesInRange(reqs, ni, {d}) THEN "known=Dev_SkippedRequirementKeepsIndexes"
  ELSE "viol"

ExpectedScopes(kind) == IF kind = "oa" THEN <<"read", "write">> ELSE IF kind = "ob" THEN <<"admin">> ELSE <<>>
\* core-domain credentials are carried verbatim
CredVerdict(o) ==
  IF /\ o.outcome = "sent" /\ o.called
     /\ o.ga = o.a /\ (o.kind = "ba" => o.gb = o.b)
     /\ o.scopes = ExpectedScopes(o.kind)
  THEN "ok" ELSE "viol"

Verdict(o) == CASE o.k = "req" -> ReqVerdict(o) [] o.k = "gen" -> GenVerdict(o) [] o.k = "cred" -> CredVerdict(o)

VARIABLE l
Init == l = 0
Next == l < Len(Obs) /\ l' = l + 1 /\ Report(l', Verdict(Obs[l']))
=============================================================================
