--------------------------- MODULE SchemaValidCheck ---------------------------
(* B3 for C03.  One line per schema: the schema (echoed) and, for every         *)
(* instance of the canonical sequence, what the regenerated server did with it  *)
(* as a request body (mode "body") or as a required query parameter (mode        *)
(* "query"): 1 handler reached, 0 refused with 400, 2 anything else, 3 n/a.      *)
EXTENDS SchemaValid, ObsLib, SequencesExt
CONSTANT KnownDeviations
\* the canonical instance sequence is read back from the emitter's own file, so that
\* emitter, harness and checker share one order by construction
InstFile == ndJsonDeserialize(IOEnv.VERIF_AUX)
Insts == [i \in 1..Len(InstFile) |-> InstFile[i].v]
Want(s, k) == IF Valid(s, Insts[k]) THEN 1 ELSE 0
Impl(s, k, D) == IF ImplValid(s, Insts[k], D) THEN 1 ELSE 0
Known == KnownDeviations \cap Deviations
Verdict(o) ==
  \* got[k] = 3: the instance has no spelling in this carrier (query parameters carry only
  \* values of the schema's own primitive type): not judged
  LET judged == {k \in 1..Len(o.got) : o.got[k] # 3}
      bad == {k \in judged : o.got[k] # Want(o.schema, k)}
      \* a disagreement is a recorded finding iff the implementation layer with the listed
      \* deviations predicts exactly what the server did
      \* (a shared sum may behave as any assignment of cached unique members allows)
      Stale(k) == "Dev_SumUniqueCachedOnSharedVariant" \in Known /\ o.schema \in SharedSums
                  /\ (o.got[k] = 1) \in StaleOutcomes(o.schema, Insts[k], Known)
      unexplained == {k \in bad : o.got[k] # Impl(o.schema, k, Known) /\ ~Stale(k)}
      drift == {k \in judged \ bad : o.got[k] # Impl(o.schema, k, Known) /\ ~Stale(k)} IN
  IF unexplained # {} THEN
       LET k == CHOOSE x \in unexplained : \A y \in unexplained : x <= y IN
       (IF o.got[k] = 1 THEN "viol-accepts-invalid-" ELSE IF o.got[k] = 0 THEN "viol-refuses-valid-" ELSE "viol-neither-accepts-nor-refuses-") \o ToString(k)
  ELSE IF bad # {} THEN
       LET k == CHOOSE x \in bad : \A y \in bad : x <= y
           single == {d \in Known : o.got[k] = Impl(o.schema, k, {d})} IN
       "known=" \o (IF single # {} THEN CHOOSE d \in single : TRUE ELSE IF Stale(k) THEN "Dev_SumUniqueCachedOnSharedVariant" ELSE "Dev_AbsentArrayLengthChecked") \o "-" \o ToString(k)
  ELSE IF drift # {} THEN "drift-" \o ToString(CHOOSE x \in drift : TRUE)
  ELSE "ok"
VARIABLE l
Init == l = 0
Next == l < Len(Obs) /\ l' = l + 1 /\ Report(l', Verdict(Obs[l']))
=============================================================================
