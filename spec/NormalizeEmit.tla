--------------------------- MODULE NormalizeEmit ---------------------------
(* B1 for C12: TLC enumerates the bounded input domain and writes it as ndjson. *)
EXTENDS Normalize, Json, IOUtils, SequencesExt
CONSTANTS MaxLen, Small, First
Alphabet == IF Small THEN SigmaSmall ELSE Sigma
\* First = -1: everything; otherwise only the strings starting with byte First
\* (lets the harness run one emitter per first symbol in parallel).
Vectors == IF First = 0 THEN {<<>>}
           ELSE {<<First>> \o s : s \in SeqsUpTo(Alphabet, MaxLen - 1)}
ASSUME ndJsonSerialize(IOEnv.VERIF_VECTORS, SetToSeq({[in |-> s] : s \in Vectors}))
VARIABLE x
Init == x = 0
Next == x' = x
=============================================================================
