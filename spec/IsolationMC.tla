----------------------------- MODULE IsolationMC -----------------------------
(* The design, exhaustively for 3 calls over a pool of 2 buffers: every call   *)
(* takes a buffer (or makes a new one when the pool is empty), works on it,    *)
(* puts it back and returns.  Invariants: no buffer has two owners, a buffer   *)
(* handed out is clean (carries no other call's data), every outcome is F(i).  *)
(* Dirty = "Put without reset" and Shared = "use after Put" are the named      *)
(* mistakes; with either switched on TLC finds the leak (checked by the        *)
(* harness as a negative control).                                             *)
EXTENDS Isolation
CONSTANTS Calls, PoolSize, Mistakes
VARIABLES pc, own, buf, pool, out
\* buf[b] = set of calls whose data is in buffer b
Bufs == 1..(PoolSize + Cardinality(Calls))
Init == /\ pc = [c \in Calls |-> "start"] /\ own = [c \in Calls |-> 0] /\ buf = [b \in Bufs |-> {}]
        /\ pool = 1..PoolSize /\ out = [c \in Calls |-> {}]
Get(c) == /\ pc[c] = "start"
          /\ \E b \in (IF pool # {} THEN pool ELSE {CHOOSE x \in Bufs : x \notin pool /\ \A d \in Calls : own[d] # x}) :
               /\ own' = [own EXCEPT ![c] = b] /\ pool' = pool \ {b}
          /\ pc' = [pc EXCEPT ![c] = "work"] /\ UNCHANGED <<buf, out>>
Work(c) == /\ pc[c] = "work" /\ buf' = [buf EXCEPT ![own[c]] = @ \cup {c}]
           /\ pc' = [pc EXCEPT ![c] = "put"] /\ UNCHANGED <<own, pool, out>>
Put(c) == /\ pc[c] = "put"
          /\ out' = [out EXCEPT ![c] = buf[own[c]]]       \* what goes on the wire is what the buffer holds
          /\ buf' = IF "Dirty" \in Mistakes THEN buf ELSE [buf EXCEPT ![own[c]] = {}]
          /\ pool' = pool \cup {own[c]}
          /\ own' = IF "Shared" \in Mistakes THEN own ELSE [own EXCEPT ![c] = 0]
          /\ pc' = [pc EXCEPT ![c] = IF "Shared" \in Mistakes THEN "work2" ELSE "done"]
Work2(c) == /\ pc[c] = "work2" /\ buf' = [buf EXCEPT ![own[c]] = @ \cup {c}]
            /\ pc' = [pc EXCEPT ![c] = "done"] /\ own' = [own EXCEPT ![c] = 0] /\ UNCHANGED <<pool, out>>
Next == \E c \in Calls : Get(c) \/ Work(c) \/ Put(c) \/ Work2(c)
Exclusive == \A c, d \in Calls : c # d /\ own[c] # 0 /\ pc[c] \in {"work", "put"} /\ pc[d] \in {"work", "put"} => own[c] # own[d]
Isolated == \A c \in Calls : pc[c] = "done" => out[c] = {c}
=============================================================================
