------------------------------ MODULE ExchangeMC ------------------------------
(* Design check of the response routing: for every carriable <<variant, code>>   *)
(* the status written selects the same variant and code again; every other pair  *)
(* is misrouted by the unchecked implementation (the named deviation is          *)
(* observable); core values are a subset of what each row's serialization        *)
(* carries (taken from spec/ParamStyle.tla: never MustRefuse).                   *)
EXTENDS Exchange
Codes == {0, 100, 199, 200, 201, 204, 302, 399, 400, 404, 499, 500, 599, 600}
VARIABLES v, k, c, val
Strs == {<<97>>, <<>>, <<97, 44, 98>>, <<97, 46, 98>>, <<97, 59, 98>>, <<97, 61, 98>>, <<97, 124, 98>>, <<97, 32, 98>>}
Init == v \in Variants /\ k \in Codes /\ c \in {x \in AllCfgs : Admitted(x)}
        /\ val \in {Str(s) : s \in Strs} \cup {Arr(<<Str(s), Str(t)>>) : s, t \in Strs} \cup {Obj(<<Str(s), Absent>>) : s \in Strs}
Next == UNCHANGED <<v, k, c, val>>
Routing == Carriable(v, k) => ImplResp(v, k) = <<v, Wire(v, k)>>
Misrouted == (HasCode(v) /\ ~Carriable(v, k) /\ k <= 599 /\ ~(k \in {204, 304})) => ImplResp(v, k)[1] # v \/ ImplResp(v, k)[2] # k
\* a core value never falls under the ambiguity rule of the style table
AsPS == CASE val.t = "str" -> [prim |-> val.s, arr |-> <<>>, obj |-> <<>>]
          [] val.t = "arr" -> [prim |-> <<>>, arr |-> [i \in 1..Len(val.v) |-> val.v[i].s], obj |-> <<>>]
          [] OTHER -> [prim |-> <<>>, arr |-> <<>>, obj |-> << <<<<97>>, val.m[1].s>> >>]
ShapeOf == CASE val.t = "str" -> "prim" [] val.t = "arr" -> "arr" [] OTHER -> "obj"
CoreCarried == (c.shape = ShapeOf /\ Core(c, val)) => ~MustRefuse(c, AsPS)
=============================================================================
