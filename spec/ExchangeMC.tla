------------------------------ MODULE ExchangeMC ------------------------------
(* Design check of the response routing: for every carriable <<variant, code>>   *)
(* the status written selects the same variant and code again; every other pair  *)
(* is misrouted by the unchecked implementation (the named deviation is          *)
(* observable); core values are a subset of what each row's serialization        *)
(* carries (taken from spec/ParamStyle.tla: never MustRefuse).                   *)
EXTENDS Exchange
Codes == {0, 100, 199, 200, 201, 204, 302, 399, 400, 404, 499, 500, 599, 600}
VARIABLES v, k, c, val
Strs == {<<97>>, <<>>, <<97, 44, 98>>, <<97, 46, 98>>, <<97, 59, 98>>, <<97, 61, 98>>, <<97, 124, 98>>, <<97, 32, 98>>}
Init == v \in Variants /\ k \in Codes /\ c \in {x \in AllCfgs : Admitted(x)}
        /\ val \in {Str(s) : s \in Strs} \cup {Arr(<<Str(s), Str(t)>>) : s, t \in Strs} \cup {Obj(<<Str(s), Absent>>) : s \in Strs}
Next == UNCHANGED <<v, k, c, val>>
Routing == Carriable(v, k) => ImplResp(v, k) = <<v, Wire(v, k)>>
Misrouted == (HasCode(v) /\ ~Carriable(v, k) /\ k <= 599 /\ ~(k \in {204, 304})) => ImplResp(v, k)[1] # v \/ ImplResp(v, k)[2] # k
\* a core value never falls under the ambiguity rule of the style table
AsPS == CASE val.t = "str" -> [prim |-> val.s, arr |-> <<>>, obj |-> <<>>]
          [] val.t = "arr" -> [prim |-> <<>>, arr |-> [i \in 1..Len(val.v) |-> val.v[i].s], obj |-> <<>>]
          [] OTHER -> [prim |-> <<>>, arr |-> <<>>, obj |-> << <<<<97>>, val.m[1].s>> >>]
ShapeOf == CASE val.t = "str" -> "prim" [] val.t = "arr" -> "arr" [] OTHER -> "obj"
CoreCarried == (c.shape = ShapeOf /\ Core(c, val)) => ~MustRefuse(c, AsPS)

(* The generalised response rule agrees with the fixed one on the fixed declaration; the    *)
(* media rule: a carriable value is named again by the implementation's pick, and the       *)
(* override deviation is observable.                                                        *)
D1 == [exact |-> {200, 201}, pats |-> {4}, dflt |-> TRUE]
ConvV(x) == CASE x = "ok200" -> [kind |-> "code", n |-> 200] [] x = "created201" -> [kind |-> "code", n |-> 201]
              [] x = "pat4XX" -> [kind |-> "pat", n |-> 4] [] OTHER -> [kind |-> "default", n |-> 0]
Generalises == /\ Carriable(v, k) = CarriableD(D1, ConvV(v), k)
               /\ ImplRespD(D1, ConvV(v), k) = <<ConvV(ImplResp(v, k)[1]), ImplResp(v, k)[2]>>
MTs == {<<"application", "json">>, <<"text", "plain">>, <<"image", "png">>, <<"image", "*">>, <<"*", "*">>}
CTs == {<<"application", "json">>, <<"text", "plain">>, <<"image", "png">>, <<"image", "svg">>, <<"", "">>, <<"image", "*">>}
MediaRouting == \A D \in SUBSET MTs : \A e \in D : \A ct \in CTs : MediaCarriable(D, e, ct) => ImplPickMT(D, ct) = e
MediaOverrideSeen == \E D \in SUBSET MTs : \E e \in D : \E ct \in CTs : ~MediaCarriable(D, e, ct) /\ ImplMediaOverride(D, e, ct, "ok", ImplPickMT(D, ct), ct)
MediaNeverBoth == \A D \in SUBSET MTs : \A ct \in CTs : Cardinality({e \in D : MediaCarriable(D, e, ct)}) <= 1
ASSUME MediaRouting /\ MediaOverrideSeen /\ MediaNeverBoth
=============================================================================
