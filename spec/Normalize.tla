----------------------------- MODULE Normalize -----------------------------
(***************************************************************************)
(* C12 -- uri.NormalizeEscapedPath.                                        *)
(*                                                                         *)
(* Bytes are integers 0..255, strings are sequences of bytes.  Two layers: *)
(*   abstract        Tokens / Invalid / Canon / Octets / Allowed           *)
(*                   (the property text, nothing about how ogen computes)  *)
(*   implementation  the fast scan / goto slow / slow rewrite of           *)
(*                   uri/normalize.go as a pc machine (Step), with the     *)
(*                   defect found on the pinned tree as the named          *)
(*                   deviation Dev_SlowPathUnvalidated.                    *)
(***************************************************************************)
EXTENDS Naturals, Sequences, FiniteSets, TLC

PCT == 37
IsDigit(c) == c >= 48 /\ c <= 57
IsLowerHex(c) == c >= 97 /\ c <= 102
IsUpperHex(c) == c >= 65 /\ c <= 70
IsHex(c) == IsDigit(c) \/ IsLowerHex(c) \/ IsUpperHex(c)
HexVal(c) == IF IsDigit(c) THEN c - 48 ELSE IF IsLowerHex(c) THEN c - 87 ELSE IF IsUpperHex(c) THEN c - 55 ELSE 0
UpHex(c) == IF IsLowerHex(c) THEN c - 32 ELSE c
IsAlpha(c) == (c >= 97 /\ c <= 122) \/ (c >= 65 /\ c <= 90)
\* RFC 3986 2.3 unreserved characters: the only octets whose escape is needless.
Unreserved(o) == IsAlpha(o) \/ IsDigit(o) \/ o \in {45, 46, 95, 126}
HexDigitOf(n) == IF n < 10 THEN 48 + n ELSE 55 + n

Drop(s, k) == SubSeq(s, k + 1, Len(s))

(************************** abstract layer *********************************)
\* A string is invalid iff some '%' is not followed by two hex digits
\* (scanning left to right, an escape consumes three bytes).
RECURSIVE Invalid(_)
Invalid(s) ==
  IF s = <<>> THEN FALSE
  ELSE IF s[1] = PCT
       THEN Len(s) < 3 \/ ~IsHex(s[2]) \/ ~IsHex(s[3]) \/ Invalid(Drop(s, 3))
       ELSE Invalid(Tail(s))

\* Octets denoted by a valid string.
RECURSIVE Octets(_)
Octets(s) ==
  IF s = <<>> THEN <<>>
  ELSE IF s[1] = PCT THEN <<HexVal(s[2]) * 16 + HexVal(s[3])>> \o Octets(Drop(s, 3))
       ELSE <<s[1]>> \o Octets(Tail(s))

\* Canonical form: literal bytes stay, an escape of an unreserved octet becomes
\* the octet, every other escape keeps its octet and gets upper-case hex digits.
RECURSIVE Canon(_)
Canon(s) ==
  IF s = <<>> THEN <<>>
  ELSE IF s[1] = PCT
       THEN LET o == HexVal(s[2]) * 16 + HexVal(s[3]) IN
            (IF Unreserved(o) THEN <<o>> ELSE <<PCT, UpHex(s[2]), UpHex(s[3])>>) \o Canon(Drop(s, 3))
       ELSE <<s[1]>> \o Canon(Tail(s))

\* Outcomes the property admits for input in.  Never a panic.
Allowed(in) ==
  IF Invalid(in) THEN {[kind |-> "invalid", out |-> <<>>]}
  ELSE {[kind |-> "ok", out |-> Canon(in)]}

\* What the statement says about the canonical form itself; checked by TLC on
\* the whole bounded domain so that the oracle is tied to the property text.
RECURSIVE EscapesMinimalUpper(_)
EscapesMinimalUpper(s) ==
  IF s = <<>> THEN TRUE
  ELSE IF s[1] = PCT
       THEN /\ Len(s) >= 3 /\ IsHex(s[2]) /\ IsHex(s[3])
            /\ ~IsLowerHex(s[2]) /\ ~IsLowerHex(s[3])
            /\ ~Unreserved(HexVal(s[2]) * 16 + HexVal(s[3]))
            /\ EscapesMinimalUpper(Drop(s, 3))
       ELSE EscapesMinimalUpper(Tail(s))

AbstractLaws(s) ==
  ~Invalid(s) =>
     /\ ~Invalid(Canon(s))
     /\ Octets(Canon(s)) = Octets(s)
     /\ Canon(Canon(s)) = Canon(s)
     /\ EscapesMinimalUpper(Canon(s))

(*********************** implementation layer ******************************)
\* state of one call: the pc machine of uri/normalize.go
\*   mode  "fast"   scanning iter = in[base+1..] for the next '%'
\*         "slow"   rewriting from index i (1-based), builder t
\*         "ok" | "invalid" | "panic"   terminal
InitState(in) == [in |-> in, mode |-> "fast", base |-> 0, i |-> 1, t |-> <<>>]
Terminal == {"ok", "invalid", "panic"}

NextPct(s, from) ==
  LET I == {k \in from..Len(s) : s[k] = PCT} IN
  IF I = {} THEN 0 ELSE CHOOSE k \in I : \A j \in I : k <= j

\* One iteration of the fast loop.
FastStep(st) ==
  LET s == st.in
      k == NextPct(s, st.base + 1) IN
  IF k = 0 THEN [st EXCEPT !.mode = "ok", !.t = s]                 \* return s, true
  ELSE IF k + 2 > Len(s) \/ ~IsHex(s[k+1]) \/ ~IsHex(s[k+2])
       THEN [st EXCEPT !.mode = "invalid"]                          \* return "", false
  ELSE IF IsLowerHex(s[k+1]) \/ IsLowerHex(s[k+2]) \/ Unreserved(HexVal(s[k+1]) * 16 + HexVal(s[k+2]))
       THEN [st EXCEPT !.mode = "slow", !.i = 1, !.t = <<>>]        \* goto slow
  ELSE [st EXCEPT !.base = k + 2]                                   \* iter = iter[idx+3:]

\* One iteration of the slow loop.  With Dev_SlowPathUnvalidated the escape at
\* i is not re-validated: an out-of-range read is a Go panic, a non-hex digit
\* decodes through unhex()=0.  Without it the slow path rejects like the fast one.
SlowStep(st, devs) ==
  LET s == st.in
      i == st.i IN
  IF i > Len(s) THEN [st EXCEPT !.mode = "ok"]
  ELSE IF s[i] # PCT THEN [st EXCEPT !.t = Append(st.t, s[i]), !.i = i + 1]
  ELSE IF i + 2 > Len(s)
       THEN [st EXCEPT !.mode = IF "Dev_SlowPathUnvalidated" \in devs THEN "panic" ELSE "invalid"]
  ELSE IF (~IsHex(s[i+1]) \/ ~IsHex(s[i+2])) /\ "Dev_SlowPathUnvalidated" \notin devs
       THEN [st EXCEPT !.mode = "invalid"]
  ELSE LET a == s[i+1]
           b == s[i+2]
           ch == HexVal(a) * 16 + HexVal(b) IN
       IF Unreserved(ch) THEN [st EXCEPT !.t = Append(st.t, ch), !.i = i + 3]
       ELSE [st EXCEPT !.t = st.t \o <<PCT, UpHex(a), UpHex(b)>>, !.i = i + 3]

Step(st, devs) == IF st.mode = "fast" THEN FastStep(st) ELSE SlowStep(st, devs)

RECURSIVE RunImpl(_, _)
RunImpl(st, devs) == IF st.mode \in Terminal THEN st ELSE RunImpl(Step(st, devs), devs)

Outcome(st) == [kind |-> st.mode, out |-> IF st.mode = "ok" THEN st.t ELSE <<>>]
ImplOutcome(in, devs) == Outcome(RunImpl(InitState(in), devs))

(****************************** domains ************************************)
RECURSIVE SeqsUpTo(_, _)
SeqsUpTo(S, n) ==
  IF n = 0 THEN {<<>>}
  ELSE LET R == SeqsUpTo(S, n - 1) IN
       R \cup {Append(s, c) : s \in {t \in R : Len(t) = n - 1}, c \in S}

\* '%', '4' '1' '3' (digits; %3X is an unreserved digit), 'f' 'F' (hex, both
\* cases), 'g' (non-hex letter), '~' (unreserved mark), '/' (reserved)
Sigma == {37, 52, 49, 51, 102, 70, 103, 126, 47}
SigmaSmall == {37, 52, 102, 70, 103}
=============================================================================
