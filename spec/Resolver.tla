------------------------------ MODULE Resolver ------------------------------
(***************************************************************************)
(* C07 -- $ref resolution: jsonpointer.ResolveCtx, the component caches of *)
(* openapi/parser and the schema refcache of jsonschema.                   *)
(*                                                                         *)
(* abstract layer (what a reference graph must yield):                     *)
(*   a case is [kind, shape, n]                                            *)
(*   kind   schema | parameter | header | response | requestBody | pathItem*)
(*   shape  chain   n-1 pure references in front of the definition,        *)
(*                  used from two sites with different context names       *)
(*          cross   the chain continues in a second file, whose local      *)
(*                  references must resolve against that file              *)
(*          cycle   n components referring to each other in a ring         *)
(*          deep    a chain one longer than the depth limit                *)
(*          diamond a DAG: one schema reached twice through sibling        *)
(*                  oneOf/allOf variants (shared, not cyclic)              *)
(*   Allowed(case): T1 every referrer sees the inlined definition in its   *)
(*   own context, T2 cycles/depth end in the right diagnostic, T4 the      *)
(*   expanded document parses back to the same API.                        *)
(*                                                                         *)
(* implementation layer (what the hook events must look like):             *)
(*   per ResolveCtx: stack of keys, in-progress set, depth budget;         *)
(*   per cache kind: stored keys.  Events AddKey, Delete, CacheStore,      *)
(*   CacheHit, ParseBegin, ParseEnd.                                       *)
(***************************************************************************)
EXTENDS Naturals, Sequences, FiniteSets, TLC

Kinds == {"schema", "parameter", "header", "response", "requestBody", "pathItem", "example", "securityScheme"}
Shapes == {"chain", "cross", "cycle", "deep", "diamond", "sibling", "mapping"}

\* outcome of parsing the referencing document:
\*   "ok" | "err_recursion" | "err_depth" | "err_other" | "panic"
Allowed(c) ==
  CASE c.shape = "cycle" -> IF c.kind = "schema" THEN {"ok"} ELSE {"err_recursion"}   \* schema rings are recursive types
    \* the limit bounds *nesting of the resolver*; components already resolved (the component
    \* section is parsed first, in map order) are cache hits and do not nest, so an over-long
    \* chain either hits the limit or resolves completely -- never crashes
    [] c.shape = "deep" -> {"err_depth", "ok"}
    [] OTHER -> {"ok"}
\* when parsing succeeds and the graph is acyclic, every referrer must see what the
\* inlined document gives (T1) and the expanded document must parse back to it (T4)
NeedsEqual(c) == c.shape \in {"chain", "cross", "deep", "diamond", "sibling", "mapping"}
\* Dev_RefSiblingWrittenIntoTarget: jsonschema.Parser.parse1 applies default / enum /
\* discriminator / x-ogen-* written beside a $ref to the schema the resolver returned, which
\* is the cached, shared target: the other referrers (and the component) see them too
SiblingWitness(c) == c.shape = "sibling"

(*********************** implementation layer ******************************)
\* acceptor state: ctxs : ctx id -> [stack, limit]; stored : kind -> set of keys
EmptyState == [ctxs |-> <<>>, stored |-> [k \in {} |-> {}], limit |-> 0, open |-> FALSE]
Begin(limit) == [ctxs |-> <<>>, stored |-> [k \in {} |-> {}], limit |-> limit, open |-> TRUE]
CtxOf(st, id) == IF id \in DOMAIN st.ctxs THEN st.ctxs[id] ELSE <<>>            \* a stack of keys
SetCtx(st, id, stack) == [st EXCEPT !.ctxs = [i \in DOMAIN st.ctxs \cup {id} |-> IF i = id THEN stack ELSE st.ctxs[i]]]
Key(e) == <<e.loc, e.ptr>>
InStack(stack, k) == \E i \in 1..Len(stack) : stack[i] = k
StoredOf(st, kind) == IF kind \in DOMAIN st.stored THEN st.stored[kind] ELSE {}

\* each returns <<ok, next state>>
OnAddKey(st, e) ==
  LET stack == CtxOf(st, e.ctx) IN
  <<  /\ st.open
      /\ ~InStack(stack, Key(e))                           \* a key in progress is never entered again
      /\ e.stack = Len(stack) + 1                          \* the location stack grows by exactly one
      /\ e.depthLeft + e.stack = st.limit                  \* the depth budget mirrors the stack
      /\ e.depthLeft >= 0,
      SetCtx(st, e.ctx, Append(stack, Key(e))) >>
OnDelete(st, e) ==
  LET stack == CtxOf(st, e.ctx) IN
  <<  /\ st.open /\ stack # <<>>
      /\ stack[Len(stack)] = Key(e)                        \* LIFO: only the innermost key is left
      /\ e.stack = Len(stack) - 1
      /\ e.depthLeft + e.stack = st.limit,
      SetCtx(st, e.ctx, IF stack = <<>> THEN <<>> ELSE SubSeq(stack, 1, Len(stack) - 1)) >>
OnStore(st, e) ==
  <<  /\ st.open
      \* a component is stored while its own key is in progress in some context
      /\ \E id \in DOMAIN st.ctxs : InStack(st.ctxs[id], Key(e)),
      [st EXCEPT !.stored = [k \in DOMAIN st.stored \cup {e.kind} |-> IF k = e.kind THEN StoredOf(st, k) \cup {Key(e)} ELSE st.stored[k]]] >>
OnHit(st, e) == << st.open /\ Key(e) \in StoredOf(st, e.kind), st >>
\* T3: at the end of a parse every context is balanced
OnEnd(st) == << st.open /\ \A id \in DOMAIN st.ctxs : st.ctxs[id] = <<>>, EmptyState >>
=============================================================================
