------------------------------ MODULE RegexCheck ------------------------------
(* B3 for C08.  One line per pattern: ast, engine ("re2" | "fallback" | "err"), *)
(* strok (Compile(p).String() = p), got / guard: per subject (canonical order)  *)
(* 0 no match, 1 match, 2 error -- ogen's verdict and regexp2's               *)
(* ECMAScript|Unicode verdict on the same pattern text.                        *)
(* Alarm rule of the property: only when both oracles (this semantics and      *)
(* regexp2) agree against ogen; a disagreement between the oracles is a        *)
(* dispute, counted but not alarmed.                                           *)
EXTENDS Regex, ObsLib
CONSTANT MaxLen
\* the canonical subject sequence is read back from the emitter's own file
SubjFile == ndJsonDeserialize(IOEnv.VERIF_AUX)
Subj == [i \in 1..Len(SubjFile) |-> SubjFile[i].s]
Want(a, k) == IF Search(a, Subj[k]) THEN 1 ELSE 0
Verdict(o) ==
  IF o.engine = "err" THEN "viol-does-not-compile"
  ELSE IF ~o.strok THEN "viol-string"
  ELSE IF MustFallback(o.ast) THEN (IF o.engine = "fallback" THEN "ok" ELSE "viol-approximated-on-linear-engine")
  ELSE LET bad == {k \in 1..Len(o.got) : o.got[k] # Want(o.ast, k)}
           alarm == {k \in bad : o.guard[k] = Want(o.ast, k)} IN
       IF alarm # {} THEN "viol-subject-" \o ToString(CHOOSE k \in alarm : \A j \in alarm : k <= j)
       ELSE IF bad # {} THEN "dispute-subject-" \o ToString(CHOOSE k \in bad : \A j \in bad : k <= j)
       ELSE "ok"
VARIABLE l
Init == l = 0
Next == l < Len(Obs) /\ l' = l + 1 /\ Report(l', Verdict(Obs[l']))
=============================================================================
