------------------------------- MODULE RegexMC -------------------------------
(* Sanity of the semantics itself, checked on every (AST, subject) of the      *)
(* bounded domain: algebraic laws that any ECMA-262 matcher satisfies.  They   *)
(* tie M to the grammar (a wrong clause for a constructor breaks a law).       *)
EXTENDS Regex
CONSTANT MaxLen
VARIABLES a, s
Init == a \in Atoms \cup Size2 \cup Size3 /\ s \in SeqsUpTo(Sigma, MaxLen)
Next == UNCHANGED <<a, s>>
Laws ==
  /\ (a.t \in {"group", "nc"} => Search(a, s) = Search(a.e, s))
  /\ (a.t = "alt" => Search(a, s) = (Search(a.l, s) \/ Search(a.r, s)))
  /\ (a.t \in {"star", "opt", "lstar", "lopt", "rep02"} => Search(a, s))                   \* they match the empty string
  /\ (a.t \in {"plus", "lplus", "rep11"} => Search(a, s) = Search(a.e, s))
  /\ (a.t = "rep2" => (Search(a, s) => Search(a.e, s)))
  /\ (a.t = "set" => \A c \in Sigma : (c \in ClassOf(a)) # (c \in ClassOf([a EXCEPT !.neg = ~a.neg])))
  /\ (IsClass(a) => Search(a, s) = (\E i \in 1..Len(s) : s[i] \in ClassOf(a)))
=============================================================================
