---------------------------- MODULE RoundTripCheck ----------------------------
(* B3 for C04.  One line per schema: for every instance of the canonical        *)
(* sequence, got[k] (1 echoed with 200, 0 refused with 400, 2 anything else,    *)
(* 3 request and response Go types differ: no echo possible), out[k] the JSON   *)
(* value the server wrote (tagged like an instance; [t |-> "none"] when there   *)
(* is none, [t |-> "malformed"] when the text is not JSON / has a number the    *)
(* domain cannot hold), eq[k] whether the Go value decoded from the echo is     *)
(* deeply equal to the first one and again[k] whether echoing the echo writes    *)
(* the same bytes.                                                              *)
EXTENDS RoundTrip, ObsLib, SequencesExt
CONSTANT KnownDeviations
InstFile == ndJsonDeserialize(IOEnv.VERIF_AUX)
Insts == [i \in 1..Len(InstFile) |-> InstFile[i].v]
Known == KnownDeviations \cap EchoDeviations
\* <<class, text>> with class ok | skip | viol | known
Judge(s, k, got, out, eq, again) ==
  LET in == Insts[k] IN
  IF got = 3 THEN <<"skip", "">>
  ELSE IF got = 2 THEN <<"viol", "neither-echoed-nor-refused">>
  \* acceptance itself is C03's business: only echoes of valid instances are judged here
  ELSE IF got = 0 \/ ~Valid(s, in) THEN <<"skip", "">>
  ELSE IF out.t = "malformed" THEN <<"viol", "echo-is-not-well-formed-json">>
  ELSE IF ~WellFormed(out) THEN <<"viol", "echo-repeats-a-member">>
  ELSE IF ~Same(Held(s, in), out) THEN <<"viol", "echo-differs-from-value-held">>
  ELSE IF ~Valid(s, out) THEN
       \* a recorded finding iff the echo is valid once the listed deviations are switched on
       (IF Known # {} /\ ImplValid(s, out, Known)
        THEN <<"known", IF \E d \in Known : ImplValid(s, out, {d}) THEN CHOOSE d \in Known : ImplValid(s, out, {d}) ELSE CHOOSE d \in Known : TRUE>>
        ELSE <<"viol", "echo-invalid-against-schema">>)
  ELSE IF ~eq THEN <<"viol", "decoded-echo-differs-from-first-value">>
  ELSE IF ~again THEN <<"viol", "second-echo-differs">>
  ELSE <<"ok", "">>
Verdict(o) ==
  LET J(k) == Judge(o.schema, k, o.got[k], o.out[k], o.eq[k], o.again[k])
      bad == {k \in 1..Len(o.got) : J(k)[1] = "viol"}
      known == {k \in 1..Len(o.got) : J(k)[1] = "known"} IN
  IF bad # {} THEN LET k == CHOOSE x \in bad : \A y \in bad : x <= y IN "viol-" \o J(k)[2] \o "-" \o ToString(k)
  ELSE IF known # {} THEN LET k == CHOOSE x \in known : \A y \in known : x <= y IN "known=" \o J(k)[2] \o "-" \o ToString(k)
  ELSE "ok"
VARIABLE l
Init == l = 0
Next == l < Len(Obs) /\ l' = l + 1 /\ Report(l', Verdict(Obs[l']))
=============================================================================
