---------------------------- MODULE RoundTripCheck ----------------------------
(* B3 for C04.  One line per schema: for every instance of the canonical        *)
(* sequence, got[k] (1 echoed with 200, 0 refused with 400, 2 anything else,    *)
(* 3 request and response Go types differ: no echo possible), out[k] the JSON   *)
(* value the server wrote (tagged like an instance; [t |-> "none"] when there   *)
(* is none, [t |-> "malformed"] when the text is not JSON / has a number the    *)
(* domain cannot hold), eq[k] whether the Go value decoded from the echo is     *)
(* deeply equal to the first one, again[k] whether echoing the echo writes the   *)
(* same bytes and direct[k] what the type's own Decode made of the echo when    *)
(* read from a buffer that is overwritten afterwards (0 same, 1 not judged).    *)
EXTENDS RoundTrip, ObsLib, SequencesExt
CONSTANT KnownDeviations
InstFile == ndJsonDeserialize(IOEnv.VERIF_AUX)
Insts == [i \in 1..Len(InstFile) |-> InstFile[i].v]
Known == KnownDeviations \cap EchoDeviations
\* <<class, text>> with class ok | skip | viol | known
Judge(s, k, got, out, eq, again, direct) ==
  LET in == Insts[k] IN
  IF got = 3 THEN <<"skip", "">>
  ELSE IF got = 2 THEN <<"viol", "neither-echoed-nor-refused">>
  \* acceptance itself is C03's business: only echoes of valid instances are judged here
  ELSE IF got = 0 \/ ~Valid(s, in) THEN <<"skip", "">>
  ELSE IF out.t = "malformed" THEN <<"viol", "echo-is-not-well-formed-json">>
  ELSE IF ~WellFormed(out) THEN <<"viol", "echo-repeats-a-member">>
  ELSE IF ~Same(Held(s, in), out) THEN <<"viol", "echo-differs-from-value-held">>
  ELSE IF ~Valid(s, out) THEN
       \* a recorded finding iff the echo is valid once the listed deviations are switched on
       (IF Known # {} /\ ImplValid(s, out, Known)
        THEN <<"known", IF \E d \in Known : ImplValid(s, out, {d}) THEN CHOOSE d \in Known : ImplValid(s, out, {d}) ELSE CHOOSE d \in Known : TRUE>>
        ELSE <<"viol", "echo-invalid-against-schema">>)
  ELSE IF ~eq THEN <<"viol", "decoded-echo-differs-from-first-value">>
  ELSE IF ~again THEN <<"viol", "second-echo-differs">>
  \* the decoded value is a function of the text alone: it does not change when the bytes the
  \* type's own Decode read it from are overwritten afterwards (3; 2: Decode panicked)
  ELSE IF direct = 2 THEN <<"viol", "own-decode-of-the-echo-panics">>
  ELSE IF direct = 3 THEN <<"viol", "decoded-value-shares-memory-with-the-input-text">>
  ELSE <<"ok", "">>
\* A value built in the driver process by a type-directed change of a decoded value (not
\* read from JSON) that passes its own Validate: the server must write it (code 1), the
\* text must be well-formed JSON, valid against the schema when the domain can hold it
\* (out.t = "opaque" otherwise), accepted again and decoded to an equal value.
KnownB == KnownDeviations \cap (EchoDeviations \cup BuiltDeviations)
\* an object schema without declared members anywhere below S0 (the shape Dev_NilPointerEmptyStruct needs)
BuiltClass(o) ==
  IF o.code # 1 THEN "built-value-not-written"
  ELSE IF o.out.t = "malformed" THEN "built-value-written-as-malformed-json"
  ELSE IF o.out.t # "opaque" /\ ~WellFormed(o.out) THEN "built-value-written-with-a-repeated-member"
  ELSE IF o.out.t # "opaque" /\ ~Valid(o.schema, o.out) THEN "built-value-written-as-json-invalid-against-schema"
  \* a text outside the value domain cannot be judged against the schema here: a refusal of
  \* it is left unjudged (it may be one of the recorded member-count cases)
  ELSE IF ~o.dec THEN (IF o.out.t = "opaque" THEN "ok" ELSE "own-encoding-of-built-value-refused")
  ELSE IF ~o.eq THEN "built-value-decodes-to-a-different-value"
  ELSE "ok"
BuiltVerdict(o) ==
  LET c == BuiltClass(o) IN
  IF c = "ok" THEN "ok"
  \* the change itself names the shape two of the recorded findings need
  ELSE IF o.what = "map-key-named-like-a-member" /\ "Dev_AdditionalPropsKeyNamedLikeMember" \in KnownB THEN "known=Dev_AdditionalPropsKeyNamedLikeMember"
  ELSE IF o.what = "raw-nil" /\ c = "built-value-written-as-malformed-json" /\ "Dev_NilRawWrittenAsNothing" \in KnownB THEN "known=Dev_NilRawWrittenAsNothing"
  ELSE IF o.what \in {"ptr-nil", "opt-set-zero-value"} /\ c \in {"built-value-decodes-to-a-different-value", "own-encoding-of-built-value-refused"} /\ o.emptyStruct /\ "Dev_NilPointerEmptyStruct" \in KnownB THEN "known=Dev_NilPointerEmptyStruct"
  ELSE IF o.what \in {"slice-append-zero-value", "slice-nil"} /\ c \in {"built-value-decodes-to-a-different-value", "built-value-written-as-malformed-json"} /\ o.sharedArray /\ "Dev_SharedArrayNilSemantic" \in KnownB THEN "known=Dev_SharedArrayNilSemantic"
  \* written text invalid / refused again, but valid once a recorded deviation is switched on
  ELSE IF c \in {"built-value-written-as-json-invalid-against-schema", "own-encoding-of-built-value-refused"} /\ o.out.t # "opaque" /\ ~Valid(o.schema, o.out)
          /\ ImplValid(o.schema, o.out, KnownB)
       \* named after one recorded deviation the text needs (several may be needed together)
       THEN "known=" \o (IF "Dev_PropertyCountNotInValidate" \in KnownB /\ ~ImplValid(o.schema, o.out, KnownB \ {"Dev_PropertyCountNotInValidate"}) THEN "Dev_PropertyCountNotInValidate"
                          ELSE IF \E d \in KnownB : ~ImplValid(o.schema, o.out, KnownB \ {d}) THEN CHOOSE d \in KnownB : ~ImplValid(o.schema, o.out, KnownB \ {d})
                          ELSE CHOOSE d \in KnownB : ImplValid(o.schema, o.out, {d}))
  ELSE "viol-" \o c
EchoVerdict(o) ==
  LET J(k) == Judge(o.schema, k, o.got[k], o.out[k], o.eq[k], o.again[k], o.direct[k])
      bad == {k \in 1..Len(o.got) : J(k)[1] = "viol"}
      known == {k \in 1..Len(o.got) : J(k)[1] = "known"} IN
  IF bad # {} THEN LET k == CHOOSE x \in bad : \A y \in bad : x <= y IN "viol-" \o J(k)[2] \o "-" \o ToString(k)
  ELSE IF known # {} THEN LET k == CHOOSE x \in known : \A y \in known : x <= y IN "known=" \o J(k)[2] \o "-" \o ToString(k)
  ELSE "ok"
Verdict(o) == IF "k" \in DOMAIN o THEN BuiltVerdict(o) ELSE EchoVerdict(o)
VARIABLE l
Init == l = 0
Next == l < Len(Obs) /\ l' = l + 1 /\ Report(l', Verdict(Obs[l']))
=============================================================================
