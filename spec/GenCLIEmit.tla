----------------------------- MODULE GenCLIEmit -----------------------------
(* B1 for C20: scenarios = fault point x --clean x initial target directory.  *)
(* Failing runs: absent, empty, every single entry, and the full directory;   *)
(* successful runs additionally every pair of entries (MaxPair = 2).          *)
EXTENDS GenCLI, Json, IOUtils, SequencesExt
CONSTANT MaxPair
Full == NameClasses
Dirs(k) == {x \in SUBSET NameClasses : Cardinality(x) <= k} \cup {Full}
OKDir(s) == \A e \in s : e.kind = "nested" => [name |-> "sub", kind |-> "dir"] \in s
Scn(f, c, a, s) == [failAt |-> f, clean |-> c, absent |-> a, fs0 |-> SetToSeq(s)]
Failing == {Scn(f, c, FALSE, s) : f \in PreWriteFaults \cup {"version"}, c \in BOOLEAN, s \in {x \in Dirs(1) : OKDir(x)}}
           \cup {Scn(f, c, TRUE, {}) : f \in PreWriteFaults \cup {"version"}, c \in BOOLEAN}
Succeeding == {Scn("none", c, FALSE, s) : c \in BOOLEAN, s \in {x \in Dirs(MaxPair) : OKDir(x)}}
              \cup {Scn("none", c, TRUE, {}) : c \in BOOLEAN}
ASSUME ndJsonSerialize(IOEnv.VERIF_VECTORS, SetToSeq(Failing \cup Succeeding))
VARIABLE x
Init == x = 0
Next == x' = x
=============================================================================
