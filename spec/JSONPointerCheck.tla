-------------------------- MODULE JSONPointerCheck --------------------------
(* B3 for C16.  Observation: d (index of a fixed document, or 0 with the      *)
(* document inline in doc), ptr (pointer text), kind node|err|panic, path.    *)
EXTENDS JSONPointer, ObsLib
CONSTANT KnownDeviations

Verdict(o) ==
  LET doc == IF o.d > 0 THEN Docs[o.d] ELSE o.doc
      obs == [kind |-> o.kind, path |-> o.path] IN
  IF obs \in Allowed(doc, o.ptr)
  THEN IF obs = ImplOutcome(doc, o.ptr, {}) THEN "ok" ELSE "drift"
  ELSE IF \E dv \in KnownDeviations : obs = ImplOutcome(doc, o.ptr, {dv})
       THEN "known=" \o (CHOOSE dv \in KnownDeviations : obs = ImplOutcome(doc, o.ptr, {dv}))
       ELSE "viol"

VARIABLE l
Init == l = 0
Next == l < Len(Obs) /\ l' = l + 1 /\ Report(l', Verdict(Obs[l']))
=============================================================================
