-------------------------- MODULE JSONPointerCheck --------------------------
(* B3 for C16.  Observation: d (index of a fixed document, or 0 with the      *)
(* document inline in doc), ptr (pointer text), kind node|err|panic, path.    *)
EXTENDS JSONPointer, ObsLib
CONSTANT KnownDeviations

Verdict(o) ==
  LET doc == IF o.d > 0 THEN Docs[o.d] ELSE o.doc
      obs == [kind |-> o.kind, path |-> o.path] IN
  IF obs \in Allowed(doc, o.ptr)
  THEN IF obs = ImplOutcome(doc, o.ptr, {}) THEN "ok" ELSE "drift"
  ELSE IF \E dv \in KnownDeviations : obs = ImplOutcome(doc, o.ptr, {dv})
       THEN "known=" \o (CHOOSE dv \in KnownDeviations : obs = ImplOutcome(doc, o.ptr, {dv}))
       ELSE "viol"

\* The same relation seen through openapi/parser: a parameter $ref of an OpenAPI document
\* (doc inline).  The parser may refuse what is not a parameter object, so a refusal is a
\* violation only where the harness built the pointer to a parameter object (must);
\* a resolved node is always judged: it is the one the pointer designates or a violation.
OasVerdict(o) ==
  LET obs == [kind |-> o.kind, path |-> o.path] IN
  IF o.kind = "node" THEN (IF obs \in Allowed(o.doc, o.ptr) THEN "ok" ELSE "viol-parser-resolved-a-different-node")
  ELSE IF o.kind = "err" THEN (IF o.must THEN "viol-parser-refused-a-valid-reference" ELSE "ok")
  ELSE "viol-parser-" \o o.kind
VerdictAny(o) == IF "k" \in DOMAIN o THEN OasVerdict(o) ELSE Verdict(o)

VARIABLE l
Init == l = 0
Next == l < Len(Obs) /\ l' = l + 1 /\ Report(l', VerdictAny(Obs[l']))
=============================================================================
