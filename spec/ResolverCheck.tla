---------------------------- MODULE ResolverCheck ----------------------------
(* C07 judgement.  k = "case": outcome of parsing the referencing document,   *)
(* hashes of the projected API of the referencing (pr), inlined (pi) and       *)
(* expanded-and-reparsed (pe) documents.  Hook events (build tag verif):       *)
(* k = "begin" (limit), "add", "del", "store", "hit", "end".                   *)
EXTENDS Resolver, ObsLib
CONSTANT KnownDeviations
VARIABLES l, st
Init == l = 0 /\ st = EmptyState

CaseVerdict(o) ==
  LET c == [kind |-> o.kind, shape |-> o.shape, n |-> o.n] IN
  IF o.outcome \notin Allowed(c) THEN "viol-outcome-" \o o.outcome
  ELSE IF o.outcome # "ok" THEN "ok"
  ELSE IF NeedsEqual(c) /\ o.outInl # "ok" THEN "harness-inlined-document-rejected"
  ELSE IF NeedsEqual(c) /\ o.pr # o.pi THEN
       (IF "Dev_RefSiblingWrittenIntoTarget" \in KnownDeviations /\ SiblingWitness(c) THEN "known=Dev_RefSiblingWrittenIntoTarget" ELSE "viol-ref-not-transparent")
  ELSE IF NeedsEqual(c) /\ o.pe # o.pr THEN "viol-expand-roundtrip"
  \* the generator must treat both documents alike (accept both or refuse both)
  ELSE IF NeedsEqual(c) /\ o.gr # o.gi THEN "viol-generator-treats-reference-and-copy-differently"
  ELSE "ok"

Ev(o) == CASE o.k = "add" -> OnAddKey(st, o) [] o.k = "del" -> OnDelete(st, o)
           [] o.k = "store" -> OnStore(st, o) [] o.k = "hit" -> OnHit(st, o) [] o.k = "end" -> OnEnd(st)
Next == /\ l < Len(Obs) /\ l' = l + 1
        /\ LET o == Obs[l'] IN
           CASE o.k = "case" -> st' = st /\ Report(l', CaseVerdict(o))
             \* a corpus document: what parser.Expand emits has to parse back to the same API
             [] o.k = "expand" -> st' = st /\ Report(l', IF o.peOutcome # "ok" THEN "viol-expanded-spec-does-not-parse-back"
                                                          ELSE IF o.pe # o.pr THEN "viol-expand-roundtrip" ELSE "ok")
             [] o.k = "begin" -> st' = Begin(o.limit)
             [] OTHER -> LET r == Ev(o) IN st' = r[2] /\ Report(l', IF r[1] THEN "ok" ELSE "viol-event-" \o o.k)
=============================================================================
