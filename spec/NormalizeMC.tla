---------------------------- MODULE NormalizeMC ----------------------------
(* Exhaustive check that the implementation layer refines the abstract layer *)
(* on the bounded domain, one pc step per transition.                        *)
EXTENDS Normalize
CONSTANTS MaxLen, Small, Devs
VARIABLE st
Alphabet == IF Small THEN SigmaSmall ELSE Sigma
Init == st \in {InitState(s) : s \in SeqsUpTo(Alphabet, MaxLen)}
Next == st.mode \notin Terminal /\ st' = Step(st, Devs)
\* refinement: every terminal state of the pc machine is an allowed outcome
Refines == st.mode \in Terminal => Outcome(st) \in Allowed(st.in)
NoPanic == st.mode # "panic"
\* the abstract layer satisfies the laws the property states
Laws == st.mode = "fast" /\ st.base = 0 => AbstractLaws(st.in)
\* progress measure: every step consumes input or terminates (termination)
Progress == [][ \/ st'.mode \in Terminal
                \/ st'.mode # st.mode
                \/ st'.base > st.base
                \/ st'.i > st.i ]_st
Spec == Init /\ [][Next]_st
=============================================================================
