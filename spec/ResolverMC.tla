----------------------------- MODULE ResolverMC -----------------------------
(* The resolver as a machine: resolving component `cur` of a reference graph  *)
(* (ring or chain of N components, depth limit L) through resolveComponent:   *)
(* Key -> cache lookup -> AddKey -> parse children -> Store -> Delete.  Every  *)
(* event it emits must be accepted by the acceptor of Resolver, resolution    *)
(* terminates, rings end in "infinite recursion", long chains in "depth       *)
(* limit", and the context is balanced on every exit path.                    *)
EXTENDS Resolver
CONSTANTS N, L
VARIABLES next, frames, acc, out, cache, ok

\* next[i] = component that i references (0 = i is the definition)
Graphs == [1..N -> 0..N]
vars == <<next, frames, acc, out, cache, ok>>
E(name, i, depth) == [ctx |-> 1, loc |-> "root", ptr |-> i, kind |-> "k", depthLeft |-> L - depth, stack |-> depth]

Init == /\ next \in Graphs /\ frames = <<1>> /\ acc = Begin(L) /\ out = "run" /\ cache = {} /\ ok = TRUE
\* enter the component on top of the frame stack
Enter ==
  /\ out = "run" /\ frames # <<>> /\ frames[Len(frames)] # 0
  /\ LET i == frames[Len(frames)]
         depth == Len(CtxOf(acc, 1)) IN
     IF i \in cache /\ ~InStack(CtxOf(acc, 1), <<"root", i>>)
     THEN \* cache hit: the frame returns at once
          LET r == OnHit(acc, E("hit", i, depth)) IN
          /\ ok' = (ok /\ r[1]) /\ acc' = r[2] /\ frames' = SubSeq(frames, 1, Len(frames) - 1) /\ UNCHANGED <<next, out, cache>>
     ELSE IF L - depth <= 0 THEN out' = "err_depth" /\ UNCHANGED <<next, frames, acc, cache, ok>>
     ELSE IF InStack(CtxOf(acc, 1), <<"root", i>>) THEN out' = "err_recursion" /\ UNCHANGED <<next, frames, acc, cache, ok>>
     ELSE LET r == OnAddKey(acc, E("add", i, depth + 1)) IN
          /\ ok' = (ok /\ r[1]) /\ acc' = r[2]
          /\ frames' = IF next[i] = 0 THEN Append(frames, 0) ELSE Append(frames, next[i])    \* 0 = "definition reached, unwind"
          /\ UNCHANGED <<next, out, cache>>
\* the definition was parsed: store and delete, innermost first
Unwind ==
  /\ out = "run" /\ frames # <<>> /\ frames[Len(frames)] = 0
  /\ LET stack == CtxOf(acc, 1) IN
     IF stack = <<>> THEN frames' = <<>> /\ out' = "ok" /\ UNCHANGED <<next, acc, cache, ok>>
     ELSE LET k == stack[Len(stack)]
              s == OnStore(acc, [ctx |-> 1, loc |-> k[1], ptr |-> k[2], kind |-> "k", depthLeft |-> 0, stack |-> 0])
              d == OnDelete(s[2], [ctx |-> 1, loc |-> k[1], ptr |-> k[2], kind |-> "k", depthLeft |-> L - (Len(stack) - 1), stack |-> Len(stack) - 1]) IN
          /\ ok' = (ok /\ s[1] /\ d[1]) /\ acc' = d[2] /\ cache' = cache \cup {k[2]}
          /\ UNCHANGED <<next, frames, out>>
\* an error unwinds through the deferred Delete calls
Fail ==
  /\ out \in {"err_depth", "err_recursion"} /\ CtxOf(acc, 1) # <<>>
  /\ LET stack == CtxOf(acc, 1)
         k == stack[Len(stack)]
         d == OnDelete(acc, [ctx |-> 1, loc |-> k[1], ptr |-> k[2], kind |-> "k", depthLeft |-> L - (Len(stack) - 1), stack |-> Len(stack) - 1]) IN
     ok' = (ok /\ d[1]) /\ acc' = d[2] /\ UNCHANGED <<next, frames, out, cache>>
Next == Enter \/ Unwind \/ Fail

Accepted == ok
\* when nothing is enabled any more the context is balanced (T3) and the verdict is right (T2)
Reaches(i, j) == LET R[k \in 0..N] == IF k = 0 THEN {i} ELSE R[k - 1] \cup {next[x] : x \in R[k - 1] \ {0}} IN j \in R[N]
OnRing == \E j \in 1..N : Reaches(1, j) /\ j # 0 /\ \E m \in 1..N : Reaches(j, m) /\ next[m] = j /\ Reaches(1, m)
Terminal == ~ENABLED Next
Balanced == Terminal => CtxOf(acc, 1) = <<>> /\ OnEnd(acc)[1]
Verdict == Terminal => /\ out \in {"ok", "err_depth", "err_recursion"}
                       /\ (out = "err_recursion" => OnRing)
                       /\ (OnRing => out \in {"err_recursion", "err_depth"})
\* progress: the frame stack or the context stack changes in every step (no stuttering loops)
Spec == Init /\ [][Next]_vars
=============================================================================
