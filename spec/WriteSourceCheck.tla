--------------------------- MODULE WriteSourceCheck ---------------------------
(* Trace validation for C10 (see WriteSource): the concatenated hook events of *)
(* many processes x GOMAXPROCS settings x repetitions.                         *)
EXTENDS WriteSource, ObsLib
VARIABLES l, st
Init == l = 0 /\ st = Empty
Ev(o) == CASE o.k = "proc_begin" -> OnProcBegin(st) [] o.k = "gen_begin" -> OnGenBegin(st, o)
           [] o.k = "buf_get" -> OnBufGet(st, o) [] o.k = "rendered" -> OnRendered(st, o) [] o.k = "wrote" -> OnWrote(st, o)
           [] o.k = "buf_put" -> OnBufPut(st, o) [] o.k = "gen_end" -> OnGenEnd(st, o) [] o.k = "race" -> OnRace(st)
Next == /\ l < Len(Obs) /\ l' = l + 1
        /\ LET r == Ev(Obs[l']) IN st' = r[2] /\ Report(l', IF r[1] = "ok" THEN "ok" ELSE "viol-" \o r[1])
=============================================================================
