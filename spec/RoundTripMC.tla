----------------------------- MODULE RoundTripMC -----------------------------
(* The box table is adequate: for every (required, nullable, array) and every  *)
(* state of the member, a state the schema admits is held and written back      *)
(* unchanged, and a state it does not admit is refused.  Canon is insensitive   *)
(* to member order and sensitive to everything else on the instance domain.     *)
EXTENDS RoundTrip
VARIABLES req, nullable, array, st, a, b
Init == req \in BOOLEAN /\ nullable \in BOOLEAN /\ array \in BOOLEAN /\ st \in States /\ a \in Instances /\ b \in {x \in Instances : x.t = a.t}
Next == UNCHANGED <<req, nullable, array, st, a, b>>
Adequate ==
  LET box == Box(req, nullable, array) IN
  /\ (st \in Admits(req, nullable) => Enc(box, Dec(box, st)) = st)
  /\ (st \notin Admits(req, nullable) => Dec(box, st) = "refused")
  /\ (array /\ NilMeans(box) # "none" => NilMeans(box) \in Holds(box) /\ NilMeans(box) # "value")
\* two instances are Same iff they are equal or differ in member order only
Reverse(v) == IF v.t = "obj" THEN [v EXCEPT !.m = [i \in 1..Len(v.m) |-> v.m[Len(v.m) + 1 - i]]] ELSE v
CanonLaws ==
  /\ Same(a, a) /\ Same(a, Reverse(a)) /\ WellFormed(a)
  /\ (Same(a, b) => (a = b \/ (a.t \in {"obj", "arr"})))
  /\ (a.t \notin {"obj", "arr"} /\ a # b => ~Same(a, b))
=============================================================================
