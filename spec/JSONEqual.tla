----------------------------- MODULE JSONEqual -----------------------------
(***************************************************************************)
(* C18 -- json.Equal is semantic equality of JSON texts.                   *)
(*                                                                         *)
(* A *spelling* is a structured description of one JSON text; Text(sp) is  *)
(* the byte sequence it stands for and Den(sp) the value it denotes, both  *)
(* defined here, so the oracle never depends on a JSON parser.             *)
(*   [t |-> "lit", v |-> "null" | "true" | "false"]                        *)
(*   [t |-> "num", neg, ip, fp, ex, es, ed]   -?ip[.fp][(e|E)[+|-]ed]      *)
(*        ip, fp, ed: digit sequences (0..9); ex in {"", "e", "E"}         *)
(*   [t |-> "str", items |-> << [c |-> codepoint, f |-> form] ... >>]      *)
(*        form: "raw" (UTF-8), "u" (\uxxxx lower hex), "U" (upper hex),    *)
(*              "s" (two-character escape: \" \\ \/ \b \f \n \r \t)        *)
(*   [t |-> "arr", vals, ws]      [t |-> "obj", keys, vals, ws]            *)
(*        keys: str spellings; ws: insert blanks around punctuation        *)
(* Numbers denote exact decimals <<neg, digits, exp>> computed on digit    *)
(* sequences, so 2^53+1 and 1e400 are exact.                               *)
(***************************************************************************)
EXTENDS Integers, Sequences, FiniteSets, TLC

Drop(s, k) == SubSeq(s, k + 1, Len(s))
RECURSIVE Flat(_)
Flat(ss) == IF ss = <<>> THEN <<>> ELSE ss[1] \o Flat(Tail(ss))

(******************************* Text **************************************)
DigitBytes(ds) == [i \in 1..Len(ds) |-> 48 + ds[i]]
HexLow(n) == IF n < 10 THEN 48 + n ELSE 87 + n
HexUp(n) == IF n < 10 THEN 48 + n ELSE 55 + n
UTF8(c) == IF c < 128 THEN <<c>>
           ELSE IF c < 2048 THEN <<192 + (c \div 64), 128 + (c % 64)>>
           ELSE <<224 + (c \div 4096), 128 + ((c \div 64) % 64), 128 + (c % 64)>>
ShortEsc(c) == CASE c = 34 -> 34 [] c = 92 -> 92 [] c = 47 -> 47 [] c = 8 -> 98
                 [] c = 12 -> 102 [] c = 10 -> 110 [] c = 13 -> 114 [] c = 9 -> 116
HasShort(c) == c \in {34, 92, 47, 8, 12, 10, 13, 9}
ItemText(it) ==
  CASE it.f = "raw" -> UTF8(it.c)
    [] it.f = "u" -> <<92, 117, HexLow(it.c \div 4096), HexLow((it.c \div 256) % 16), HexLow((it.c \div 16) % 16), HexLow(it.c % 16)>>
    [] it.f = "U" -> <<92, 117, HexUp(it.c \div 4096), HexUp((it.c \div 256) % 16), HexUp((it.c \div 16) % 16), HexUp(it.c % 16)>>
    [] it.f = "s" -> <<92, ShortEsc(it.c)>>
\* a spelling is well formed only if raw items need no escape
ItemOK(it) == /\ it.c >= 0 /\ it.c < 65536 /\ (it.c < 55296 \/ it.c > 57343)
              /\ (it.f = "raw" => it.c >= 32 /\ it.c # 34 /\ it.c # 92)
              /\ (it.f = "s" => HasShort(it.c))

StrText(sp) == <<34>> \o Flat([i \in 1..Len(sp.items) |-> ItemText(sp.items[i])]) \o <<34>>
NumText(sp) ==
  (IF sp.neg THEN <<45>> ELSE <<>>) \o DigitBytes(sp.ip)
  \o (IF sp.fp = <<>> THEN <<>> ELSE <<46>> \o DigitBytes(sp.fp))
  \o (IF sp.ex = "" THEN <<>>
      ELSE <<IF sp.ex = "e" THEN 101 ELSE 69>> \o (IF sp.es = "+" THEN <<43>> ELSE IF sp.es = "-" THEN <<45>> ELSE <<>>) \o DigitBytes(sp.ed))
LitText(v) == CASE v = "null" -> <<110, 117, 108, 108>> [] v = "true" -> <<116, 114, 117, 101>> [] v = "false" -> <<102, 97, 108, 115, 101>>

RECURSIVE Text(_)
Text(sp) ==
  CASE sp.t = "lit" -> LitText(sp.v)
    [] sp.t = "num" -> NumText(sp)
    [] sp.t = "str" -> StrText(sp)
    [] sp.t = "arr" ->
         LET sep == IF sp.ws THEN <<32, 44, 10>> ELSE <<44>>
             body == Flat([i \in 1..Len(sp.vals) |-> (IF i > 1 THEN sep ELSE <<>>) \o Text(sp.vals[i])]) IN
         <<91>> \o (IF sp.ws THEN <<32>> ELSE <<>>) \o body \o (IF sp.ws THEN <<9>> ELSE <<>>) \o <<93>>
    [] sp.t = "obj" ->
         LET sep == IF sp.ws THEN <<13, 44, 32>> ELSE <<44>>
             col == IF sp.ws THEN <<32, 58, 32>> ELSE <<58>>
             body == Flat([i \in 1..Len(sp.vals) |-> (IF i > 1 THEN sep ELSE <<>>) \o StrText(sp.keys[i]) \o col \o Text(sp.vals[i])]) IN
         <<123>> \o (IF sp.ws THEN <<10>> ELSE <<>>) \o body \o (IF sp.ws THEN <<32>> ELSE <<>>) \o <<125>>

(************************** abstract layer: Den ****************************)
RECURSIVE StripLead(_)
StripLead(ds) == IF ds # <<>> /\ ds[1] = 0 THEN StripLead(Tail(ds)) ELSE ds
RECURSIVE DecVal(_)
DecVal(ds) == IF ds = <<>> THEN 0 ELSE DecVal(SubSeq(ds, 1, Len(ds) - 1)) * 10 + ds[Len(ds)]
RECURSIVE NTrail(_)
NTrail(ds) == IF ds # <<>> /\ ds[Len(ds)] = 0 THEN 1 + NTrail(SubSeq(ds, 1, Len(ds) - 1)) ELSE 0

NumDen(sp) ==
  LET ds == StripLead(sp.ip \o sp.fp)
      e0 == (IF sp.ex = "" THEN 0 ELSE (IF sp.es = "-" THEN 0 - DecVal(sp.ed) ELSE DecVal(sp.ed))) - Len(sp.fp)
      k == NTrail(ds) IN
  IF ds = <<>> THEN <<"num", FALSE, <<>>, 0>>          \* every zero, signed or not, is 0
  ELSE <<"num", sp.neg, SubSeq(ds, 1, Len(ds) - k), e0 + k>>

StrDen(sp) == <<"str", [i \in 1..Len(sp.items) |-> sp.items[i].c]>>

\* an object denotes a finite map; with repeated names the last member wins
RECURSIVE Den(_)
Den(sp) ==
  CASE sp.t = "lit" -> <<"lit", sp.v>>
    [] sp.t = "num" -> NumDen(sp)
    [] sp.t = "str" -> StrDen(sp)
    [] sp.t = "arr" -> <<"arr", [i \in 1..Len(sp.vals) |-> Den(sp.vals[i])]>>
    [] sp.t = "obj" ->
         LET n == Len(sp.vals)
             last(i) == \A j \in (i+1)..n : StrDen(sp.keys[j]) # StrDen(sp.keys[i]) IN
         <<"obj", {<<StrDen(sp.keys[i]), Den(sp.vals[i])>> : i \in {j \in 1..n : last(j)}}>>

RECURSIVE HasDup(_)
HasDup(sp) ==
  CASE sp.t = "arr" -> \E i \in 1..Len(sp.vals) : HasDup(sp.vals[i])
    [] sp.t = "obj" -> \/ \E i, j \in 1..Len(sp.vals) : i # j /\ StrDen(sp.keys[i]) = StrDen(sp.keys[j])
                       \/ \E i \in 1..Len(sp.vals) : HasDup(sp.vals[i])
    [] OTHER -> FALSE

\* The property: Equal(a, b) holds exactly when the two texts denote the same value.
SemEqual(a, b) == Den(a) = Den(b)

(*********************** implementation layer ******************************)
\* json/equal.go compare.* on the two texts.  jx.Num helpers work on the bytes.
NumZero(txt) == IF Len(txt) = 1 THEN txt[1] = 48 ELSE \A i \in 1..Len(txt) : txt[i] \in {46, 48, 45}
NumIsInt(txt) == LET b == IF txt[1] = 45 THEN Tail(txt) ELSE txt IN \A i \in 1..Len(b) : b[i] >= 48 /\ b[i] <= 57

ImplEqualNum(a, b) ==
  LET ta == NumText(a)
      tb == NumText(b) IN
  IF NumZero(ta) /\ NumZero(tb) THEN TRUE
  ELSE IF ta = tb THEN TRUE
  ELSE IF NumIsInt(ta) /\ NumIsInt(tb) THEN FALSE
  ELSE NumDen(a) = NumDen(b)                          \* big.Rat comparison: exact

RECURSIVE ImplEqual(_, _, _)
\* collectObject: map from decoded key to the raw value, later members overwrite
LastIdx(sp, k) == CHOOSE i \in 1..Len(sp.vals) : StrDen(sp.keys[i]) = k /\ \A j \in (i+1)..Len(sp.vals) : StrDen(sp.keys[j]) # k
KeySet(sp) == {StrDen(sp.keys[i]) : i \in 1..Len(sp.vals)}
ImplEqual(a, b, devs) ==
  IF a.t # b.t THEN FALSE
  ELSE CASE a.t = "lit" -> a.v = b.v      \* jx.Next distinguishes null / bool by first byte; Bool() decodes
    [] a.t = "num" -> ImplEqualNum(a, b)
    [] a.t = "str" -> StrDen(a) = StrDen(b)
    [] a.t = "arr" -> /\ Len(a.vals) = Len(b.vals)
                      /\ \A i \in 1..Len(a.vals) : ImplEqual(a.vals[i], b.vals[i], devs)
    [] a.t = "obj" ->
         IF "Dev_DupKeyAsymmetry" \in devs
         THEN \* pinned behaviour: left collected, right streamed and counted per occurrence
              /\ \A i \in 1..Len(b.vals) :
                    /\ StrDen(b.keys[i]) \in KeySet(a)
                    /\ ImplEqual(a.vals[LastIdx(a, StrDen(b.keys[i]))], b.vals[i], devs)
              /\ Cardinality(KeySet(a)) = Len(b.vals)
         ELSE /\ Cardinality(KeySet(a)) = Cardinality(KeySet(b))
              /\ \A k \in KeySet(a) :
                    /\ k \in KeySet(b)
                    /\ ImplEqual(a.vals[LastIdx(a, k)], b.vals[LastIdx(b, k)], devs)

(****************************** domains ************************************)
Num(neg, ip, fp, ex, es, ed) == [t |-> "num", neg |-> neg, ip |-> ip, fp |-> fp, ex |-> ex, es |-> es, ed |-> ed]
IntN(ip) == Num(FALSE, ip, <<>>, "", "", <<>>)
Lit(v) == [t |-> "lit", v |-> v]
Str(items) == [t |-> "str", items |-> items]
R(c) == [c |-> c, f |-> "raw"]
Arr(vs, ws) == [t |-> "arr", vals |-> vs, ws |-> ws]
Obj(ks, vs, ws) == [t |-> "obj", keys |-> ks, vals |-> vs, ws |-> ws]

P53 == <<9, 0, 0, 7, 1, 9, 9, 2, 5, 4, 7, 4, 0, 9, 9, 2>>       \* 2^53
P53p1 == <<9, 0, 0, 7, 1, 9, 9, 2, 5, 4, 7, 4, 0, 9, 9, 3>>     \* 2^53 + 1
Nums == {
  IntN(<<0>>), Num(TRUE, <<0>>, <<>>, "", "", <<>>), Num(FALSE, <<0>>, <<0>>, "", "", <<>>), Num(FALSE, <<0>>, <<>>, "e", "", <<5>>),
  Num(TRUE, <<0>>, <<0, 0>>, "E", "-", <<7>>),
  IntN(<<1>>), Num(FALSE, <<1>>, <<0>>, "", "", <<>>), Num(FALSE, <<1>>, <<>>, "e", "", <<0>>), Num(FALSE, <<1, 0>>, <<>>, "e", "-", <<1>>),
  Num(FALSE, <<0>>, <<1>>, "e", "", <<1>>), Num(FALSE, <<0>>, <<1>>, "E", "+", <<0, 1>>), Num(TRUE, <<1>>, <<>>, "", "", <<>>),
  Num(FALSE, <<1>>, <<5>>, "", "", <<>>), Num(FALSE, <<1, 5>>, <<>>, "e", "-", <<1>>), Num(FALSE, <<1>>, <<5, 0>>, "", "", <<>>),
  IntN(<<1, 0, 0>>), Num(FALSE, <<1>>, <<>>, "e", "", <<2>>), Num(FALSE, <<1>>, <<>>, "E", "+", <<2>>), Num(FALSE, <<1, 0, 0>>, <<0>>, "", "", <<>>), IntN(<<1, 0>>),
  IntN(P53), IntN(P53p1), Num(FALSE, P53, <<0>>, "", "", <<>>), Num(FALSE, <<9>>, Tail(P53p1), "e", "", <<1, 5>>), Num(FALSE, <<9>>, Tail(P53), "e", "+", <<1, 5>>),
  Num(FALSE, <<1>>, <<>>, "e", "", <<4, 0, 0>>), Num(FALSE, <<1, 0>>, <<>>, "e", "", <<3, 9, 9>>), Num(FALSE, <<1>>, <<>>, "e", "", <<4, 0, 1>>),
  Num(FALSE, <<1>>, <<>>, "e", "-", <<4, 0, 0>>), Num(FALSE, <<2>>, <<>>, "e", "-", <<4, 0, 0>>), Num(FALSE, <<0>>, <<1>>, "e", "-", <<3, 9, 9>>),
  Num(FALSE, <<0>>, <<3, 0, 0, 0, 0, 0, 0, 0, 0, 0, 0, 0, 0, 0, 0, 0, 4>>, "", "", <<>>),
  Num(FALSE, <<0>>, <<3, 0, 0, 0, 0, 0, 0, 0, 0, 0, 0, 0, 0, 0, 0, 0, 0, 4, 4, 4>>, "", "", <<>>),
  Num(FALSE, <<0>>, <<3>>, "", "", <<>>) }

Strs == {
  Str(<<>>), Str(<<R(65)>>), Str(<<[c |-> 65, f |-> "u"]>>), Str(<<[c |-> 65, f |-> "U"]>>), Str(<<R(97)>>),
  Str(<<R(47)>>), Str(<<[c |-> 47, f |-> "s"]>>), Str(<<[c |-> 10, f |-> "s"]>>), Str(<<[c |-> 10, f |-> "u"]>>), Str(<<[c |-> 10, f |-> "U"]>>),
  Str(<<R(233)>>), Str(<<[c |-> 233, f |-> "u"]>>), Str(<<[c |-> 233, f |-> "U"]>>), Str(<<R(101), R(769)>>),
  Str(<<R(8364)>>), Str(<<[c |-> 8364, f |-> "u"]>>), Str(<<R(65), R(65)>>), Str(<<R(49)>>), Str(<<R(110), R(117), R(108), R(108)>>),
  Str(<<[c |-> 34, f |-> "s"]>>), Str(<<[c |-> 34, f |-> "u"]>>), Str(<<[c |-> 92, f |-> "s"]>>), Str(<<R(32)>>) }

Lits == {Lit("null"), Lit("true"), Lit("false")}
Scalars == Nums \cup Strs \cup Lits

\* leaves used inside containers (kept small; each has a differently spelled twin)
Leaves == <<IntN(<<1>>), Num(FALSE, <<1>>, <<0>>, "", "", <<>>), IntN(<<2>>), Str(<<R(65)>>), Str(<<[c |-> 65, f |-> "u"]>>), Lit("null")>>
LeafSet == {Leaves[i] : i \in 1..Len(Leaves)}
KA == Str(<<R(97)>>)
KAu == Str(<<[c |-> 97, f |-> "u"]>>)
KB == Str(<<R(98)>>)
KeysD == {KA, KAu, KB}

Arrs == {Arr(<<>>, FALSE), Arr(<<>>, TRUE)}
        \cup {Arr(<<x>>, w) : x \in LeafSet, w \in BOOLEAN}
        \cup {Arr(<<x, y>>, w) : x \in LeafSet, y \in {Leaves[1], Leaves[3], Leaves[6]}, w \in BOOLEAN}
        \cup {Arr(<<Arr(<<Leaves[1]>>, FALSE)>>, FALSE), Arr(<<Arr(<<Leaves[2]>>, TRUE)>>, TRUE), Arr(<<Arr(<<>>, FALSE)>>, FALSE)}
ObjVals == {Leaves[1], Leaves[2], Leaves[3]}
Objs == {Obj(<<>>, <<>>, FALSE), Obj(<<>>, <<>>, TRUE)}
        \cup {Obj(<<k>>, <<v>>, w) : k \in KeysD, v \in ObjVals, w \in BOOLEAN}
        \cup {Obj(<<k1, k2>>, <<v1, v2>>, FALSE) : k1 \in KeysD, k2 \in KeysD, v1 \in ObjVals, v2 \in ObjVals}
        \cup {Obj(<<KA>>, <<Obj(<<KB>>, <<Leaves[1]>>, FALSE)>>, FALSE), Obj(<<KAu>>, <<Obj(<<KB>>, <<Leaves[2]>>, TRUE)>>, TRUE),
              Obj(<<KA>>, <<Arr(<<Leaves[1]>>, FALSE)>>, FALSE), Arr(<<Obj(<<KA>>, <<Leaves[1]>>, FALSE)>>, FALSE), Arr(<<Obj(<<KAu>>, <<Leaves[2]>>, TRUE)>>, FALSE)}
=============================================================================
