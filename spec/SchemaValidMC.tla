---------------------------- MODULE SchemaValidMC ----------------------------
(* Sanity of the validity relation on the whole bounded domain: laws every      *)
(* Draft-4 validator satisfies (a wrong clause for a keyword breaks one).        *)
EXTENDS SchemaValid
VARIABLES s, v
Init == s \in Schemas /\ v \in Instances
Next == UNCHANGED <<s, v>>
Laws ==
  /\ (s.k = "nullable" => (Valid(s, Null) = NullListed(s.s)) /\ (v.t # "null" => Valid(s, v) = V(s, s.s, v)))
  /\ (s.k = "anyOf" => Valid(s, v) = (\E i \in 1..Len(s.ss) : Valid(s.ss[i], v)))
  /\ (s.k = "allOf" => (Valid(s, v) => \A i \in 1..Len(s.ss) : Valid(s.ss[i], v)))
  /\ (s.k = "oneOf" => (Valid(s, v) => \E i \in 1..Len(s.ss) : Valid(s.ss[i], v)))
  /\ (s.k = "enum" => (Valid(s, v) => \E i \in 1..Len(s.vals) : s.vals[i] = v))
  /\ (s.k \in {"str", "int", "num", "bool", "arr", "obj"} /\ v.t = "null" => ~Valid(s, v))
  /\ (s.k = "int" /\ Valid(s, v) => Valid([s EXCEPT !.k = "num"], v))
  /\ (s.k = "any" => Valid(s, v))
  \* the implementation layer without deviations is the abstract relation
  /\ ImplValid(s, v, {}) = Valid(s, v)
\* every schema of the domain accepts something and (except any) refuses something: no vacuous schema
\* (evaluated once, in the state <<any, null>>)
NonVacuous == (s.k = "any" /\ v.t = "null") => \A x \in Schemas : (\E i \in Instances : Valid(x, i)) /\ (x.k # "any" => \E i \in Instances : ~Valid(x, i))
\* each named deviation changes the verdict of some pair of the domain (it is observable)
DevObservable == (s.k = "any" /\ v.t = "null") => /\ \A d \in Deviations \ {"Dev_SumUniqueCachedOnSharedVariant"} : \E x \in Schemas, i \in Instances : ImplValid(x, i, {d}) # Valid(x, i)
     /\ \E x \in SharedSums, i \in Instances : (~Valid(x, i)) \in StaleOutcomes(x, i, {"Dev_SumVariantByMemberPresence"})
=============================================================================
