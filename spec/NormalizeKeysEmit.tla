------------------------- MODULE NormalizeKeysEmit -------------------------
(* B1 for the second half of C12: ordered pairs of distinct spec path keys     *)
(* ("/" is prepended by the harness) over the escape-relevant alphabet.        *)
EXTENDS Normalize, Json, IOUtils, SequencesExt
CONSTANT MaxLen
KeySigma == {37, 52, 49, 102, 70, 126}
Keys == SeqsUpTo(KeySigma, MaxLen) \ {<<>>}
\* only pairs that can interact: equal canonical forms, or at least one malformed,
\* or a sample of unrelated ones (same length, same first byte)
Interesting(a, b) ==
  \/ Invalid(a) /\ Len(b) <= 1
  \/ ~Invalid(a) /\ ~Invalid(b) /\ (Canon(a) = Canon(b) \/ (Len(a) = Len(b) /\ a[1] = b[1] /\ a[1] = 37))
Pairs == {[a |-> a, b |-> b] : <<a, b>> \in {p \in Keys \X Keys : p[1] # p[2] /\ Interesting(p[1], p[2])}}
ASSUME ndJsonSerialize(IOEnv.VERIF_VECTORS, SetToSeq(Pairs))
VARIABLE x
Init == x = 0
Next == x' = x
=============================================================================
