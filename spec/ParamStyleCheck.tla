--------------------------- MODULE ParamStyleCheck ---------------------------
(* B3 for C06.  Two kinds of observation lines (uniform schema):              *)
(*  k = "adm": admitted (BOOLEAN) is what parser.Parse + gen.NewGenerator     *)
(*             said about a parameter with this cfg;                          *)
(*  k = "val": encoder outcome enc/raw/text/qmap and decoder outcome          *)
(*             dec/dprim/darr/dobj for value prim/arr/obj under this cfg.     *)
EXTENDS ParamStyle, ObsLib
CONSTANT KnownDeviations

Cfg(o) == [loc |-> o.loc, style |-> o.style, explode |-> o.explode, shape |-> o.shape]
Val(o) == [prim |-> o.prim, arr |-> o.arr, obj |-> o.obj]
Norm(o) == [o EXCEPT !.qmap = {o.qmap[i] : i \in 1..Len(o.qmap)}]

Verdict(raw) ==
  LET o == Norm(raw)
      c == Cfg(o)
      v == Val(o) IN
  IF o.k = "adm" THEN (IF o.admitted = Admitted(c) THEN "ok" ELSE "drift")
  ELSE IF o.enc = "panic" \/ o.dec = "panic" THEN "viol"          \* W5, whatever the row
  ELSE IF ~Admitted(c) THEN "ok"                                    \* a row the model does not know: only W5
  ELSE IF ~(EncOK(c, v, o) /\ RawOK(c, o)) THEN "viol"
  ELSE IF DecOK(c, v, o)
       THEN (IF o.enc = "ok" /\ ~DecMatches(ImplDec(c, v, o, KnownDeviations), ObsDec(o)) /\ ~EmptyCollection(c, v)
             THEN "drift" ELSE "ok")
  ELSE IF \E d \in KnownDeviations : DecMatches(ImplDec(c, v, o, {d}), ObsDec(o)) /\ ~DecMatches(ImplDec(c, v, o, {}), ObsDec(o))
       THEN "known=" \o (CHOOSE d \in KnownDeviations : DecMatches(ImplDec(c, v, o, {d}), ObsDec(o)))
       ELSE "viol"

VARIABLE l
Init == l = 0
Next == l < Len(Obs) /\ l' = l + 1 /\ Report(l', Verdict(Obs[l']))
=============================================================================
