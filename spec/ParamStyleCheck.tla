--------------------------- MODULE ParamStyleCheck ---------------------------
(* B3 for C06.  Two kinds of observation lines (uniform schema):              *)
(*  k = "adm": admitted (BOOLEAN) is what parser.Parse + gen.NewGenerator     *)
(*             said about a parameter with this cfg;                          *)
(*  k = "val": encoder outcome enc/raw/text/qmap and decoder outcome          *)
(*             dec/dprim/darr/dobj for value prim/arr/obj under this cfg;     *)
(*  k = "dflt": style and explode the parser chose for a parameter whose      *)
(*             document leaves explode (and, text = <<>>, style) out.         *)
EXTENDS ParamStyle, ObsLib
CONSTANT KnownDeviations

Cfg(o) == [loc |-> o.loc, style |-> o.style, explode |-> o.explode, shape |-> o.shape]
Val(o) == [prim |-> o.prim, arr |-> o.arr, obj |-> o.obj]
Norm(o) == [o EXCEPT !.qmap = {o.qmap[i] : i \in 1..Len(o.qmap)}]

Verdict(raw) ==
  LET o == Norm(raw)
      c == Cfg(o)
      v == Val(o) IN
  IF o.k = "adm" THEN (IF o.admitted = Admitted(c) THEN "ok" ELSE "drift")
  \* defaults (OpenAPI 3.0.3, Parameter Object): style by location; explode true for form,
  \* false for every other style.  o.text = the style the document gave (<<>> = none).
  ELSE IF o.k = "dflt" THEN
       (IF o.text = <<>> /\ c.style # DefaultStyle(c.loc) THEN "viol"
        \* deepObject has one row in the table (explode = true): either reading of its default is admitted
        ELSE IF c.explode = (c.style = "form") \/ c.style = "deepObject" THEN "ok"
        ELSE IF "Dev_DefaultExplodeByLocation" \in KnownDeviations /\ c.explode = (c.loc \in {"query", "cookie"}) THEN "known=Dev_DefaultExplodeByLocation"
        ELSE "viol")
  ELSE IF o.enc = "panic" \/ o.dec = "panic" THEN "viol"          \* W5, whatever the row
  ELSE IF ~Admitted(c) THEN "ok"                                    \* a row the model does not know: only W5
  ELSE IF ~(EncOK(c, v, o) /\ RawOK(c, o)) THEN "viol"
  ELSE IF DecOK(c, v, o)
       THEN (IF o.enc = "ok" /\ ~DecMatches(ImplDec(c, v, o, KnownDeviations), ObsDec(o)) /\ ~EmptyCollection(c, v)
             THEN "drift" ELSE "ok")
  ELSE IF \E d \in KnownDeviations : DecMatches(ImplDec(c, v, o, {d}), ObsDec(o)) /\ ~DecMatches(ImplDec(c, v, o, {}), ObsDec(o))
       THEN "known=" \o (CHOOSE d \in KnownDeviations : DecMatches(ImplDec(c, v, o, {d}), ObsDec(o)))
       ELSE "viol"

VARIABLE l
Init == l = 0
Next == l < Len(Obs) /\ l' = l + 1 /\ Report(l', Verdict(Obs[l']))
=============================================================================
