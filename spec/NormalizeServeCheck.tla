------------------------ MODULE NormalizeServeCheck ------------------------
(* B3 for the served half of C12: "two request paths that differ only in hex  *)
(* case or in needless escaping of unreserved characters reach the same        *)
(* operation with the same arguments".  One line per pair of request targets   *)
(* sent to a regenerated server: a, b the two path texts, oa, ob what each     *)
(* reached (operation and arguments, or the status), rawA, rawB whether        *)
(* net/url kept no raw path for it (the text equals Go's default encoding).    *)
EXTENDS Normalize, ObsLib
CONSTANT KnownDeviations

\* Dev_PlainSpellingNotNormalized: the generated router normalizes only when net/url
\* kept a raw path; a target that equals Go's default encoding is matched in its decoded
\* form against the (escaped) static text of the templates.
Verdict(o) ==
  IF Invalid(o.a) \/ Invalid(o.b) THEN "ok"
  ELSE IF Canon(o.a) # Canon(o.b) THEN "ok"           \* not equivalent: nothing is demanded of the pair
  ELSE IF o.oa = o.ob THEN "ok"
  ELSE IF o.rawA # o.rawB /\ "Dev_PlainSpellingNotNormalized" \in KnownDeviations THEN "known=Dev_PlainSpellingNotNormalized"
  ELSE "viol"

VARIABLE l
Init == l = 0
Next == l < Len(Obs) /\ l' = l + 1 /\ Report(l', Verdict(Obs[l']))
=============================================================================
