------------------------ MODULE NormalizeServeCheck ------------------------
(* B3 for the served half of C12: "two request paths that differ only in hex  *)
(* case or in needless escaping of unreserved characters reach the same        *)
(* operation with the same arguments".  One line per pair of request targets   *)
(* sent to a regenerated server: a, b the two path texts, oa, ob what each     *)
(* reached (operation and arguments, or the status), rawA, rawB whether        *)
(* net/url kept no raw path for it (the text equals Go's default encoding),    *)
(* reachedA, reachedB whether an operation was reached at all.                 *)
EXTENDS Normalize, ObsLib
CONSTANT KnownDeviations

\* Dev_PlainSpellingNotNormalized: the generated router normalizes only when net/url
\* kept a raw path; a target that equals Go's default encoding is matched in its decoded
\* form against the (escaped) static text of the templates.  What the deviation explains is
\* exactly this: of two equivalent spellings the plain one (no raw path kept) reaches nothing
\* while the other reaches the operation; two spellings that both reach something must agree.
\* Dev_RawTemplateTextMatchedEscaped: the mirror image for a template whose key is written
\* with the raw (non-ASCII) character: its static text is kept raw, so only the decoded
\* path (plain spelling, no raw path kept) matches it, and every spelling for which a raw
\* path is kept is normalized to the escaped form and finds nothing.
NamesNonASCII(s) == \E i \in 1..(Len(s) - 2) : s[i] = PCT /\ IsHex(s[i + 1]) /\ HexVal(s[i + 1]) >= 8
Verdict(o) ==
  IF Invalid(o.a) \/ Invalid(o.b) THEN "ok"
  ELSE IF Canon(o.a) # Canon(o.b) THEN "ok"           \* not equivalent: nothing is demanded of the pair
  ELSE IF o.oa = o.ob THEN "ok"
  ELSE IF o.rawA # o.rawB /\ o.reachedA # o.reachedB /\ (IF o.rawA THEN ~o.reachedA ELSE ~o.reachedB)
          /\ "Dev_PlainSpellingNotNormalized" \in KnownDeviations THEN "known=Dev_PlainSpellingNotNormalized"
  ELSE IF o.rawA # o.rawB /\ o.reachedA # o.reachedB /\ (IF o.rawA THEN o.reachedA ELSE o.reachedB) /\ NamesNonASCII(Canon(o.a))
          /\ "Dev_RawTemplateTextMatchedEscaped" \in KnownDeviations THEN "known=Dev_RawTemplateTextMatchedEscaped"
  ELSE "viol"

VARIABLE l
Init == l = 0
Next == l < Len(Obs) /\ l' = l + 1 /\ Report(l', Verdict(Obs[l']))
=============================================================================
