----------------------------- MODULE RouterEmit -----------------------------
(* B1 for C05.  Mode "sets":  every unordered set of at most two templates    *)
(* of at most MaxTplLen tokens, with method sets chosen by template length    *)
(* (so that 405 situations occur);  Mode "ordered": every ordered set of at   *)
(* most two templates (tree binding);  Mode "paths": every request path.      *)
EXTENDS Router, Json, IOUtils
CONSTANTS MaxTplLen, MaxPathLen, Mode
TemplatesAll == {t \in SeqsUpTo(Tok, MaxTplLen) : IsTemplate(t)}
MS(t) == IF Len(t) = 2 THEN {"GET", "POST"} ELSE IF Len(t) = 4 THEN {"POST"} ELSE {"GET"}
E(t) == [t |-> t, ms |-> SetToSeq(MS(t))]
TSeq == SetToSeq(TemplatesAll)
Unordered == {<<E(TSeq[i])>> : i \in 1..Len(TSeq)}
             \cup {<<E(TSeq[p[1]]), E(TSeq[p[2]])>> : p \in {q \in (1..Len(TSeq)) \X (1..Len(TSeq)) : q[1] < q[2]}}
Ordered == {<<E(TSeq[i])>> : i \in 1..Len(TSeq)}
           \cup {<<E(TSeq[p[1]]), E(TSeq[p[2]])>> : p \in {q \in (1..Len(TSeq)) \X (1..Len(TSeq)) : q[1] # q[2]}}
Paths == {p \in SeqsUpTo(PChar, MaxPathLen) : Len(p) >= 1}
EmitOut == CASE Mode = "sets" -> SetToSeq({[rs |-> s] : s \in Unordered})
         [] Mode = "ordered" -> SetToSeq({[rs |-> s] : s \in Ordered})
         [] Mode = "paths" -> SetToSeq({[p |-> p] : p \in Paths})
ASSUME ndJsonSerialize(IOEnv.VERIF_VECTORS, EmitOut)
VARIABLE x
Init == x = 0
Next == x' = x
=============================================================================
