---------------------------- MODULE ParamStyleMC ----------------------------
(* Design-level check of the style table: for every admitted row and every    *)
(* bounded value, serialize by the table and decode with the cursor machine   *)
(* of uri/ ; with Devs = {} the round trip obeys AllowedDec, and the pinned   *)
(* io.EOF behaviour (Dev_EmptyTailEOF) is exactly what breaks it.             *)
EXTENDS ParamStyle
CONSTANTS Devs, MaxPrim
VARIABLE st

A == {97, 44, 46, 59, 61, 124, 37, 32, 47}
RECURSIVE SeqsUpTo(_, _)
SeqsUpTo(S, n) == IF n = 0 THEN {<<>>} ELSE LET R == SeqsUpTo(S, n - 1) IN R \cup {Append(s, c) : s \in {t \in R : Len(t) = n - 1}, c \in S}
Prims == SeqsUpTo(A, MaxPrim)
Items == SeqsUpTo(A, 1)
Arrs == {<<>>} \cup {<<x>> : x \in Items} \cup {<<x, y>> : x \in Items, y \in Items} \cup {<<x, <<97>>, y>> : x \in Items, y \in {<<>>, <<44>>, <<97>>}}
ONames == {<<114>>, <<110>>, <<97, 61, 98>>, <<97, 44, 98>>, <<>>, <<97, 46, 98>>, <<97, 59, 98>>}
OVals == {<<97>>, <<44>>, <<46>>, <<59>>, <<61>>, <<>>}
Objs == {<<>>} \cup {<< <<n, v>> >> : n \in ONames, v \in OVals}
        \cup {<< <<n1, v1>>, <<n2, v2>> >> : n1 \in ONames, n2 \in ONames \ {<<>>}, v1 \in OVals, v2 \in {<<97>>, <<>>, <<44>>}}
Vals(shape) == CASE shape = "prim" -> {[prim |-> p, arr |-> <<>>, obj |-> <<>>] : p \in Prims}
                 [] shape = "arr" -> {[prim |-> <<>>, arr |-> a, obj |-> <<>>] : a \in Arrs}
                 [] shape = "obj" -> {[prim |-> <<>>, arr |-> <<>>, obj |-> o] : o \in {x \in Objs : Len(x) = 2 => x[1][1] # x[2][1]}}
Cfgs == {c \in AllCfgs : Admitted(c)}

Blank == [enc |-> "none", text |-> <<>>, qmap |-> {}, raw |-> <<>>, dec |-> "na", dprim |-> <<>>, darr |-> <<>>, dobj |-> <<>>]
Init == st \in UNION {{[c |-> c, v |-> v, pc |-> "enc", o |-> Blank] : v \in Vals(c.shape)} : c \in Cfgs}
Encode ==
  /\ st.pc = "enc"
  /\ st' = IF MustRefuse(st.c, st.v) THEN [st EXCEPT !.pc = "done", !.o.enc = "refused"]
           ELSE [st EXCEPT !.pc = "dec", !.o.enc = "ok",
                           !.o.text = IF st.c.loc = "query" THEN <<>> ELSE TextForm(st.c, st.v),
                           !.o.qmap = IF st.c.loc = "query" THEN QueryForm(st.c, st.v) ELSE {}]
Decode ==
  /\ st.pc = "dec"
  /\ LET d == ImplDec(st.c, st.v, st.o, Devs) IN
     st' = [st EXCEPT !.pc = "done", !.o.dec = d.dec, !.o.dprim = d.dprim, !.o.darr = d.darr, !.o.dobj = d.dobj]
Next == Encode \/ Decode
RoundTrip == st.pc = "done" => DecOK(st.c, st.v, st.o)
EncodeOK == st.pc # "enc" => EncOK(st.c, st.v, st.o)
=============================================================================
