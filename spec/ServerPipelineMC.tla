-------------------------- MODULE ServerPipelineMC --------------------------
(* The generator side: handlers.tmpl as a stage machine whose stage outcomes  *)
(* are chosen by the environment.  Every event sequence it can produce must   *)
(* be accepted by the acceptor of ServerPipeline (the trace spec used on real *)
(* servers), and every completed request satisfies the generic obligations.   *)
EXTENDS ServerPipeline
VARIABLES shape, pc, st, status, wh

Shapes == [sec : BOOLEAN, params : BOOLEAN, body : {"none", "optional", "required"}]
vars == <<shape, pc, st, status, wh>>

Init == shape \in Shapes /\ pc = "route" /\ st = Start(shape, "", FALSE) /\ status = 0 /\ wh = 0

Fail(kind, code) == /\ ErrEnabled(st, kind)          \* the acceptor must admit what the template does
                    /\ st' = OnErr(st, kind) /\ status' = code /\ wh' = wh + 1 /\ pc' = "done"
Pass(next) == pc' = next /\ UNCHANGED <<st, status, wh>>

Route == pc = "route" /\ \/ Pass("sec")
                         \/ \E c \in {404, 405} : status' = c /\ wh' = wh + 1 /\ pc' = "done" /\ UNCHANGED st
Sec == pc = "sec" /\ (IF shape.sec THEN Pass("params") \/ Fail("sec", 401) ELSE Pass("params"))
Params == pc = "params" /\ (IF shape.params THEN Pass("body") \/ Fail("params", 400) ELSE Pass("body"))
Body == pc = "body" /\ (IF shape.body # "none" THEN Pass("handler") \/ Fail("body", 400) \/ Fail("body", 415) ELSE Pass("handler"))
Handler == pc = "handler" /\ HandlerEnabled(st) /\ st' = OnHandler(st) /\ pc' = "after" /\ UNCHANGED <<status, wh>>
After == pc = "after" /\ \/ Fail("handler", 500) \/ Fail("notimpl", 501) \/ Fail("encode", 500)
                         \/ \E c \in {200, 204} : status' = c /\ wh' = wh + 1 /\ pc' = "done" /\ UNCHANGED st
Next == (Route \/ Sec \/ Params \/ Body \/ Handler \/ After) /\ UNCHANGED shape

Done == [status |-> status, wh |-> wh, panic |-> FALSE]
GenericHolds == pc = "done" => Generic(st, Done)
\* the handler runs only after every earlier stage passed (no error was reported before it)
HandlerLast == st.ran => \A i \in 1..Len(st.errs) : st.errs[i] \in {"handler", "notimpl", "encode"}
OneResponse == wh <= 1
=============================================================================
