------------------------------ MODULE GenCLIMC ------------------------------
(* cmd/ogen/main.go as a machine: every fault point x --clean x initial       *)
(* directory (absent, or any subset of <= MaxEntries name classes).  Each     *)
(* behaviour's event sequence must be accepted by the acceptor of GenCLI,     *)
(* and G1-G5 hold in every reachable state.                                   *)
EXTENDS GenCLI
CONSTANT MaxEntries
VARIABLES scn, pc, fs, acc, exit, todo

Generated == {"oas_schemas_gen.go", "oas_cfg_gen.go"}          \* what WriteSource writes (abstractly)
Scenarios == {[failAt |-> f, clean |-> c, absent |-> a, fs0 |-> s] :
                 f \in FaultPoints, c \in BOOLEAN, a \in BOOLEAN,
                 s \in {x \in SUBSET NameClasses : Cardinality(x) <= MaxEntries}}
Valid(s) == (s.absent => s.fs0 = {}) /\ (\A e \in s.fs0 : e.kind = "nested" => [name |-> "sub", kind |-> "dir"] \in s.fs0)

Init == scn \in {s \in Scenarios : Valid(s)} /\ pc = "flags" /\ fs = scn.fs0 /\ acc = Begin(scn) /\ exit = 99 /\ todo = {}
Stage(this, next, faults) ==
  /\ pc = this
  /\ IF scn.failAt \in faults THEN pc' = "exit" /\ exit' = 1 ELSE pc' = next /\ exit' = exit
  /\ UNCHANGED <<scn, fs, acc, todo>>
Flags == IF scn.failAt = "version"
         THEN pc = "flags" /\ pc' = "exit" /\ exit' = 0 /\ UNCHANGED <<scn, fs, acc, todo>>
         ELSE Stage("flags", "config", {"flag", "nospec"})
Config == Stage("config", "spec", {"config_missing", "config_yaml", "config_field", "config_feature", "config_feature_disable", "config_type", "config_found_unreadable", "config_found_yaml"})
Spec == Stage("spec", "parse", {"spec_missing"})
Parse == Stage("parse", "ir", {"spec_yaml", "spec_invalid"})
IR == Stage("ir", "dir", {"not_implemented", "route", "unnameable", "package_invalid", "expand_route"})
\* os.ReadDir / os.MkdirAll
Dir == /\ pc = "dir"
       /\ IF scn.absent THEN acc' = OnEvent(acc, [ev |-> "mkdir", name |-> "", own |-> FALSE]) ELSE acc' = acc
       /\ pc' = "clean" /\ todo' = IF scn.clean /\ ~scn.absent THEN {e \in fs : Own(e)} ELSE {}
       /\ UNCHANGED <<scn, fs, exit>>
\* cleanDir: one os.Remove per own entry, in any order
Clean == /\ pc = "clean"
         /\ IF todo = {} THEN pc' = "write" /\ todo' = Generated /\ UNCHANGED <<fs, acc>>
            ELSE \E e \in todo : /\ fs' = fs \ {e} /\ todo' = todo \ {e}
                                 /\ acc' = OnEvent(acc, [ev |-> "unlink", name |-> e.name, own |-> TRUE]) /\ pc' = pc
         /\ UNCHANGED <<scn, exit>>
\* WriteSource: parallel writers, any order
Write == /\ pc = "write"
         /\ IF todo = {} THEN pc' = "exit" /\ exit' = 0 /\ UNCHANGED <<fs, acc, todo>>
            ELSE \E n \in todo : /\ fs' = {e \in fs : e.name # n} \cup {[name |-> n, kind |-> "own"]} /\ todo' = todo \ {n}
                                 /\ acc' = OnEvent(acc, [ev |-> "create", name |-> n, own |-> TRUE]) /\ pc' = pc /\ exit' = exit
         /\ UNCHANGED scn
Next == Flags \/ Config \/ Spec \/ Parse \/ IR \/ Dir \/ Clean \/ Write

Accepted == acc.phase # "bad"
G1 == (pc = "exit" /\ exit # 0) => fs = scn.fs0 /\ acc.phase = "start"
G2 == scn.fs0 \ fs \subseteq {e \in scn.fs0 : Own(e) /\ (scn.clean \/ e.name \in Generated)}
G3G4 == \A e \in scn.fs0 : ~Own(e) => e \in fs
G5 == pc = "exit" => ((exit # 0) = (scn.failAt \in PreWriteFaults))
=============================================================================
