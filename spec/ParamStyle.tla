----------------------------- MODULE ParamStyle -----------------------------
(***************************************************************************)
(* C06 -- parameter serialization (OpenAPI 3.0.3 style table) in uri/*.    *)
(*                                                                         *)
(* cfg   = [loc, style, explode, shape]                                    *)
(* value = [prim |-> bytes, arr |-> <<bytes..>>, obj |-> << <<n, v>>.. >>] *)
(*         (only the component named by cfg.shape is meaningful)           *)
(* The parameter is always called "id" (bytes 105,100).                    *)
(*                                                                         *)
(* abstract layer: Admitted, Table (the prescribed serialization),         *)
(*   MustRefuse / MayRefuse (ambiguity), AllowedEnc, AllowedDec            *)
(* implementation layer: the cursor-based decoders of uri/ with the named  *)
(*   deviation Dev_EmptyTailEOF (cursor.readValue / readAll report io.EOF  *)
(*   on an empty remainder).                                               *)
(***************************************************************************)
EXTENDS Naturals, Sequences, FiniteSets, TLC

COMMA == 44
DOT == 46
SEMI == 59
EQ == 61
PIPE == 124
PCT == 37
ID == <<105, 100>>

RECURSIVE Flat(_)
Flat(ss) == IF ss = <<>> THEN <<>> ELSE ss[1] \o Flat(Tail(ss))
Join(items, sep) == Flat([i \in 1..Len(items) |-> (IF i > 1 THEN sep ELSE <<>>) \o items[i]])
Has(s, c) == \E i \in 1..Len(s) : s[i] = c
Drop(s, k) == SubSeq(s, k + 1, Len(s))

(******************************* admission *********************************)
\* parser table (validateParamStyle) minus what the generator refuses
\* (isSupportedParamStyle: spaceDelimited; pipeDelimited objects)
Admitted(c) ==
  CASE c.loc = "path" -> c.style \in {"simple", "label", "matrix"}
    [] c.loc = "query" -> \/ c.style = "form"
                          \/ c.style = "pipeDelimited" /\ c.shape = "arr"
                          \/ c.style = "deepObject" /\ c.explode /\ c.shape = "obj"
    [] c.loc = "header" -> c.style = "simple"
    [] c.loc = "cookie" -> c.style = "form" /\ (c.explode => c.shape = "prim")
    [] OTHER -> FALSE

DefaultStyle(loc) == CASE loc = "path" -> "simple" [] loc = "query" -> "form" [] loc = "header" -> "simple" [] loc = "cookie" -> "form"

Locs == {"path", "query", "header", "cookie"}
Styles == {"simple", "label", "matrix", "form", "spaceDelimited", "pipeDelimited", "deepObject"}
Shapes == {"prim", "arr", "obj"}
AllCfgs == [loc : Locs, style : Styles, explode : BOOLEAN, shape : Shapes]

(************************* prescribed serialization ************************)
\* separators of a row
ItemSep(c) ==
  CASE c.loc = "path" /\ c.style = "label" /\ c.explode -> DOT
    [] c.loc = "path" /\ c.style = "matrix" /\ c.explode -> SEMI
    [] c.loc = "query" /\ c.style = "pipeDelimited" -> PIPE
    [] OTHER -> COMMA
KvSep(c) == IF c.explode THEN EQ ELSE COMMA
FieldSep(c) == ItemSep(c)

Pairs(obj, kv) == [i \in 1..Len(obj) |-> obj[i][1] \o <<kv>> \o obj[i][2]]
FlatPairs(obj) == Flat([i \in 1..Len(obj) |-> <<obj[i][1], obj[i][2]>>])

\* text carriers (path segment before escaping, header value, cookie value)
TextForm(c, v) ==
  LET body == CASE c.shape = "prim" -> v.prim
                [] c.shape = "arr" -> Join(v.arr, <<ItemSep(c)>>)
                [] c.shape = "obj" -> IF c.explode THEN Join(Pairs(v.obj, EQ), <<FieldSep(c)>>)
                                      ELSE Join(FlatPairs(v.obj), <<COMMA>>) IN
  CASE c.loc = "path" /\ c.style = "label" -> <<DOT>> \o body
    [] c.loc = "path" /\ c.style = "matrix" ->
         IF c.explode /\ c.shape = "arr" THEN Flat([i \in 1..Len(v.arr) |-> <<SEMI>> \o ID \o <<EQ>> \o v.arr[i]])
         ELSE IF c.explode /\ c.shape = "obj" THEN Flat([i \in 1..Len(v.obj) |-> <<SEMI>> \o v.obj[i][1] \o <<EQ>> \o v.obj[i][2]])
         ELSE <<SEMI>> \o ID \o <<EQ>> \o body
    [] OTHER -> body

\* query carrier: a map from key to the list of values
QueryForm(c, v) ==
  CASE c.shape = "prim" -> {[k |-> ID, vs |-> <<v.prim>>]}
    [] c.shape = "arr" -> IF c.explode THEN {[k |-> ID, vs |-> v.arr]}
                          ELSE {[k |-> ID, vs |-> <<Join(v.arr, <<ItemSep(c)>>)>>]}
    [] c.shape = "obj" ->
         IF c.style = "deepObject" THEN {[k |-> ID \o <<91>> \o v.obj[i][1] \o <<93>>, vs |-> <<v.obj[i][2]>>] : i \in 1..Len(v.obj)}
         ELSE IF c.explode THEN {[k |-> v.obj[i][1], vs |-> <<v.obj[i][2]>>] : i \in 1..Len(v.obj)}
         ELSE {[k |-> ID, vs |-> <<Join(FlatPairs(v.obj), <<COMMA>>)>>]}

(***************************** ambiguity ***********************************)
Members(c, v) == CASE c.shape = "prim" -> <<>> [] c.shape = "arr" -> v.arr
                   [] c.shape = "obj" -> [i \in 1..Len(v.obj) |-> v.obj[i][2]]
Names(c, v) == IF c.shape = "obj" THEN [i \in 1..Len(v.obj) |-> v.obj[i][1]] ELSE <<>>

\* does this row join members with a separator inside one text?
Joined(c) ==
  CASE c.loc = "query" -> ~c.explode
    [] OTHER -> TRUE
\* a member containing the separator that joins members, or a name containing the
\* name/value separator, cannot be told apart from two members: must be refused
MustRefuse(c, v) ==
  /\ c.shape # "prim" /\ Joined(c)
  /\ \/ \E i \in 1..Len(Members(c, v)) : Has(Members(c, v)[i], IF c.shape = "arr" THEN ItemSep(c) ELSE FieldSep(c))
     \/ \E i \in 1..Len(Names(c, v)) : Has(Names(c, v)[i], KvSep(c))
\* a name containing the field separator (explode rows) is decodable by a left-to-right
\* scan but not by split-then-cut: refusing it or carrying it exactly are both fine
MayRefuse(c, v) ==
  /\ c.shape = "obj" /\ Joined(c) /\ c.explode
  /\ \E i \in 1..Len(Names(c, v)) : Has(Names(c, v)[i], FieldSep(c))

EmptyCollection(c, v) == (c.shape = "arr" /\ v.arr = <<>>) \/ (c.shape = "obj" /\ v.obj = <<>>)

(************************** observations, abstract *************************)
\* enc: "ok" | "refused" | "panic";  logical wire: text (bytes) or qmap (set of records)
EncOK(c, v, o) ==
  IF EmptyCollection(c, v) THEN o.enc # "panic"           \* the table prescribes nothing for empty collections
  ELSE IF MustRefuse(c, v) THEN o.enc = "refused"
  ELSE LET good == /\ o.enc = "ok"
                   /\ IF c.loc = "query" THEN o.qmap = QueryForm(c, v) ELSE o.text = TextForm(c, v) IN
       IF MayRefuse(c, v) THEN o.enc = "refused" \/ good ELSE good

\* dec (only when enc = ok): "ok" with the decoded value | "err" | "panic"
SameObj(a, b) == Len(a) = Len(b) /\ {a[i] : i \in 1..Len(a)} = {b[i] : i \in 1..Len(b)}
DecExact(c, v, o) ==
  /\ o.dec = "ok"
  /\ CASE c.shape = "prim" -> o.dprim = v.prim
       [] c.shape = "arr" -> o.darr = v.arr
       [] c.shape = "obj" -> SameObj(o.dobj, v.obj)
DecOK(c, v, o) ==
  IF o.enc # "ok" THEN TRUE
  ELSE IF EmptyCollection(c, v)
       \* the table prescribes no form for empty collections and [] / [""] share one in
       \* most rows: anything but a panic is admissible
       THEN o.dec # "panic"
  ELSE IF c.shape = "arr" /\ v.arr = <<<<>>>> /\ Joined(c)
       THEN DecExact(c, v, o) \/ (o.dec = "ok" /\ o.darr = <<>>) \/ o.dec = "err"    \* the other side of the same collision
  ELSE DecExact(c, v, o)

(*********************** implementation layer ******************************)
\* cursor.readValue(sep) on remainder s:  <<value, hasNext, rest, eof>>
FirstIdx(s, ch) == LET I == {k \in 1..Len(s) : s[k] = ch} IN IF I = {} THEN 0 ELSE CHOOSE k \in I : \A j \in I : k <= j
ReadValue(s, sep, devs) ==
  LET k == FirstIdx(s, sep) IN
  IF k = 0 THEN [v |-> s, next |-> FALSE, rest |-> <<>>, eof |-> (s = <<>> /\ "Dev_EmptyTailEOF" \in devs)]
  ELSE [v |-> SubSeq(s, 1, k - 1), next |-> TRUE, rest |-> Drop(s, k), eof |-> FALSE]

\* parseArray: <<ok, items>>
RECURSIVE ParseArray(_, _, _)
ParseArray(s, sep, devs) ==
  LET r == ReadValue(s, sep, devs) IN
  IF r.eof THEN [ok |-> FALSE, items |-> <<>>]
  ELSE IF ~r.next THEN [ok |-> TRUE, items |-> <<r.v>>]
  ELSE LET t == ParseArray(r.rest, sep, devs) IN [ok |-> t.ok, items |-> <<r.v>> \o t.items]

\* decodeObject(kvSep, fieldSep)
RECURSIVE DecodeObject(_, _, _, _)
DecodeObject(s, kv, fs, devs) ==
  LET n == ReadValue(s, kv, devs) IN
  IF n.eof THEN [ok |-> FALSE, fields |-> <<>>]
  ELSE LET x == ReadValue(n.rest, fs, devs) IN
       IF x.eof THEN [ok |-> FALSE, fields |-> <<>>]
       ELSE IF ~x.next THEN [ok |-> TRUE, fields |-> << <<n.v, x.v>> >>]
       ELSE LET t == DecodeObject(x.rest, kv, fs, devs) IN [ok |-> t.ok, fields |-> << <<n.v, x.v>> >> \o t.fields]

\* strings.Split(s, sep)
RECURSIVE Split(_, _)
Split(s, sep) == LET k == FirstIdx(s, sep) IN IF k = 0 THEN <<s>> ELSE <<SubSeq(s, 1, k - 1)>> \o Split(Drop(s, k), sep)

DErr == [dec |-> "err", dprim |-> <<>>, darr |-> <<>>, dobj |-> <<>>]
DPrim(p) == [dec |-> "ok", dprim |-> p, darr |-> <<>>, dobj |-> <<>>]
DArr(a) == [dec |-> "ok", dprim |-> <<>>, darr |-> a, dobj |-> <<>>]
DObj(f) == [dec |-> "ok", dprim |-> <<>>, darr |-> <<>>, dobj |-> f]
ReadAll(s, devs) == IF s = <<>> /\ "Dev_EmptyTailEOF" \in devs THEN DErr ELSE DPrim(s)
OfArr(r) == IF r.ok THEN DArr(r.items) ELSE DErr
OfObj(r) == IF r.ok THEN DObj(r.fields) ELSE DErr
IsPre(p, s) == Len(p) <= Len(s) /\ SubSeq(s, 1, Len(p)) = p

\* path_decoder.go on the (unescaped) text
RECURSIVE MatrixExplodeArr(_, _)
MatrixExplodeArr(s, devs) ==
  LET p == ReadValue(s, EQ, devs) IN
  IF p.eof \/ p.v # ID \/ ~p.next THEN [ok |-> FALSE, items |-> <<>>]
  ELSE LET x == ReadValue(p.rest, SEMI, devs) IN
       IF x.eof THEN [ok |-> FALSE, items |-> <<>>]
       ELSE IF ~x.next THEN [ok |-> TRUE, items |-> <<x.v>>]
       ELSE LET t == MatrixExplodeArr(x.rest, devs) IN [ok |-> t.ok, items |-> <<x.v>> \o t.items]

ImplDecPath(c, s, devs) ==
  LET body == IF c.style = "simple" THEN s ELSE Tail(s)
      lead == IF c.style = "label" THEN DOT ELSE SEMI IN
  IF c.style # "simple" /\ (s = <<>> \/ s[1] # lead) THEN DErr
  ELSE CASE c.shape = "prim" ->
              IF c.style = "matrix"
              THEN LET k == FirstIdx(body, EQ) IN
                   IF k = 0 \/ SubSeq(body, 1, k - 1) # ID THEN DErr ELSE ReadAll(Drop(body, k), devs)
              ELSE ReadAll(body, devs)
         [] c.shape = "arr" ->
              IF c.style = "matrix" /\ c.explode THEN OfArr(MatrixExplodeArr(body, devs))
              ELSE IF c.style = "matrix"
                   THEN LET p == ReadValue(body, EQ, devs) IN
                        IF p.eof \/ p.v # ID \/ ~p.next THEN DErr ELSE OfArr(ParseArray(p.rest, COMMA, devs))
              ELSE OfArr(ParseArray(body, ItemSep(c), devs))
         [] c.shape = "obj" ->
              IF c.style = "matrix" /\ ~c.explode
              THEN LET k == FirstIdx(body, EQ) IN
                   IF k = 0 \/ SubSeq(body, 1, k - 1) # ID THEN DErr ELSE OfObj(DecodeObject(Drop(body, k), COMMA, COMMA, devs))
              ELSE OfObj(DecodeObject(body, KvSep(c), FieldSep(c), devs))

\* header / cookie decoders on the logical text
ImplDecText(c, s, devs) ==
  CASE c.shape = "prim" -> DPrim(s)
    [] c.shape = "arr" -> DArr(Split(s, COMMA))
    [] c.shape = "obj" -> OfObj(DecodeObject(s, KvSep(c), COMMA, devs))

\* query decoders on the map; names = the object's declared field names, in order
QGet(m, k) == IF \E e \in m : e.k = k THEN (CHOOSE e \in m : e.k = k).vs ELSE <<>>
QHas(m, k) == \E e \in m : e.k = k
RECURSIVE QFields(_, _, _)
QFields(m, names, deep) ==
  IF names = <<>> THEN <<>>
  ELSE LET key == IF deep THEN ID \o <<91>> \o names[1] \o <<93>> ELSE names[1] IN
       (IF QHas(m, key) /\ Len(QGet(m, key)) = 1 THEN << <<names[1], QGet(m, key)[1]>> >> ELSE <<>>) \o QFields(m, Tail(names), deep)
ImplDecQuery(c, m, names, devs) ==
  IF c.shape = "obj" /\ (c.explode \/ c.style = "deepObject") THEN DObj(QFields(m, names, c.style = "deepObject"))
  ELSE IF ~QHas(m, ID) THEN DErr
  ELSE LET vs == QGet(m, ID) IN
    CASE c.shape = "prim" -> IF Len(vs) = 1 THEN DPrim(vs[1]) ELSE DErr
      [] c.shape = "arr" ->
           IF c.explode THEN DArr(vs)
           ELSE IF Len(vs) # 1 THEN DErr
           ELSE IF c.style = "form" /\ vs[1] = <<>> THEN DArr(<<>>)
           ELSE DArr(Split(vs[1], ItemSep(c)))
      [] c.shape = "obj" -> IF Len(vs) # 1 THEN DErr ELSE OfObj(DecodeObject(vs[1], COMMA, COMMA, devs))

\* Encoder of the implementation layer == the abstract one, plus what it does for empties:
\* url.Values / header.Set / AddCookie carry whatever Join produced.
ImplDec(c, v, o, devs) ==
  CASE c.loc = "path" -> ImplDecPath(c, o.text, devs)
    [] c.loc = "query" -> ImplDecQuery(c, o.qmap, Names(c, v), devs)
    [] OTHER -> ImplDecText(c, o.text, devs)

ObsDec(o) == [dec |-> o.dec, dprim |-> o.dprim, darr |-> o.darr, dobj |-> o.dobj]
\* same decoded value up to field order
DecMatches(d, o) == d.dec = o.dec /\ (d.dec = "ok" => d.dprim = o.dprim /\ d.darr = o.darr /\ SameObj(d.dobj, o.dobj))

(******************************* escaping **********************************)
IsHex(x) == (x >= 48 /\ x <= 57) \/ (x >= 97 /\ x <= 102) \/ (x >= 65 /\ x <= 70)
HexVal(x) == IF x <= 57 THEN x - 48 ELSE IF x >= 97 THEN x - 87 ELSE x - 55
RECURSIVE PctValid(_)
PctValid(s) == IF s = <<>> THEN TRUE
               ELSE IF s[1] = PCT THEN Len(s) >= 3 /\ IsHex(s[2]) /\ IsHex(s[3]) /\ PctValid(Drop(s, 3))
               ELSE PctValid(Tail(s))
RECURSIVE PctDecode(_)
PctDecode(s) == IF s = <<>> THEN <<>>
                ELSE IF s[1] = PCT THEN <<HexVal(s[2]) * 16 + HexVal(s[3])>> \o PctDecode(Drop(s, 3))
                ELSE <<s[1]>> \o PctDecode(Tail(s))
\* RFC 3986 pchar without pct-encoded: what may appear raw inside one path segment
PChar(x) == \/ (x >= 97 /\ x <= 122) \/ (x >= 65 /\ x <= 90) \/ (x >= 48 /\ x <= 57)
            \/ x \in {45, 46, 95, 126, 33, 36, 38, 39, 40, 41, 42, 43, 44, 59, 61, 58, 64}
\* RFC 6265 cookie-octet
CookieOctet(x) == x = 33 \/ (x >= 35 /\ x <= 43) \/ (x >= 45 /\ x <= 58) \/ (x >= 60 /\ x <= 91) \/ (x >= 93 /\ x <= 126)

\* raw wire is a faithful, safe spelling of the logical text
RawOK(c, o) ==
  IF o.enc # "ok" \/ o.raw = <<>> THEN TRUE      \* nothing on the wire: nothing to spell
  ELSE CASE c.loc = "path" -> /\ PctValid(o.raw) /\ PctDecode(o.raw) = o.text
                              /\ \A i \in 1..Len(o.raw) : o.raw[i] = PCT \/ PChar(o.raw[i])
         [] c.loc = "cookie" -> /\ IsPre(ID \o <<EQ>>, o.raw)
                                /\ LET val == Drop(o.raw, 3) IN
                                   /\ PctValid(val) /\ PctDecode(val) = o.text
                                   /\ \A i \in 1..Len(val) : CookieOctet(val[i])
         [] OTHER -> TRUE
=============================================================================
