--------------------------- MODULE GenPipelineCheck ---------------------------
(* B3 for C02.  k = "build": FeatureOptions.Build observed on a configuration; *)
(* k = "gen": one generation: feature set, shape flags (harness-known), gen     *)
(* outcome, build outcome, files written.                                       *)
EXTENDS GenPipeline, ObsLib
CONSTANT KnownDeviations
S(q) == {q[i] : i \in 1..Len(q)}
BuildVerdict(o) ==
  LET cfg == [disableAll |-> o.disableAll, disable |-> S(o.disable), enable |-> S(o.enable)] IN
  IF BuildFails(cfg) THEN (IF o.err THEN "ok" ELSE "viol-unknown-feature-accepted")
  ELSE IF o.err THEN "viol-valid-feature-configuration-refused"
  ELSE IF S(o.set) = Build(cfg) THEN "ok" ELSE "viol-feature-set"
GenVerdict(o) ==
  IF <<o.gen, o.build>> \notin Allowed
  THEN IF /\ "Dev_GeneratedIdentifierCollision" \in KnownDeviations /\ o.gen = "ok" /\ o.build = "fail"
          /\ S(o.names) \cap CollisionWitness(o.scope) # {}
       THEN "known=Dev_GeneratedIdentifierCollision"
       \* several names that compile alone but not side by side: their Go identifiers coincide
       ELSE IF "Dev_SiblingNameCollision" \in KnownDeviations /\ o.gen = "ok" /\ o.build = "fail" /\ o.aloneOK /\ o.scope \in SiblingCollisionScopes
       THEN "known=Dev_SiblingNameCollision"
       ELSE IF o.gen = "ok" /\ o.build = "fail" /\ ShapeWitness(o.shapeName) \cap KnownDeviations # {}
       THEN "known=" \o (CHOOSE d \in ShapeWitness(o.shapeName) \cap KnownDeviations : TRUE)
       ELSE "viol-" \o o.gen \o "-" \o o.build
  ELSE IF o.gen = "ok" /\ o.flagsKnown /\ S(o.files) # Files(S(o.set), o.shape) THEN "drift"
  ELSE "ok"
VARIABLE l
Init == l = 0
Next == l < Len(Obs) /\ l' = l + 1 /\ Report(l', IF Obs[l'].k = "build" THEN BuildVerdict(Obs[l']) ELSE GenVerdict(Obs[l']))
=============================================================================
