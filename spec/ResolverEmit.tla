---------------------------- MODULE ResolverEmit ----------------------------
(* B1 for C07: every (kind, shape, n) case of the reference-graph families.   *)
EXTENDS Resolver, Json, IOUtils, SequencesExt
CONSTANT Limit
Cases == {[kind |-> k, shape |-> "chain", n |-> n] : k \in Kinds, n \in 1..3}
         \cup {[kind |-> k, shape |-> "cross", n |-> n] : k \in Kinds, n \in 1..2}
         \cup {[kind |-> k, shape |-> "cycle", n |-> n] : k \in Kinds, n \in 1..3}
         \cup {[kind |-> k, shape |-> "deep", n |-> Limit + 1] : k \in Kinds}
         \cup {[kind |-> "schema", shape |-> "diamond", n |-> n] : n \in 1..2}
         \* one of two referrers of a schema writes a keyword beside its $ref (n: 1 default, 2 enum)
         \cup {[kind |-> "schema", shape |-> "sibling", n |-> n] : n \in 1..2}
         \* a lookup that is allowed to fail: the mapping of a discriminator in a second file names
         \* its variants by file name (first tried as a component name there), and a local reference
         \* of the root document is resolved afterwards in the same context (n: 1 request before
         \* response, 2 a webhook-free document with the local reference in a later operation)
         \cup {[kind |-> "schema", shape |-> "mapping", n |-> n] : n \in 1..2}
ASSUME ndJsonSerialize(IOEnv.VERIF_VECTORS, SetToSeq(Cases))
VARIABLE x
Init == x = 0
Next == x' = x
=============================================================================
