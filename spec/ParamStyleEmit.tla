--------------------------- MODULE ParamStyleEmit ---------------------------
(* B1 for C06: Mode "cfgs": every (loc, style, explode, shape) combination    *)
(* (admitted or not: admission itself is observed on the real parser and      *)
(* generator).  Mode "vals": every value of the bounded domain per shape.     *)
EXTENDS ParamStyleMC, Json, IOUtils, SequencesExt
CONSTANT Mode
Out == IF Mode = "cfgs" THEN SetToSeq(AllCfgs)
       ELSE SetToSeq(UNION {{[shape |-> s, prim |-> v.prim, arr |-> v.arr, obj |-> v.obj] : v \in Vals(s)} : s \in Shapes})
ASSUME ndJsonSerialize(IOEnv.VERIF_VECTORS, Out)
EInit == st = 0
ENext == UNCHANGED st
=============================================================================
