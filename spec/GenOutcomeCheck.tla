---------------------------- MODULE GenOutcomeCheck ----------------------------
(* Trace judgement for C11: one line per fault case: op, node kind, the         *)
(* outcome of the YAML spelling (y) and, when the mutated data is expressible   *)
(* in JSON, of the JSON spelling (j), each with the extent of the document      *)
(* line the diagnostic names.                                                   *)
EXTENDS GenOutcome, ObsLib
CONSTANT KnownDeviations
BadLoc(o) ==
  LET i == CHOOSE k \in 1..Len(o.locs) : ~LocOK(o.locs[k])
      x == o.locs[i] IN
  IF ~x.known THEN "diagnostic-names-a-file-outside-the-document-set"
  ELSE IF ~(x.line >= 1 /\ x.line <= x.nlines /\ x.col >= 1 /\ x.col <= x.linelen + 1) THEN "position-outside-the-named-file"
  ELSE "position-is-not-the-start-of-a-node-of-the-named-file"
Verdict(c) ==
  \* recorded finding: deep nesting is not refused but takes longer than the watchdog
  IF c.op = "nest_deep" /\ "Dev_DeepNestingSuperlinear" \in KnownDeviations
     /\ (c.y.kind = "timeout" \/ (c.hasJson /\ c.j.kind = "timeout"))
     /\ c.y.kind \in Terminal \cup {"timeout"} /\ (c.hasJson => c.j.kind \in Terminal \cup {"timeout"})
  THEN "known=Dev_DeepNestingSuperlinear"
  ELSE IF c.y.kind \notin Terminal THEN "viol-yaml-" \o c.y.kind
  ELSE IF c.hasJson /\ c.j.kind \notin Terminal THEN "viol-json-" \o c.j.kind
  ELSE IF \E i \in 1..Len(c.y.locs) : ~LocOK(c.y.locs[i]) THEN "viol-yaml-" \o BadLoc(c.y)
  ELSE IF c.hasJson /\ \E i \in 1..Len(c.j.locs) : ~LocOK(c.j.locs[i]) THEN "viol-json-" \o BadLoc(c.j)
  ELSE IF ~OutcomeOK(c.y, [nlines |-> c.y.nlines, linelen |-> c.y.linelen]) THEN "viol-yaml-position-outside-document"
  ELSE IF c.hasJson /\ ~OutcomeOK(c.j, [nlines |-> c.j.nlines, linelen |-> c.j.linelen]) THEN "viol-json-position-outside-document"
  ELSE IF ~Attributed(c.op, c.y) THEN "viol-yaml-position-outside-the-offending-node"
  ELSE IF c.hasJson /\ ~Attributed(c.op, c.j) THEN "viol-json-position-outside-the-offending-node"
  ELSE IF ~ControlOK(c) THEN "harness-control-document-rejected"
  ELSE IF ~Alike(c) THEN "viol-spellings-end-differently"
  ELSE "ok"
VARIABLE l
Init == l = 0
Next == l < Len(Obs) /\ l' = l + 1 /\ Report(l', Verdict(Obs[l']))
=============================================================================
