----------------------------- MODULE GenCLICheck -----------------------------
(* Trace validation for C20: per scenario one "scn" line, the mutating        *)
(* syscall events under the target directory that strace saw, one "end" line  *)
(* with the exit code and the before/after snapshot.                          *)
EXTENDS GenCLI, ObsLib
VARIABLES l, s
Scn(o) == [failAt |-> o.failAt, clean |-> o.clean, absent |-> o.absent, fs0 |-> {o.fs0[i] : i \in 1..Len(o.fs0)}]
End(o) == [exit |-> o.exit, after |-> {o.after[i] : i \in 1..Len(o.after)}, extra |-> {o.extra[i] : i \in 1..Len(o.extra)}, dirExists |-> o.dirExists]
Init == l = 0 /\ s = Begin([failAt |-> "none", clean |-> FALSE, absent |-> FALSE, fs0 |-> {}])
Next == /\ l < Len(Obs) /\ l' = l + 1
        /\ LET o == Obs[l'] IN
           CASE o.k = "scn" -> s' = Begin(Scn(o))
             [] o.k = "ev" -> LET n == OnEvent(s, o) IN
                              s' = n /\ Report(l', IF n.phase = "bad" /\ s.phase # "bad" THEN "viol-event-" \o o.ev ELSE "ok")
             [] o.k = "end" -> s' = s /\ Report(l', IF s.phase = "bad" THEN "ok" ELSE IF AtEnd(s, End(o)) THEN "ok" ELSE "viol-end")
=============================================================================
