--------------------------- MODULE SchemaValidEmit ---------------------------
(* B1 for C03/C04: the schema domain and the canonical instance sequence.      *)
EXTENDS SchemaValid, Json, IOUtils, SequencesExt
CONSTANT Mode
Insts == SetToSeq(Instances)
EmitOut == IF Mode = "schemas" THEN SetToSeq({[schema |-> s] : s \in Schemas})
           ELSE IF Mode = "defs" THEN SetToSeq({[name |-> n, schema |-> Defs[n]] : n \in DOMAIN Defs})
           ELSE IF Mode = "syms" THEN SetToSeq({[sym |-> x, len |-> SymInfo[x].len, hasb |-> SymInfo[x].hasb] : x \in DOMAIN SymInfo})
           ELSE [i \in 1..Len(Insts) |-> [v |-> Insts[i]]]
ASSUME ndJsonSerialize(IOEnv.VERIF_VECTORS, EmitOut)
VARIABLE x
Init == x = 0
Next == x' = x
=============================================================================
