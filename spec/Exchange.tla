------------------------------- MODULE Exchange -------------------------------
(***************************************************************************)
(* C01 -- generated client and server exchange values without silent       *)
(* change.                                                                 *)
(*                                                                         *)
(* One exchange:  caller --args--> Client.Op --wire--> Server --decode-->    *)
(* middleware(Body, Params) --> Handler(args') --resp--> Server --wire-->    *)
(* Client --resp'--> caller.                                                *)
(* Abstract statement: args' = WithDefaults(args), the middleware saw args', *)
(* resp' = resp (variant, status, headers, body); a value the declared      *)
(* serialization cannot carry makes one side report an error (client error  *)
(* or 4xx) -- it is never delivered as a different value; values of the     *)
(* core domain are always delivered.                                        *)
(*                                                                         *)
(* Values are tagged: Absent | Str(bytes) | Int(n) | Arr(<<..>>) |          *)
(* Obj(<<field values in declared order, Absent for a missing one>>) |      *)
(* Null | Nil (a nil slice on the Go side).  Parameter rows are those of    *)
(* spec/ParamStyle.tla (location, style, explode, shape) + the Go type of   *)
(* a primitive (str | int).                                                 *)
(***************************************************************************)
EXTENDS ParamStyle

Absent == [t |-> "absent"]
Null == [t |-> "null"]
Nil == [t |-> "nil"]
Str(s) == [t |-> "str", s |-> s]
IntV(n) == [t |-> "int", n |-> n]
\* numbers and instants are opaque canonical texts (shortest round-trip decimal; RFC 3339 UTC)
NumT(x) == [t |-> "num", x |-> x]
TimeT(x) == [t |-> "time", x |-> x]
Arr(v) == [t |-> "arr", v |-> v]
Obj(m) == [t |-> "obj", m |-> m]

(*************************** parameters: abstract **************************)
AMP == 38
LBR == 91
\* the delimiters of a row: a text containing one is outside the core domain
Delims(c) ==
  {ItemSep(c)} \cup (IF c.shape = "obj" THEN {KvSep(c), FieldSep(c), COMMA} ELSE {})
  \cup (IF c.style = "label" THEN {DOT} ELSE {}) \cup (IF c.style = "matrix" THEN {SEMI, EQ} ELSE {})
  \cup (IF c.style = "deepObject" THEN {LBR, 93} ELSE {})
CoreStr(c, v) == v.t = "str" /\ v.s # <<>> /\ \A i \in 1..Len(v.s) : v.s[i] \notin Delims(c)
\* the core domain of a row: always delivered
Core(c, v) ==
  CASE v.t \in {"int", "num", "time"} -> TRUE      \* finite numbers, times at the format's resolution
    [] v.t = "str" -> CoreStr(c, v)
    [] v.t = "arr" -> v.v # <<>> /\ \A i \in 1..Len(v.v) : CoreStr(c, v.v[i])
    [] v.t = "obj" -> (\E i \in 1..Len(v.m) : v.m[i] # Absent) /\ \A i \in 1..Len(v.m) : v.m[i] = Absent \/ CoreStr(c, v.m[i])
    [] OTHER -> FALSE
\* what the receiving side has to see
Expected(group, sent) == IF sent = Absent /\ group = "dflt" THEN Str(<<100, 118>>) ELSE sent
\* "nothing there" has one serialization: an empty array, a nil slice, an object without
\* members and an absent optional parameter are the same thing on the wire
Nothing(v) == v \in {Absent, Nil} \/ (v.t = "arr" /\ v.v = <<>>) \/ (v.t = "obj" /\ \A i \in 1..Len(v.m) : v.m[i] = Absent)
SameValue(a, b) == a = b \/ (Nothing(a) /\ Nothing(b))

\* outcome: "ok" (handler ran) | "client_err" | "refused_4xx" | anything else
ParamOK(c, group, sent, outcome, got, mwgot) ==
  CASE outcome = "ok" -> SameValue(Expected(group, sent), got) /\ SameValue(got, mwgot)
    [] outcome \in {"client_err", "refused_4xx"} ->
         \* an error is admissible only for a value outside the core domain; a required
         \* parameter that is "nothing" cannot be carried either
         sent # Absent /\ ~Core(c, sent)
    [] OTHER -> FALSE

(************************ parameters: implementation ***********************)
\* Dev_EmptyArrayCollision: in a row that joins the members of an array into one text, the
\* array without members and the array holding one empty text have the same serialization
\* (an empty header / cookie value, `p=`); one of the two arrives as the other (which one
\* depends on the row) instead of being refused
Collides(v) == v \in {Absent, Nil} \/ (v.t = "arr" /\ (v.v = <<>> \/ v.v = <<Str(<<>>)>>))
ImplEmptyArray(c, sent, outcome, got) == c.shape = "arr" /\ Joined(c) /\ outcome = "ok" /\ sent.t = "arr" /\ Collides(sent) /\ Collides(got)

\* Dev_HeaderValueTrimmed: an HTTP field value cannot carry leading or trailing blanks
\* (net/http strips them); the header encoder does not refuse such a text
Blank(x) == x \in {32, 9}
Trim(s) == IF s # <<>> /\ Blank(s[1]) THEN SubSeq(s, 2, Len(s)) ELSE IF s # <<>> /\ Blank(s[Len(s)]) THEN SubSeq(s, 1, Len(s) - 1) ELSE s
ImplHeaderTrim(c, sent, outcome, got) == c.loc = "header" /\ c.shape = "prim" /\ outcome = "ok" /\ sent.t = "str" /\ got.t = "str" /\ got.s # sent.s /\ got.s = Trim(sent.s)

(***************************** bodies: abstract ****************************)
\* Body = {n: integer (required), s: string default "sd", on: nullable string, l: [integer],
\*         dn: nullable string with `default: null`, required,
\*         u: integer of format unix-seconds (an instant at the resolution of a second)}
BodyExpected(b) == [b EXCEPT !.m[2] = IF b.m[2] = Absent THEN Str(<<115, 100>>) ELSE b.m[2]]
SameBody(a, b) == a.t = "obj" /\ b.t = "obj" /\ Len(a.m) = Len(b.m) /\ \A i \in 1..Len(a.m) : SameValue(a.m[i], b.m[i])
BodyOK(sent, outcome, got, mwgot) ==
  outcome = "ok" /\ SameBody(BodyExpected(sent), got) /\ SameBody(got, mwgot)

\* Form = {a: string (required), n: integer, l: [string], d: string default "fd",
\*         dn: nullable string with `default: null`}, carried as
\* application/x-www-form-urlencoded or multipart/form-data
\* (an absent dn may arrive as absent or as null -- "no value" either way; the harness reports both
\* as absent; a dn that was given arrives as given)
FormExpected(b) == [b EXCEPT !.m[4] = IF b.m[4] = Absent THEN Str(<<102, 100>>) ELSE b.m[4]]
FormOK(sent, outcome, got, mwgot) ==
  outcome = "ok" /\ SameBody(FormExpected(sent), got) /\ SameBody(got, mwgot)

(**************************** responses: abstract **************************)
\* declared responses of the response operation: 200 (header + body), 201 (no content),
\* 4XX (header + body + status code), default (header + body + status code)
Variants == {"ok200", "created201", "pat4XX", "default"}
HasCode(v) == v \in {"pat4XX", "default"}
\* can the declared responses carry <<variant, code>>?
\* (a coded variant has a body: informational codes, 204 and 304 cannot carry one)
NoBodyCode(k) == (k >= 100 /\ k <= 199) \/ k \in {204, 304}
Carriable(v, k) ==
  CASE v = "pat4XX" -> k >= 400 /\ k <= 499
    [] v = "default" -> k >= 100 /\ k <= 599 /\ k \notin {200, 201} /\ ~(k >= 400 /\ k <= 499) /\ ~NoBodyCode(k)
    [] OTHER -> TRUE
\* the caller's view: outcome "ok" with <<variant', code', payload'>> or an error
RespOK(v, k, payload, outcome, v2, k2, payload2) ==
  IF Carriable(v, k)
  THEN outcome = "ok" /\ v2 = v /\ (HasCode(v) => k2 = k) /\ payload2 = payload
  ELSE outcome \in {"client_err", "server_err"}

(************************ responses: implementation ************************)
\* response_encode.tmpl: a coded variant is written with its own StatusCode, the others
\* with their fixed code; response_decode.tmpl: exact code, then pattern, then default
Wire(v, k) == CASE v = "ok200" -> 200 [] v = "created201" -> 201 [] OTHER -> k
Pick(status) ==
  CASE status = 200 -> "ok200" [] status = 201 -> "created201"
    [] status >= 400 /\ status <= 499 -> "pat4XX"
    [] OTHER -> "default"
\* Dev_ResponseCodeUnchecked: the server writes whatever StatusCode the handler put into a
\* coded variant (0 is written as 200 by net/http), and the client picks the variant by
\* the status it reads: an uncarriable <<variant, code>> arrives as another variant
\* (net/http sends an informational code as an interim response; the final one is then 200)
ImplResp(v, k) == LET w == IF HasCode(v) /\ (k = 0 \/ (k >= 100 /\ k <= 199)) THEN 200 ELSE Wire(v, k) IN <<Pick(w), w>>

(**************** responses: any declared set (exact / class / default) *****************)
\* d = [exact |-> set of codes, pats |-> set of classes 1..5, dflt |-> BOOLEAN]; a variant is
\* [kind |-> "code", n |-> code] | [kind |-> "pat", n |-> class] | [kind |-> "default", n |-> 0].
\* A coded variant (pat / default) belongs to the codes no more specific declaration owns.
ClassOf(k) == k \div 100
CarriableD(d, v, k) ==
  CASE v.kind = "code" -> v.n \in d.exact
    [] v.kind = "pat" -> v.n \in d.pats /\ ClassOf(k) = v.n /\ k \notin d.exact /\ ~NoBodyCode(k)
    [] v.kind = "default" -> d.dflt /\ k >= 100 /\ k <= 599 /\ k \notin d.exact /\ ClassOf(k) \notin d.pats /\ ~NoBodyCode(k)
    [] OTHER -> FALSE
RespOKD(d, v, k, payload, outcome, v2, k2, payload2) ==
  IF CarriableD(d, v, k)
  THEN outcome = "ok" /\ v2 = v /\ (v.kind # "code" => k2 = k) /\ payload2 = payload
  ELSE outcome \in {"client_err", "server_err"}
\* implementation: written with the variant's own code, picked exact -> class -> default
PickD(d, status) ==
  IF status \in d.exact THEN [kind |-> "code", n |-> status]
  ELSE IF ClassOf(status) \in d.pats THEN [kind |-> "pat", n |-> ClassOf(status)]
  ELSE IF d.dflt THEN [kind |-> "default", n |-> 0] ELSE [kind |-> "none", n |-> 0]
ImplRespD(d, v, k) ==
  LET w == IF v.kind = "code" THEN v.n ELSE IF k = 0 \/ (k >= 100 /\ k <= 199) THEN 200 ELSE k
  IN <<PickD(d, w), w>>

(******************************* media types ********************************)
\* A body declares a set D of media entries <<type, subtype>>; an entry may be a mask
\* ("image/*", "*/*").  A value of the generated request / response type names the entry it
\* is a variant of and the concrete media type it travels as (a variant that has no type
\* field of its own travels as its entry).  Only the media type crosses the wire, so the
\* receiving side can name the variant again only when the entry is the most specific
\* declared one that matches the type.
MatchMT(e, ct) == (e[1] = "*" \/ e[1] = ct[1]) /\ (e[2] = "*" \/ e[2] = ct[2])
StarsMT(e) == (IF e[1] = "*" THEN 1 ELSE 0) + (IF e[2] = "*" THEN 1 ELSE 0)
\* (a mask handed over as the type is carried like any other text: it matches itself)
WellFormedMT(ct) == ct[1] # "" /\ ct[2] # ""
MediaCarriable(D, e, ct) ==
  /\ e \in D /\ WellFormedMT(ct) /\ MatchMT(e, ct)
  /\ (StarsMT(e) = 0 => ct = e)
  /\ \A f \in D \ {e} : MatchMT(f, ct) => StarsMT(f) > StarsMT(e)
MediaOK(D, e, ct, payload, outcome, e2, ct2, payload2) ==
  IF MediaCarriable(D, e, ct)
  THEN outcome = "ok" /\ e2 = e /\ ct2 = ct /\ payload2 = payload
  ELSE outcome \in {"client_err", "refused_4xx", "server_err"}
\* implementation: the sender writes the variant's type field when it has one; the receiver
\* takes the first declared entry that matches, exact entries before masks
ImplPickMT(D, ct) ==
  IF \E f \in D : StarsMT(f) = 0 /\ f = ct THEN ct
  ELSE IF \E f \in D : MatchMT(f, ct) THEN CHOOSE f \in D : MatchMT(f, ct) /\ \A g \in D : MatchMT(g, ct) => StarsMT(g) >= StarsMT(f)
  ELSE <<"", "">>
\* Dev_ContentTypeOverridesVariant: every variant of a response that declares a mask gets a
\* ContentType field, also the variants of exact entries; whatever it holds replaces the
\* entry's own type on the wire, and the caller is handed the variant that type selects
ImplMediaOverride(D, e, ct, outcome, e2, ct2) ==
  StarsMT(e) = 0 /\ ct # e /\ WellFormedMT(ct) /\ outcome = "ok" /\ e2 = ImplPickMT(D, ct) /\ e2 # <<"", "">> /\ ct2 = ct
=============================================================================
