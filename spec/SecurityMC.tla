----------------------------- MODULE SecurityMC -----------------------------
(* Exhaustive: every requirement structure (sequence of <= MaxAlts distinct   *)
(* alternatives over schemes 0..N-1, plus the byte-boundary structures of     *)
(* Wide) x every credential assignment, one pc step per transition.           *)
EXTENDS Security
CONSTANTS N, MaxAlts, Devs
VARIABLES reqs, notImpl, cred, st

Schemes == 0..(N - 1)
Alts == SUBSET Schemes
RECURSIVE SeqsUpTo(_, _)
SeqsUpTo(S, n) == IF n = 0 THEN {<<>>} ELSE LET R == SeqsUpTo(S, n - 1) IN R \cup {Append(s, c) : s \in {t \in R : Len(t) = n - 1}, c \in S}
Structures == {q \in SeqsUpTo(Alts, MaxAlts) : \A i, j \in 1..Len(q) : i # j => q[i] # q[j]}
Creds == [Schemes -> {"absent", "accept", "skip", "reject"}]

\* structures that cross byte boundaries of the mask (indexes 7/8, 15/16, 19)
W(n) == 0..(n - 1)
Wide == {<<W(9)>>, <<W(8), {8}>>, <<{0}, W(9) \ {0}>>, <<W(17)>>, <<W(16), {16}, {0, 16}>>, <<{7, 8}, {15, 16}>>, <<W(20)>>, <<{19}, {0}, {8, 16}>>}
WideCreds(q) == LET M == Mentioned(q) IN
   {[s \in 0..19 |-> IF s \in A THEN "accept" ELSE other] : A \in {M} \cup {M \ {x} : x \in M} \cup {{x} : x \in M} \cup {{}}, other \in {"absent", "skip"}}

Init == \/ /\ reqs \in Structures /\ notImpl = {} /\ cred \in Creds /\ st = InitRT
        \/ /\ reqs \in Wide /\ notImpl = {} /\ cred \in WideCreds(reqs) /\ st = InitRT
        \* generation-only structures with a not-implemented scheme (index bounds, S4)
        \/ /\ reqs \in Structures /\ notImpl \in {{x} : x \in Schemes} /\ cred = [s \in Schemes |-> "absent"] /\ st = [InitRT EXCEPT !.pc = "gen"]
\* the run-time machine as the statement demands it (no deviation switched on)
Next == st.pc \in {"check", "eval"} /\ st' = StepRT(st, reqs, notImpl, cred, {}) /\ UNCHANGED <<reqs, notImpl, cred>>
\* the fail-closed deviation is exactly: 401 where an alternative is satisfied and a mentioned credential is rejected
RejectDeviation == st.pc = "check" /\ st.i = 1 /\ notImpl = {} =>
  LET dev == ImplOutcome(reqs, notImpl, cred, {"Dev_RejectedCredentialDenies"}).pc
      fix == ImplOutcome(reqs, notImpl, cred, {}).pc IN
  (dev # fix) => (dev = "401" /\ Satisfiable(reqs, cred) /\ Rejected(cred) \cap Mentioned(reqs) # {})

\* S1-S3, S5: the run-time machine refines the abstract layer
Refines == st.pc \in {"handler", "401"} => st.pc \in Allowed(reqs, cred)
\* S4: byte/bit arithmetic == set inclusion over the accepted schemes
Arithmetic == st.pc = "eval" =>
   LET ord == Ord(reqs, notImpl) IN
   {ord[n + 1] : n \in st.sat} = {s \in Range(ord) : cred[s] = "accept"}
\* S4: constant indexes fit the array
Bounds == IndexesInRange(reqs, notImpl, Devs)
\* the SecurityHandler is consulted only for presented credentials, in index order
CallsOrdered == \A i, j \in 1..Len(st.calls) : i < j => IndexOf(Ord(reqs, notImpl), st.calls[i]) < IndexOf(Ord(reqs, notImpl), st.calls[j])
=============================================================================
