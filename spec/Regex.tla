-------------------------------- MODULE Regex --------------------------------
(***************************************************************************)
(* C08 -- ECMA-262 pattern semantics (Unicode-aware, no flags) for the     *)
(* portable grammar ogenregex converts, over an abstract alphabet with one *)
(* witness per class the two engines could treat differently.              *)
(*                                                                         *)
(*   a A _ 7   letter / upper letter / underscore / digit  (word chars)    *)
(*   dol       "$"  (identifier char that needs an identity escape)        *)
(*   sp nl cr vt  space, line feed, carriage return, vertical tab           *)
(*   ls bom    U+2028 (line terminator, ES whitespace), U+FEFF (ES ws)     *)
(*   ee as hi  U+00E9, U+1F600, U+2070E (an astral character above U+1FFFF)  *)
(*   nul bs dle  U+0000, U+0008, U+0010 (\cP: the two-hex-digit boundary)   *)
(*                                                                         *)
(* M(ast, s, i) = set of end positions of matches of ast starting at i     *)
(* (greedy/lazy are the same for the boolean, unanchored Search).          *)
(***************************************************************************)
EXTENDS Naturals, Sequences, FiniteSets, TLC, SequencesExt

Sigma == {"a", "A", "_", "7", "dol", "sp", "nl", "cr", "vt", "ls", "bom", "ee", "as", "hi", "nul", "bs", "dle", "hy"}
Word == {"a", "A", "_", "7"}
Digit == {"7"}
\* ECMA-262 WhiteSpace + LineTerminator
Space == {"sp", "nl", "cr", "vt", "ls", "bom"}
LineTerm == {"nl", "cr", "ls"}
Lower == {"a"}          \* a-z
Upper == {"A"}          \* A-Z

(******************************* atoms *************************************)
\* single-symbol escapes: r = pattern text, c = the symbol denoted
Escapes == {
  [t |-> "esc", r |-> "\\n", c |-> "nl"], [t |-> "esc", r |-> "\\v", c |-> "vt"], [t |-> "esc", r |-> "\\x61", c |-> "a"],
  [t |-> "esc", r |-> "\\u0061", c |-> "a"], [t |-> "esc", r |-> "\\u2028", c |-> "ls"], [t |-> "esc", r |-> "\\uFEFF", c |-> "bom"],
  [t |-> "esc", r |-> "\\ufeff", c |-> "bom"], [t |-> "esc", r |-> "\\xe9", c |-> "ee"], [t |-> "esc", r |-> "\\xE9", c |-> "ee"], [t |-> "esc", r |-> "\\u00e9", c |-> "ee"],
  [t |-> "esc", r |-> "\\cJ", c |-> "nl"], [t |-> "esc", r |-> "\\cj", c |-> "nl"], [t |-> "esc", r |-> "\\cK", c |-> "vt"], [t |-> "esc", r |-> "\\cH", c |-> "bs"],
  [t |-> "esc", r |-> "\\0", c |-> "nul"], [t |-> "esc", r |-> "\\x00", c |-> "nul"], [t |-> "esc", r |-> "\\$", c |-> "dol"], [t |-> "esc", r |-> "\\x24", c |-> "dol"],
  [t |-> "esc", r |-> "\\r", c |-> "cr"], [t |-> "esc", r |-> "\\cM", c |-> "cr"], [t |-> "esc", r |-> "\\cP", c |-> "dle"], [t |-> "esc", r |-> "\\cp", c |-> "dle"],
  [t |-> "esc", r |-> "\\x10", c |-> "dle"], [t |-> "esc", r |-> "\\u0010", c |-> "dle"], [t |-> "esc", r |-> "\\x20", c |-> "sp"], [t |-> "esc", r |-> "\\u0020", c |-> "sp"], [t |-> "esc", r |-> "\\x08", c |-> "bs"], [t |-> "esc", r |-> "\\u{1F600}", c |-> "as"] }
Lits == {[t |-> "lit", c |-> c] : c \in {"a", "A", "7", "sp", "ee", "as", "_"}}
ClassAtoms == {[t |-> x] : x \in {"dot", "d", "D", "w", "W", "s", "S", "empty", "any"}}
Anchors == {[t |-> x] : x \in {"bol", "eol", "wb", "nwb"}}
\* bracket expressions: items are drawn from ItemKinds
\* "hy" is the escaped hyphen \- (ClassEscape :: -): a literal '-' wherever it stands
ItemKinds == {"a", "7", "sp", "az", "AZ", "09", "d", "w", "s", "S", "W", "D", "b", "n", "dol", "ee", "as", "hy"}
ItemSet(k) == CASE k = "a" -> {"a"} [] k = "7" -> {"7"} [] k = "sp" -> {"sp"} [] k = "az" -> Lower [] k = "AZ" -> Upper [] k = "09" -> Digit
                [] k = "d" -> Digit [] k = "w" -> Word [] k = "s" -> Space [] k = "S" -> Sigma \ Space [] k = "W" -> Sigma \ Word [] k = "D" -> Sigma \ Digit
                [] k = "b" -> {"bs"} [] k = "n" -> {"nl"} [] k = "dol" -> {"dol"} [] k = "ee" -> {"ee"} [] k = "as" -> {"as"} [] k = "hy" -> {"hy"}
ItemText(k) == CASE k = "a" -> "a" [] k = "7" -> "7" [] k = "sp" -> " " [] k = "az" -> "a-z" [] k = "AZ" -> "A-Z" [] k = "09" -> "0-9"
                 [] k = "d" -> "\\d" [] k = "w" -> "\\w" [] k = "s" -> "\\s" [] k = "S" -> "\\S" [] k = "W" -> "\\W" [] k = "D" -> "\\D"
                 [] k = "b" -> "\\b" [] k = "n" -> "\\n" [] k = "dol" -> "$" [] k = "ee" -> "L:ee" [] k = "as" -> "L:as" [] k = "hy" -> "\\-"
Sets1 == {[t |-> "set", neg |-> n, items |-> <<k>>] : n \in BOOLEAN, k \in ItemKinds}
Sets2 == {[t |-> "set", neg |-> n, items |-> <<k1, k2>>] : n \in BOOLEAN, k1 \in {"a", "d", "s", "az", "S"}, k2 \in {"7", "w", "b", "sp", "W", "as"}}
\* the escaped hyphen between two atoms (it must not become a range), first and last
Sets3 == {[t |-> "set", neg |-> n, items |-> it] : n \in BOOLEAN, it \in {<<"7", "hy", "a">>, <<"sp", "hy", "a">>, <<"hy", "a">>, <<"a", "hy">>, <<"d", "hy", "w">>, <<"7", "hy", "7">>}}

Core == {[t |-> "lit", c |-> "a"], [t |-> "lit", c |-> "7"], [t |-> "lit", c |-> "sp"], [t |-> "dot"], [t |-> "d"], [t |-> "w"], [t |-> "s"], [t |-> "S"], [t |-> "W"],
         [t |-> "bol"], [t |-> "eol"], [t |-> "wb"], [t |-> "nwb"], [t |-> "esc", r |-> "\\n", c |-> "nl"], [t |-> "set", neg |-> TRUE, items |-> <<"s">>],
         [t |-> "set", neg |-> FALSE, items |-> <<"az", "7">>], [t |-> "any"], [t |-> "empty"]}
Atoms == Escapes \cup Lits \cup ClassAtoms \cup Anchors \cup Sets1 \cup Sets2 \cup Sets3

(**************************** constructors *********************************)
\* "ngroup" is a named group (?<n>...): a capturing group as far as matching goes
Unary == {"star", "plus", "opt", "lstar", "lplus", "lopt", "group", "nc", "ngroup", "rep02", "rep2", "rep11"}
Look == {"la", "nla", "lb", "nlb"}
U(u, e) == [t |-> u, e |-> e]
B(b, l, r) == [t |-> b, l |-> l, r |-> r]
\* quantifiers apply to atoms that consume input (ECMA-262 forbids quantified assertions)
Quant == Unary \ {"group", "nc", "ngroup"}
Size2 == {U(u, a) : u \in Quant, a \in Atoms \ Anchors} \cup {U(u, a) : u \in {"group", "nc"}, a \in Atoms} \cup {U("ngroup", a) : a \in Core}
CoreC == Core \ Anchors
Size3 == {U(u, x) : u \in {"star", "plus", "opt", "lplus", "group", "nc", "rep2"}, x \in {U(v, a) : v \in {"nc", "group"}, a \in Core}}
         \cup {U(u, x) : u \in {"group", "nc"}, x \in {U(v, a) : v \in {"star", "plus", "opt"}, a \in CoreC}}
         \cup {B(b, l, r) : b \in {"cat", "alt"}, l \in Core, r \in Core}
Size4 == {B(b, l, r) : b \in {"cat", "alt"}, l \in {U(u, a) : u \in {"star", "plus", "opt"}, a \in CoreC}, r \in Core}
         \cup {B(b, l, r) : b \in {"cat", "alt"}, l \in Core, r \in {U(u, a) : u \in {"star", "opt"}, a \in CoreC}}
         \cup {U(u, B(b, l, r)) : u \in {"star", "plus", "opt", "nc", "group"}, b \in {"cat", "alt"}, l \in Core, r \in Core}
\* constructs that cannot be expressed in the linear-time engine: must run on the backtracking one
Opaque == {U(u, a) : u \in Look, a \in Core}
          \cup {B("cat", U("group", a), [t |-> "backref"]) : a \in Core}
          \* a named group referred to by name: \k<n> is a back-reference, never the text "k<n>"
          \cup {B("cat", U("ngroup", a), [t |-> "kref"]) : a \in Core}
          \cup {B("cat", a, U(u, b)) : a \in {[t |-> "lit", c |-> "a"], [t |-> "w"]}, u \in Look, b \in {[t |-> "lit", c |-> "7"], [t |-> "s"]}}

\* whole-text patterns ^...$ (the usual form of a JSON Schema `pattern`): both anchors around
\* an atom, a quantified atom, a two-atom sequence or alternative
Anch(x) == B("cat", [t |-> "bol"], B("cat", x, [t |-> "eol"]))
Small3 == {[t |-> "lit", c |-> "a"], [t |-> "lit", c |-> "7"], [t |-> "d"]}
Anchored == {Anch(x) : x \in CoreC \cup {U(u, a) : u \in {"star", "plus", "opt", "rep2"}, a \in CoreC}
                              \cup {B(b, l, r) : b \in {"cat", "alt"}, l \in Small3, r \in Small3}
                              \cup {U("nc", B("cat", [t |-> "lit", c |-> "a"], [t |-> "lit", c |-> "7"])), U("rep2", [t |-> "set", neg |-> FALSE, items |-> <<"a">>])}}

RECURSIVE MustFallback(_)
MustFallback(a) ==
  CASE a.t \in Look \/ a.t \in {"backref", "kref"} -> TRUE
    [] a.t \in {"cat", "alt"} -> MustFallback(a.l) \/ MustFallback(a.r)
    [] a.t \in Unary -> MustFallback(a.e)
    [] OTHER -> FALSE

(******************************* semantics *********************************)
IsW(s, i) == i >= 1 /\ i <= Len(s) /\ s[i] \in Word
ClassOf(a) ==
  CASE a.t = "lit" -> {a.c} [] a.t = "esc" -> {a.c}
    [] a.t = "dot" -> Sigma \ LineTerm [] a.t = "d" -> Digit [] a.t = "D" -> Sigma \ Digit
    [] a.t = "w" -> Word [] a.t = "W" -> Sigma \ Word [] a.t = "s" -> Space [] a.t = "S" -> Sigma \ Space
    [] a.t = "any" -> Sigma [] a.t = "empty" -> {}
    [] a.t = "set" -> LET u == UNION {ItemSet(a.items[k]) : k \in 1..Len(a.items)} IN IF a.neg THEN Sigma \ u ELSE u
IsClass(a) == a.t \in {"lit", "esc", "dot", "d", "D", "w", "W", "s", "S", "any", "empty", "set"}

RECURSIVE M(_, _, _), Clo(_, _, _, _), Rep(_, _, _, _)
M(a, s, i) ==
  CASE IsClass(a) -> IF i < Len(s) /\ s[i + 1] \in ClassOf(a) THEN {i + 1} ELSE {}
    [] a.t = "bol" -> IF i = 0 THEN {i} ELSE {}
    [] a.t = "eol" -> IF i = Len(s) THEN {i} ELSE {}
    [] a.t = "wb" -> IF IsW(s, i) # IsW(s, i + 1) THEN {i} ELSE {}
    [] a.t = "nwb" -> IF IsW(s, i) = IsW(s, i + 1) THEN {i} ELSE {}
    [] a.t = "cat" -> UNION {M(a.r, s, j) : j \in M(a.l, s, i)}
    [] a.t = "alt" -> M(a.l, s, i) \cup M(a.r, s, i)
    [] a.t \in {"opt", "lopt"} -> {i} \cup M(a.e, s, i)
    [] a.t \in {"star", "lstar"} -> Clo(a.e, s, {i}, {i})
    [] a.t \in {"plus", "lplus"} -> LET F == M(a.e, s, i) IN Clo(a.e, s, F, F)
    [] a.t \in {"group", "nc", "ngroup"} -> M(a.e, s, i)
    [] a.t = "rep02" -> Rep(a.e, s, {i}, 2) \cup {i} \cup M(a.e, s, i)         \* {0,2}
    [] a.t = "rep2" -> Rep(a.e, s, {i}, 2)                                      \* {2}
    [] a.t = "rep11" -> LET F == M(a.e, s, i) IN Clo(a.e, s, F, F)              \* {1,}
    [] a.t = "la" -> IF M(a.e, s, i) # {} THEN {i} ELSE {}
    [] a.t = "nla" -> IF M(a.e, s, i) = {} THEN {i} ELSE {}
    [] a.t = "lb" -> IF \E j \in 0..i : i \in M(a.e, s, j) THEN {i} ELSE {}
    [] a.t = "nlb" -> IF \E j \in 0..i : i \in M(a.e, s, j) THEN {} ELSE {i}
Clo(e, s, seen, front) ==
  LET nx == (UNION {M(e, s, j) : j \in front}) \ seen IN
  IF nx = {} THEN seen ELSE Clo(e, s, seen \cup nx, nx)
Rep(e, s, from, n) == IF n = 0 THEN from ELSE Rep(e, s, UNION {M(e, s, j) : j \in from}, n - 1)

\* JSON Schema `pattern`: unanchored search
Search(a, s) == \E i \in 0..Len(s) : M(a, s, i) # {}

(******************************* rendering *********************************)
\* pattern text as a token sequence; tokens "L:<sym>" are replaced by the concrete
\* character of the symbol by the harness, everything else is literal pattern text
Atomic(a) == IsClass(a) \/ a.t \in {"bol", "eol", "wb", "nwb", "group", "nc", "ngroup", "backref", "kref"} \/ a.t \in Look
RECURSIVE Render(_)
Wrap(a) == IF Atomic(a) THEN Render(a) ELSE <<"(?:">> \o Render(a) \o <<")">>
Render(a) ==
  CASE a.t = "lit" -> <<"L:" \o a.c>>
    [] a.t = "esc" -> <<a.r>>
    [] a.t = "dot" -> <<".">> [] a.t = "d" -> <<"\\d">> [] a.t = "D" -> <<"\\D">> [] a.t = "w" -> <<"\\w">> [] a.t = "W" -> <<"\\W">>
    [] a.t = "s" -> <<"\\s">> [] a.t = "S" -> <<"\\S">> [] a.t = "any" -> <<"[^]">> [] a.t = "empty" -> <<"[]">>
    [] a.t = "set" -> <<IF a.neg THEN "[^" ELSE "[">> \o [k \in 1..Len(a.items) |-> ItemText(a.items[k])] \o <<"]">>
    [] a.t = "bol" -> <<"^">> [] a.t = "eol" -> <<"$">> [] a.t = "wb" -> <<"\\b">> [] a.t = "nwb" -> <<"\\B">>
    [] a.t = "backref" -> <<"\\1">> [] a.t = "kref" -> <<"\\k<n>">>
    [] a.t = "cat" -> (IF a.l.t = "alt" THEN Wrap(a.l) ELSE Render(a.l)) \o (IF a.r.t = "alt" THEN Wrap(a.r) ELSE Render(a.r))
    [] a.t = "alt" -> Render(a.l) \o <<"|">> \o Render(a.r)
    [] a.t = "star" -> Wrap(a.e) \o <<"*">> [] a.t = "plus" -> Wrap(a.e) \o <<"+">> [] a.t = "opt" -> Wrap(a.e) \o <<"?">>
    [] a.t = "lstar" -> Wrap(a.e) \o <<"*?">> [] a.t = "lplus" -> Wrap(a.e) \o <<"+?">> [] a.t = "lopt" -> Wrap(a.e) \o <<"??">>
    [] a.t = "rep02" -> Wrap(a.e) \o <<"{0,2}">> [] a.t = "rep2" -> Wrap(a.e) \o <<"{2}">> [] a.t = "rep11" -> Wrap(a.e) \o <<"{1,}">>
    [] a.t = "group" -> <<"(">> \o Render(a.e) \o <<")">> [] a.t = "nc" -> <<"(?:">> \o Render(a.e) \o <<")">>
    [] a.t = "ngroup" -> <<"(?<n>">> \o Render(a.e) \o <<")">>
    [] a.t = "la" -> <<"(?=">> \o Render(a.e) \o <<")">> [] a.t = "nla" -> <<"(?!">> \o Render(a.e) \o <<")">>
    [] a.t = "lb" -> <<"(?<=">> \o Render(a.e) \o <<")">> [] a.t = "nlb" -> <<"(?<!">> \o Render(a.e) \o <<")">>

RECURSIVE SeqsUpTo(_, _)
SeqsUpTo(S, n) == IF n = 0 THEN {<<>>}
                  ELSE LET R == SeqsUpTo(S, n - 1) IN R \cup {Append(s, c) : s \in {t \in R : Len(t) = n - 1}, c \in S}
\* the canonical subject order shared by emitter and checker
Subjects(n) == SetToSeq(SeqsUpTo(Sigma, n))
=============================================================================
