---------------------------- MODULE JSONEqualMC ----------------------------
(* Exhaustive check over all ordered pairs of the bounded spelling domain:   *)
(* the transcription of json/equal.go agrees with semantic equality, and is  *)
(* reflexive and symmetric (also for texts with repeated member names).      *)
EXTENDS JSONEqual
CONSTANT Devs
VARIABLE st
D == Scalars \cup Arrs \cup Objs
Init == st \in {[a |-> a, b |-> b, pc |-> "start", res |-> FALSE] : a \in D, b \in D}
Next == st.pc = "start" /\ st' = [st EXCEPT !.pc = "done", !.res = ImplEqual(st.a, st.b, Devs)]
Refines == st.pc = "done" /\ ~HasDup(st.a) /\ ~HasDup(st.b) => st.res = SemEqual(st.a, st.b)
Symmetric == st.pc = "done" => st.res = ImplEqual(st.b, st.a, Devs)
Reflexive == st.pc = "done" /\ st.a = st.b => st.res
\* with last-member-wins denotation the relation is exact on repeated names too
RefinesDup == st.pc = "done" => st.res = SemEqual(st.a, st.b)
=============================================================================
