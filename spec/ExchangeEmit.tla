----------------------------- MODULE ExchangeEmit -----------------------------
(* B1 for C01: parameter rows, value domains per shape, bodies, responses.       *)
EXTENDS Exchange, Json, IOUtils, SequencesExt
CONSTANT Mode
A == 97
PrimStrs == {<<A>>, <<A, 98>>, <<>>, <<A, COMMA, 98>>, <<A, DOT, 98>>, <<A, SEMI, 98>>, <<A, EQ, 98>>, <<A, PIPE, 98>>, <<A, 32, 98>>,
             <<195, 169>>, <<PCT, 52, 49>>, <<A, 47, 98>>, <<A, AMP, 98>>, <<43>>, <<63>>, <<35>>, <<A, LBR, 98, 93>>, <<DOT>>, <<SEMI, A>>, <<32, A>>, <<A, 32>>, <<9, A>>,
             \* a plus sign next to a byte that makes the client escape the path ('/', ',', ';')
             <<43, 47, 98>>, <<A, 43, COMMA, 98>>, <<A, 43, 98, SEMI, 99>>}
Ints == {0, 7, 0 - 1}
Arrs == {<<Str(<<A>>)>>, <<Str(<<A>>), Str(<<98>>)>>, <<>>, <<Str(<<>>)>>, <<Str(<<A, COMMA, 98>>)>>, <<Str(<<A>>), Str(<<>>)>>, <<Str(<<A, PIPE, 98>>)>>,
         <<Str(<<A, 32, 98>>), Str(<<195, 169>>)>>, <<Str(<<A, DOT, 98>>)>>, <<Str(<<A, SEMI, 98>>), Str(<<A>>)>>, <<Str(<<A, EQ, 98>>)>>, <<Str(<<A, AMP, 98>>), Str(<<PCT, 52, 49>>)>>}
Objs == {<<Str(<<A>>), Absent>>, <<Str(<<A>>), Str(<<98>>)>>, <<Absent, Absent>>, <<Str(<<>>), Absent>>, <<Str(<<120, COMMA, 121>>), Absent>>, <<Str(<<120, EQ, 121>>), Str(<<98>>)>>,
         <<Absent, Str(<<A, DOT, 98>>)>>, <<Str(<<A, SEMI, 98>>), Absent>>, <<Str(<<A, AMP, 98>>), Absent>>, <<Str(<<A, 32, 98>>), Str(<<195, 169>>)>>, <<Str(<<A, LBR, 98, 93>>), Absent>>}
ValsOf(shape, ty) ==
  CASE shape = "prim" /\ ty = "str" -> {Str(s) : s \in PrimStrs}
    [] shape = "prim" /\ ty = "int" -> {IntV(n) : n \in Ints}
    [] shape = "prim" /\ ty = "num" -> {NumT(x) : x \in {"0.5", "-2.5", "0", "1e-11", "3.141592653589793", "1e+21", "1.23456789125e+08", "1.0000000000001"}}
    [] shape = "prim" /\ ty = "dt" -> {TimeT(x) : x \in {"2020-01-02T03:04:05Z", "2020-01-02T03:04:05.5Z", "1999-12-31T23:59:59.999999999Z"}}
    \* format: date -- the value is a calendar day (written here as its UTC midnight); the harness
    \* hands the generated client the same day as a time.Time in other zones, where the instant
    \* falls on the neighbouring UTC day
    [] shape = "prim" /\ ty = "date" -> {TimeT(x) : x \in {"2024-03-01T00:00:00Z", "2024-12-31T00:00:00Z", "2020-02-29T00:00:00Z"}}
    [] shape = "arr" -> {Arr(a) : a \in Arrs}
    [] shape = "obj" -> {Obj(o) : o \in Objs}
Rows == {[c |-> c, ty |-> ty] : c \in {x \in AllCfgs : Admitted(x)}, ty \in {"str", "int", "num", "dt", "date"}} \ {r \in [c : AllCfgs, ty : {"int", "num", "dt", "date"}] : r.c.shape # "prim"}
\* instants of the unix-seconds member: today, the last second of year 9999, the year 1600 (both more
\* than 2^63 nanoseconds away from 1970) and one second before the epoch
Instants == {Absent, TimeT("2020-01-02T03:04:05Z"), TimeT("9999-12-31T23:59:59Z"), TimeT("1600-01-01T00:00:00Z"), TimeT("1969-12-31T23:59:59Z")}
Bodies == {Obj(<<IntV(1), s, on, l, dn, Absent>>) : s \in {Absent, Str(<<120>>), Str(<<>>)}, on \in {Absent, Null, Str(<<121>>)}, l \in {Absent, Arr(<<>>), Arr(<<IntV(1), IntV(2)>>)}, dn \in {Null, Str(<<122>>)}}
          \cup {Obj(<<IntV(1), Absent, Absent, Absent, Null, u>>) : u \in Instants}
FormStrs == {Str(<<120>>), Str(<<A, 32, 98>>), Str(<<A, AMP, 98, EQ, 99>>), Str(<<195, 169>>), Str(<<43>>), Str(<<PCT, 52, 49>>), Str(<<A, 10, 98>>), Str(<<>>), Str(<<59>>)}
Forms == {Obj(<<a, n, l, d, dn>>) : a \in FormStrs, n \in {Absent, IntV(7)}, l \in {Absent, Arr(<<Str(<<112>>), Str(<<113, COMMA, 114>>)>>)}, d \in {Absent, Str(<<122>>)}, dn \in {Absent, Str(<<113>>)}}
RespCodes == {0, 100, 200, 201, 204, 302, 400, 404, 499, 500, 599}
Resps == {[v |-> v, k |-> 0, hdr |-> h] : v \in {"ok200"}, h \in {Absent, Str(<<104>>), Str(<<A, 32, 98, COMMA, 99>>)}} \cup {[v |-> "created201", k |-> 0, hdr |-> Absent]}
         \cup {[v |-> v, k |-> k, hdr |-> h] : v \in {"pat4XX", "default"}, k \in RespCodes, h \in {Absent, Str(<<104, 52>>)}}
EmitOut ==
  CASE Mode = "rows" -> SetToSeq(Rows)
    [] Mode = "vals" -> SetToSeq(UNION {{[shape |-> sh, ty |-> ty, v |-> v] : v \in ValsOf(sh, ty)} : sh \in Shapes, ty \in {"str"}} \cup {[shape |-> "prim", ty |-> ty, v |-> v] : <<ty, v>> \in UNION {{<<t, w>> : w \in ValsOf("prim", t)} : t \in {"int", "num", "dt", "date"}}})
    [] Mode = "bodies" -> SetToSeq({[b |-> b] : b \in Bodies})
    [] Mode = "resps" -> SetToSeq(Resps)
    [] Mode = "forms" -> SetToSeq({[b |-> b] : b \in Forms})
ASSUME ndJsonSerialize(IOEnv.VERIF_VECTORS, EmitOut)
VARIABLE x
Init == x = 0
Next == x' = x
=============================================================================
