------------------------- MODULE NormalizeKeysCheck -------------------------
(* B3 for the second half of C12: "spec path keys are compared for duplicates  *)
(* modulo the same equivalence".  Observed parser outcome for a document with  *)
(* exactly the two path keys "/"+a and "/"+b (a # b):                          *)
(*   ok | dup (duplicate path diagnostic) | err (any other error) | panic      *)
EXTENDS Normalize, ObsLib
CONSTANT KnownDeviations

AllowedKeys(a, b) ==
  IF Invalid(a) \/ Invalid(b) THEN {"err", "ok"}      \* the text demands no verdict, only no crash
  ELSE IF Canon(a) = Canon(b) THEN {"dup", "err"}     \* must not be accepted as two paths
  ELSE {"ok", "err"}                                  \* must not be called duplicates

Verdict(o) == IF o.kind \in AllowedKeys(o.a, o.b) THEN "ok" ELSE "viol"

VARIABLE l
Init == l = 0
Next == l < Len(Obs) /\ l' = l + 1 /\ Report(l', Verdict(Obs[l']))
=============================================================================
