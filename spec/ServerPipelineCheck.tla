------------------------- MODULE ServerPipelineCheck -------------------------
(* Trace validation for C15: events of many requests, concatenated.           *)
(*  k = "req"     starts a request: class cls, operation shape sec/params/body *)
(*  k = "err"     ErrorHandler / NewError saw an error of kind `kind`          *)
(*  k = "handler" the middleware (i.e. the handler stage) was reached          *)
(*  k = "done"    WriteHeader count wh, status, panic                          *)
(* Every line is judged; a line the acceptor does not enable is reported and   *)
(* the acceptor resynchronises at the next "req".                              *)
EXTENDS ServerPipeline, ObsLib
CONSTANT KnownDeviations

VARIABLES l, st
Init == l = 0 /\ st = Idle

Step(s, o) ==
  CASE o.k = "req" -> [next |-> Start([sec |-> o.sec, params |-> o.params, body |-> o.body], o.cls, o.opt), v |-> IF s.phase = "idle" THEN "ok" ELSE "viol-unfinished-request"]
    [] o.k = "err" -> IF ErrEnabled(s, o.kind) THEN [next |-> OnErr(s, o.kind), v |-> "ok"]
                      ELSE [next |-> OnErr(s, o.kind), v |-> "viol-error-out-of-order-" \o o.kind]
    [] o.k = "handler" -> IF HandlerEnabled(s) THEN [next |-> OnHandler(s), v |-> "ok"]
                          ELSE [next |-> OnHandler(s), v |-> "viol-handler-after-failure"]
    [] o.k = "done" -> [next |-> Idle,
                        v |-> IF ~Generic(s, o) THEN "viol-generic"
                              ELSE IF Classified(s, o) THEN "ok"
                              ELSE IF KnownFor(s, o) # "" /\ KnownFor(s, o) \in KnownDeviations THEN "known=" \o KnownFor(s, o)
                              ELSE "viol-class-" \o s.cls]

Next == /\ l < Len(Obs) /\ l' = l + 1
        /\ LET r == Step(st, Obs[l']) IN st' = r.next /\ Report(l', r.v)
=============================================================================
