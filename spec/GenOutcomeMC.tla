----------------------------- MODULE GenOutcomeMC -----------------------------
(* ogen.Parse -> gen.NewGenerator -> WriteSource as a phase machine whose      *)
(* failing phase and diagnostic position are chosen by the environment; every  *)
(* terminal state satisfies OutcomeOK, and every fault tuple is reachable      *)
(* (no operator is vacuous in the enumeration handed to the harness).          *)
EXTENDS GenOutcome
CONSTANTS NLines, LineLen
VARIABLES op, phase, out
Init == op \in Ops /\ phase = 1 /\ out = [kind |-> "run", located |-> FALSE, line |-> 0, col |-> 0, locs |-> <<>>, onpath |-> TRUE, onpathin |-> TRUE]
Fail == /\ out.kind = "run" /\ op # "none"
        /\ \E loc \in BOOLEAN, onp \in BOOLEAN, onpin \in BOOLEAN, l \in 1..NLines, c \in 1..(LineLen + 1) :
             /\ (op \in SelfOffending /\ loc) => (onp /\ onpin)
             /\ (onpin => onp)
             /\ out' = [kind |-> "err", located |-> loc, line |-> IF loc THEN l ELSE 0, col |-> IF loc THEN c ELSE 0, onpath |-> onp, onpathin |-> onpin,
                     locs |-> IF loc THEN <<[known |-> TRUE, line |-> l, col |-> c, nlines |-> NLines, linelen |-> LineLen, nodestart |-> TRUE]>> ELSE <<>>]
        /\ UNCHANGED <<op, phase>>
Pass == /\ out.kind = "run"
        /\ IF phase < Len(Phases) THEN phase' = phase + 1 /\ out' = out
           ELSE phase' = phase /\ out' = [kind |-> "ok", located |-> FALSE, line |-> 0, col |-> 0, locs |-> <<>>, onpath |-> TRUE, onpathin |-> TRUE]
        /\ UNCHANGED op
Next == Fail \/ Pass
Doc == [nlines |-> NLines, linelen |-> LineLen]
Total == out.kind # "run" => OutcomeOK(out, Doc)
Attrib == out.kind # "run" => Attributed(op, out)
Control == out.kind # "run" => ControlOK([op |-> op, y |-> out])
=============================================================================
