----------------------------- MODULE GenPipeline -----------------------------
(***************************************************************************)
(* C02 -- everything the generator writes is a Go package that compiles.   *)
(*                                                                         *)
(* abstract layer: the only admissible end states of one generation are    *)
(*    <<gen = "ok", build = "ok">>                                         *)
(*    <<gen = "diag" | "notimpl", build = "na">>   (spec refused with a    *)
(*                       spec-level or not-implemented diagnostic)         *)
(* never  gen = "goformat" (own templates emitted unparsable Go),          *)
(*        gen = "panic", or  gen = "ok" with build = "fail".               *)
(*                                                                         *)
(* implementation layer: FeatureOptions.Build (disable_all, disable,       *)
(* enable) and the template enable table of WriteSource as a function of   *)
(* the feature set and the IR shape flags; used to predict the file set    *)
(* (a disagreement is drift, never an alarm).                              *)
(***************************************************************************)
EXTENDS Naturals, Sequences, FiniteSets, TLC

AllFeatures == {"paths/client", "paths/server", "webhooks/client", "webhooks/server", "client/security/reentrant", "client/request/options",
                "client/request/validation", "server/response/validation", "ogen/otel", "ogen/unimplemented", "debug/example_tests"}
DefaultFeatures == {"paths/client", "paths/server", "webhooks/client", "webhooks/server", "ogen/otel", "ogen/unimplemented"}

\* gen/features.go FeatureOptions.Build
Build(cfg) == ((IF cfg.disableAll THEN {} ELSE DefaultFeatures) \ cfg.disable) \cup cfg.enable
\* an unknown name under enable is an error; under disable it is ignored by Build (but refused when the config is decoded)
BuildFails(cfg) == cfg.enable \ AllFeatures # {}

Allowed == {<<"ok", "ok">>, <<"diag", "na">>, <<"notimpl", "na">>}

\* Dev_GeneratedIdentifierCollision (recorded finding): a spec name whose Go identifier is one the
\* templates declare themselves is neither renamed nor refused.  The deviation is identified by
\* the exact witness names per naming scope; any other colliding name is still a violation.
\* Two more recorded findings are identified by the witness document (a harness shape):
\*   Dev_WebhookSecurityMethods       a webhook operation with a security requirement: the
\*                                    security methods exist only on *Server / *Client
\*   Dev_PatternResponsesSameSchema   4XX and 5XX responses with the same $ref schema: one
\*                                    wrapper type, two cases in the encoder's type switch
\*   Dev_RecursiveOptionalNullableBox optional nullable member referring to the enclosing
\*                                    schema: checkStructRecursions boxes it as a pointer to
\*                                    an Opt generic that is never declared
ShapeWitness(shape) ==
  CASE shape = "webhook_security" -> {"Dev_WebhookSecurityMethods"}
    [] shape = "pattern_responses_same_schema" -> {"Dev_PatternResponsesSameSchema"}
    [] shape = "recursive_optional_nullable" -> {"Dev_RecursiveOptionalNullableBox"}
    [] shape = "default_not_representable" -> {"Dev_DefaultNotRepresentable"}
    [] shape = "form_empty_object" -> {"Dev_FormEmptyObjectUnusedVariables"}
    [] shape \in {"enum_constant_vs_schema", "getter_vs_property", "validate_property"} -> {"Dev_GeneratedIdentifierCollision"}
    [] OTHER -> {}
\*   Dev_SiblingNameCollision         two names of one scope whose Go identifiers coincide
\*                                    ("+$" and "+*" both become Plus): properties are checked
\*                                    for this ("conflict: field ... already defined"), the
\*                                    headers of one response are not
SiblingCollisionScopes == {"respheader"}
CollisionWitness(scope) ==
  CASE scope \in {"schema", "security"} -> {"Client", "Handler", "OperationName", "Route", "Server"}
    [] scope = "property" -> {"Decode", "Encode"}
    [] scope = "operationId" -> {"Client"}
    [] OTHER -> {}

\* shape flags of the IR: [params, uriobj, json, interfaces, validators, servers, defaults, securities, ops, webhooks]
\* paths client/server follow the feature alone; the webhook halves also need webhooks in the document
GenClient(f, sh) == "paths/client" \in f \/ ("webhooks/client" \in f /\ sh.webhooks)
GenServer(f, sh) == "paths/server" \in f \/ ("webhooks/server" \in f /\ sh.webhooks)
Files(f, sh) ==
  LET c == GenClient(f, sh)  s == GenServer(f, sh)
      T(name, on) == IF on THEN {name} ELSE {} IN
  {"schemas", "cfg"}
  \cup T("uri", sh.uriobj) \cup T("json", sh.json) \cup T("interfaces", (c \/ s) /\ sh.interfaces) \cup T("parameters", sh.params)
  \cup T("handlers", s) \cup T("request_encoders", c) \cup T("request_decoders", s) \cup T("response_encoders", s) \cup T("response_decoders", c)
  \cup T("validators", sh.validators) \cup T("middleware", s) \cup T("server", s) \cup T("client", c) \cup T("servers", sh.servers)
  \cup T("router", s) \cup T("defaults", sh.defaults) \cup T("security", (c \/ s) /\ sh.securities)
  \cup T("test_examples", "debug/example_tests" \in f) \cup T("faker", "debug/example_tests" \in f)
  \cup T("unimplemented", "ogen/unimplemented" \in f /\ s) \cup T("labeler", "ogen/otel" \in f /\ s) \cup T("operations", c \/ s)
=============================================================================
