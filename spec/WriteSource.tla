----------------------------- MODULE WriteSource -----------------------------
(***************************************************************************)
(* C10 -- gen.Generator.WriteSource: one goroutine per template (bounded   *)
(* by GOMAXPROCS) renders into a buffer taken from a process-wide          *)
(* sync.Pool, formats, writes the file and returns the buffer.             *)
(*                                                                         *)
(* Acceptor for the hook events (build tag verif), concatenated over       *)
(* generations, repetitions, GOMAXPROCS settings and processes:            *)
(*   gen_begin(spec) | buf_get(buf, len, tmpl) | rendered(tmpl, file, h)   *)
(*   | wrote(tmpl, file, h) | buf_put(buf, tmpl) | gen_end(spec, outcome)  *)
(*   | proc_begin | race                                                   *)
(* state: owner (buffer -> template holding it), golden (spec/file -> hash *)
(* of the first generation), rgolden (spec/template -> rendered hash),     *)
(* files (spec -> set of files of the first generation), cur, seen.        *)
(***************************************************************************)
EXTENDS Naturals, Sequences, FiniteSets, TLC

Empty == [owner |-> <<>>, golden |-> <<>>, rgolden |-> <<>>, files |-> <<>>, outcome |-> <<>>, cur |-> "", seen |-> {}, rendered |-> {}]
Has(f, k) == k \in DOMAIN f
Put(f, k, v) == [x \in DOMAIN f \cup {k} |-> IF x = k THEN v ELSE f[x]]
Del(f, k) == [x \in DOMAIN f \ {k} |-> f[x]]
Holding(st, tmpl) == \E b \in DOMAIN st.owner : st.owner[b] = tmpl

\* each returns <<verdict, next state>>; verdict "ok" or the obligation that failed
OnProcBegin(st) == <<IF st.cur = "" THEN "ok" ELSE "generation-open-at-process-start", [st EXCEPT !.owner = <<>>, !.cur = ""]>>   \* a new process has a new pool
OnGenBegin(st, e) == <<IF st.cur = "" /\ DOMAIN st.owner = {} THEN "ok" ELSE "buffers-held-between-generations",
                       [st EXCEPT !.cur = e.spec, !.seen = {}, !.rendered = {}, !.owner = <<>>]>>
OnBufGet(st, e) ==
  << IF st.cur = "" THEN "event-outside-generation"
     ELSE IF Has(st.owner, e.buf) THEN "D2-buffer-handed-out-twice"          \* exclusive ownership
     ELSE IF e.len # 0 THEN "D2-buffer-not-empty-when-handed-out"            \* Reset before use
     ELSE IF Holding(st, e.tmpl) THEN "task-holds-two-buffers"
     ELSE "ok",
     [st EXCEPT !.owner = Put(st.owner, e.buf, e.tmpl)] >>
OnRendered(st, e) ==
  LET key == <<st.cur, e.tmpl>> IN
  << IF ~Holding(st, e.tmpl) THEN "render-without-buffer"
     ELSE IF Has(st.rgolden, key) /\ st.rgolden[key] # e.h THEN "D1-template-output-differs-from-first-generation"
     ELSE "ok",
     [st EXCEPT !.rgolden = IF Has(st.rgolden, key) THEN st.rgolden ELSE Put(st.rgolden, key, e.h), !.rendered = st.rendered \cup {e.tmpl}] >>
OnWrote(st, e) ==
  LET key == <<st.cur, e.file>> IN
  << IF ~Holding(st, e.tmpl) \/ e.tmpl \notin st.rendered THEN "write-before-render"
     ELSE IF e.file \in st.seen THEN "file-written-twice-in-one-generation"
     ELSE IF Has(st.golden, key) /\ st.golden[key] # e.h THEN "D1-file-differs-from-first-generation"
     ELSE "ok",
     [st EXCEPT !.golden = IF Has(st.golden, key) THEN st.golden ELSE Put(st.golden, key, e.h), !.seen = st.seen \cup {e.file}] >>
OnBufPut(st, e) ==
  << IF Has(st.owner, e.buf) /\ st.owner[e.buf] = e.tmpl THEN "ok" ELSE "D2-buffer-returned-by-non-owner",
     [st EXCEPT !.owner = IF Has(st.owner, e.buf) THEN Del(st.owner, e.buf) ELSE st.owner] >>
OnGenEnd(st, e) ==
  << IF DOMAIN st.owner # {} THEN "buffer-not-returned"
     ELSE IF Has(st.outcome, st.cur) /\ st.outcome[st.cur] # e.outcome THEN "D1-outcome-differs-from-first-generation"
     ELSE IF e.outcome = "ok" /\ Has(st.files, st.cur) /\ st.files[st.cur] # st.seen THEN "D1-file-set-differs-from-first-generation"
     ELSE "ok",
     [st EXCEPT !.cur = "",
                !.files = IF e.outcome = "ok" /\ ~Has(st.files, st.cur) THEN Put(st.files, st.cur, st.seen) ELSE st.files,
                !.outcome = IF Has(st.outcome, st.cur) THEN st.outcome ELSE Put(st.outcome, st.cur, e.outcome)] >>
OnRace(st) == <<"D3-data-race-reported", st>>
=============================================================================
