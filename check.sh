#!/bin/bash
# ./check.sh <ID> quick|thorough        decide property <ID> on /repo's working tree
# ./check.sh <ID> --replay <file>       re-run one stored case
set -u
cd "$(dirname "$0")"
export GOFLAGS=-mod=mod GOPROXY=off GOSUMDB=off GOTOOLCHAIN=local CGO_ENABLED=${CGO_ENABLED:-1}
ID=${1:?property id}
MODE=${2:-quick}
cmp -s /repo/go.sum harness/go.sum || cp /repo/go.sum harness/go.sum
# the checker binary is rebuilt on every call with the hook guard (-tags verif) enabled; it links the packages of /repo's
# working tree (replace directive), so library-level checks always see current sources. Every call builds and runs its
# own copy, so checks of different properties can run side by side.
BIN=harness/bin/vcheck.$$
trap 'rm -f "$BIN"' EXIT
(cd harness && go build -tags verif -o "bin/vcheck.$$" ./cmd/vcheck) || { echo "INFRA build failed" >&2; exit 2; }
cp -f "$BIN" harness/bin/vcheck 2>/dev/null || true
if [ "$MODE" = "--replay" ]; then
  "$BIN" -p "$ID" -replay "${3:?replay file}"
  exit $?
fi
"$BIN" -p "$ID" -tier "$MODE" -seed "${VERIF_SEED:-1}"
exit $?
