#!/usr/bin/env python3
# tools/archive_mut.py <pid> <letter> <change> <needs> <check> <result>  — copies a confirmed seeded change into /verif/seeded
import json, os, shutil, sys
pid, letter, what, needs, check, note = sys.argv[1:7]
# optional: source directory and the letter to archive under (second rounds: A/B of /tmp/mut2-<pid> become C/D)
src=sys.argv[7] if len(sys.argv)>7 else f"/tmp/mut-{pid}/_out/{letter}"
letter=sys.argv[8] if len(sys.argv)>8 else letter
dst=f"/verif/seeded/{pid}-{letter}"
if os.path.exists(dst): shutil.rmtree(dst)
os.makedirs(dst)
shutil.copy(src+"/patch.diff", dst+"/patch.diff")
if os.path.exists(src+"/README.md"): shutil.copy(src+"/README.md", dst+"/README.agent.md")
def ign(d, names): return [n for n in names if n in ("api","go.sum")]
if os.path.exists(src+"/demo"): shutil.copytree(src+"/demo", dst+"/demo", ignore=ign)
json.dump({"property": pid, "change": what, "needs_to_manifest": needs,
  "confirmed": "in the agent's scratch worktree: demo passes on the clean tree; patch applies, `go build ./...` succeeds, the full test suite passes except TestGenerate/Examples/k8s (emptied data file; fails at HEAD too), demo fails; tree reverted",
  "ran_against": f"tools/trymut.sh {check.split()[0]} seeded/{pid}-{letter}/patch.diff  (git -C /repo apply; ./check.sh; git -C /repo checkout -- .)",
  "detected_by": check, "result": note}, open(dst+"/meta.json","w"), indent=1)
print("archived", dst)
