#!/bin/bash
# tools/baseline.sh — runs the repository's own test suite (hook guard off) as JSON and compares the passing set with
# BASELINE.json's stable_pass list. Prints the stable tests that no longer pass.
export GOFLAGS=-mod=mod GOPROXY=off GOSUMDB=off GOTOOLCHAIN=local
OUT=${1:-/tmp/baseline.gotest.json}
: > "$OUT"
for m in . $(cd /repo && find . -name go.mod -not -path './go.mod' -not -path './_*' -exec dirname {} \; 2>/dev/null); do
  (cd /repo/$m && go test -json -vet=off -count=1 -timeout 25m ./... >> "$OUT" 2>/dev/null)
done
python3 - "$OUT" <<'PY'
import json,sys
passed=set()
for line in open(sys.argv[1]):
    try: e=json.loads(line)
    except Exception: continue
    if e.get('Action')=='pass' and e.get('Test'):
        passed.add(e['Package']+'::'+e['Test'])
base=json.load(open('/root/.vp/BASELINE.json'))
missing=[t for t in base['stable_pass'] if t not in passed]
print('stable_pass:',len(base['stable_pass']),'passing now:',len(passed),'stable tests not passing:',len(missing))
for t in missing[:40]: print('  MISSING',t)
PY
