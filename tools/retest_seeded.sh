#!/bin/bash
# tools/retest_seeded.sh [ID-prefix...]  — re-runs every archived seeded change against the check named in its meta.json
# (git -C /repo apply; ./check.sh <check> <tier>; git -C /repo checkout -- .) and prints caught / MISSED per change.
# Must not run while any other check or sub-agent uses /repo.
cd /verif || exit 2
for d in seeded/*/; do
  name=$(basename "$d")
  [ -f "$d/patch.diff" ] || continue
  if [ $# -gt 0 ]; then ok=0; for p in "$@"; do case "$name" in $p*) ok=1;; esac; done; [ $ok = 1 ] || continue; fi
  chk=$(python3 -c "import json;m=json.load(open('$d/meta.json'));print(m['detected_by'])")
  id=$(echo "$chk" | awk '{print $1}'); tier=$(echo "$chk" | awk '{print $2}'); tier=${tier:-quick}
  if ! git -C /repo diff --quiet; then echo "$name: /repo dirty, abort"; exit 2; fi
  pf="$PWD/$d/patch.diff"; [ -f "$PWD/$d/patch.adapted.diff" ] && pf="$PWD/$d/patch.adapted.diff"   # the same change against the current tree
  if ! git -C /repo apply "$pf" 2>/dev/null; then echo "$name: patch no longer applies (tree moved on)"; continue; fi
  ./check.sh "$id" "$tier" > /tmp/retest-$name.log 2>&1; code=$?
  git -C /repo checkout -- .
  v=$(grep -c '^VIOLATION' /tmp/retest-$name.log)
  if [ $code = 1 ] && [ "$v" -gt 0 ]; then echo "$name: caught by $id $tier ($v violations)"; else echo "$name: MISSED by $id $tier (exit $code)"; fi
done
