import json,sys
pid=sys.argv[1]
props={json.loads(l)['id']:json.loads(l) for l in open('/verif/properties.jsonl')}
p=props[pid]
used=[]
for L in 'ABCDEFGHIJ':
    try: used.append(json.load(open(f'/verif/seeded/{pid}-{L}/meta.json'))['change'])
    except Exception: pass
wt=f'/tmp/mut3-{pid}'
print(f'''You are helping evaluate a verification effort for the Go project ogen-go/ogen (an OpenAPI v3 to Go code generator). You have your own scratch git worktree of the repository at {wt} (detached HEAD). Work ONLY inside {wt} (and {wt}/_out for your deliverables). Never touch /repo or /verif, never commit anything. The sandbox is offline: in every shell call first run `export GOFLAGS=-mod=mod GOPROXY=off GOSUMDB=off GOTOOLCHAIN=local`.

Here is one semantic property of ogen that users rely on:

Title: "{p['title']}"
Statement: "{p['statement']}"
Quantifier: "{p['quantifier']['text']}"
Anchors: {', '.join(p['anchors']['files'])}.

Your task: produce TWO different, realistic code changes (call them A and B) to the ogen source (the library / generator / templates / runtime packages, NOT tests, NOT checked-in generated example code) such that each one:
 1. BREAKS the property above (for freshly generated code where the property is about generated code);
 2. still compiles (`go build ./...`) and still passes the existing test suite (`go test -vet=off -count=1 ./...` — note: the test TestGenerate/Examples/k8s in the root package fails already at HEAD because a data file was emptied; ignore that one failure, everything else must pass);
 3. is subtle: it needs something specific to manifest (a particular shape of input, boundary, combination, character, count, ordering) — not something that breaks every input. It should look like a plausible refactoring mistake, lost case, swapped condition, off-by-one, over-eager optimisation etc.; especially welcome are changes that need a multi-step sequence, a fault at a particular point, a particular interleaving, or TWO cooperating sites that each look fine alone. A and B should be in different files/mechanisms, and BOTH must be different from these changes that were already tried in earlier rounds (do not reuse these mechanisms or near variants of them):
{chr(10).join('   - '+u for u in used)}
   Prefer places of the anchored code that those did not touch.
 4. comes with a demonstration: a small self-contained Go test or program (placed under _out/<A|B>/demo/, with a README and a run.sh — use bash — that copies what it needs into the worktree, generates code from a small OpenAPI document with `go run ./cmd/ogen --target <dir> --package api --clean spec.json` when generated code is involved, runs, and cleans up) that passes at HEAD and fails with the change applied.

Deliverables, per change, under {wt}/_out/A and {wt}/_out/B: patch.diff (produced with `git diff` from the worktree root, applying cleanly with `git apply` at HEAD), README.md (what was changed, what breaks, the trigger, exact commands and observed outputs at HEAD and with the patch), demo/ (the demonstration). When finished, leave the worktree's tracked files back at HEAD (git checkout -- .), keeping only _out/ untracked. Verify each patch yourself: apply, build, run the full test suite, run the demo (fails), revert, run demo (passes).

If, while probing, you discover behaviours at HEAD that already violate the property (without any change), do not use them as A or B; list them briefly (with the input) in _out/EXTRA_head_findings.md.

Report back a concise summary of A and B (files touched, trigger, what breaks) and the verification you performed.''')
