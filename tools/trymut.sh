#!/bin/bash
# tools/trymut.sh <ID> <patch.diff> [tier]  — apply a seeded change to /repo, run the check, revert.
set -u
ID=$1; PATCH=$2; TIER=${3:-quick}
cd /repo || exit 2
if ! git diff --quiet; then echo "repo has uncommitted changes" >&2; exit 2; fi
git apply "$PATCH" || { echo "patch does not apply" >&2; exit 2; }
(cd /repo && GOFLAGS=-mod=mod GOPROXY=off GOSUMDB=off GOTOOLCHAIN=local go build ./... ) || echo "BUILD FAILED with patch"
cd /verif && ./check.sh "$ID" "$TIER" > /tmp/trymut-$ID.log 2>&1
code=$?
git -C /repo checkout -- .
echo "exit=$code"
grep -c "^VIOLATION" /tmp/trymut-$ID.log
grep "^VIOLATION" -A1 /tmp/trymut-$ID.log | head -6
tail -1 /tmp/trymut-$ID.log
