#!/bin/bash
# tools/confirm3_all.sh <ID>...  — confirm A then B of each worktree /tmp/mut3-<ID>, worktrees in parallel
for id in "$@"; do
  ( cd /tmp/mut${ROUND:-3}-$id && git checkout -q -- . && git clean -fdq -e _out
    for L in A B; do /verif/tools/confirm3.sh /tmp/mut${ROUND:-3}-$id $L > /tmp/confirm-$id-$L.txt 2>&1; done ) &
done
wait
