#!/bin/bash
# tools/trybatch.sh "<check> <patch> [tier]" ...  — runs trymut for each, one after another, summary per line
cd /verif
for spec in "$@"; do
  set -- $spec
  out=$(tools/trymut.sh $1 $2 ${3:-quick} 2>&1)
  code=$(echo "$out" | grep -o "exit=[0-9]*")
  nv=$(echo "$out" | grep -A1 "^exit=" | tail -1)
  echo "$1 ${3:-quick} $(echo $2 | sed 's#/tmp/mut3-##; s#/_out/# #; s#/patch.diff##') -> $code violations=$nv"
  echo "$out" | grep "what:" | head -2 | cut -c1-400
done
