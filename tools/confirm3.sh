#!/bin/bash
# tools/confirm3.sh <worktree> <A|B>  — confirms a seeded change in its scratch worktree:
# demo passes at HEAD; patch applies, builds, the full test suite passes (except the k8s example
# whose data file is emptied in this sandbox); demo fails with the patch; reverts.
set -u
export GOFLAGS=-mod=mod GOPROXY=off GOSUMDB=off GOTOOLCHAIN=local
WT=$1; L=$2
cd "$WT" || exit 2
git checkout -q -- .
run=$(ls _out/$L/demo/run.sh 2>/dev/null || ls _out/$L/run.sh)
( bash "$run" ) >/tmp/confirm-$$.log 2>&1 && echo "clean: demo PASS" || echo "clean: demo FAIL (unexpected)"
git checkout -q -- . ; git clean -fdq -e _out
git apply _out/$L/patch.diff || { echo "patch does not apply"; exit 2; }
go build ./... && echo "patched: builds" || echo "patched: BUILD FAILS"
go test -vet=off -count=1 -timeout 25m ./... 2>&1 | grep -v "^ok\|no test files" | grep -v "k8s" | grep "FAIL\|panic" | head -8 > /tmp/confirm-$$.fails
if [ -s /tmp/confirm-$$.fails ]; then echo "patched: suite failures:"; cat /tmp/confirm-$$.fails; else echo "patched: suite PASS"; fi
( bash "$run" ) >/tmp/confirm-$$.log 2>&1 && echo "patched: demo PASS (unexpected)" || echo "patched: demo FAIL (expected)"
git checkout -q -- . ; git clean -fdq -e _out
rm -f /tmp/confirm-$$.log /tmp/confirm-$$.fails
