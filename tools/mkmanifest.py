#!/usr/bin/env python3
# Regenerates /verif/MANIFEST.json from the table below (one entry per claimed property).
import json, subprocess
G = "GOFLAGS=-mod=mod GOPROXY=off GOSUMDB=off GOTOOLCHAIN=local"
TECH = "explicit TLA+ spec (abstract + implementation layer); TLC exhaustive refinement check; "
CHECKS = {
 "C05": dict(cat="model_checking", ref="DESIGN.md §5 C05, appendix A.1",
  text="spec/Router.tla holds the abstract dispatch relation (MatchArgs/Safe/More/Allowed = A1-A4) and a branch-by-branch transcription of gen/route_tree.go addRoute/addChild and of the generated matcher with Go's break semantics. TLC checks exhaustively (all ordered sets of <=2 templates x all paths x both methods, millions of states) that the repaired matcher stays inside Allowed and that the two named deviations are exactly what breaks it. Conformance: real gen.Router.Add trees are compared with the model's Build for every enumerated ordered set plus random larger sets; one server per route set is regenerated from /repo and every bounded path x method is sent through ServeHTTP (plain, prefixed, two needless-escape spellings, invalid RawPath) and FindPath, the per-package trace being validated by TLC (state = current route set and tree).",
  note="Bounded: templates <=3 (quick) / <=4 (thorough) tokens over {/ a b P}, paths <=4 / <=5 characters over {/ a b x}, enumerated sets of <=2 templates plus seeded random sets of 3-6; methods GET/POST. Two template-level deviations are recorded findings (known_findings.json). Trusted: TLC, Json module, net/http/httptest, the op-id<->template table of the harness.",
  tech=TECH+"trace validation of regenerated servers (ServeHTTP/FindPath observations) and replay of gen.Router.Add against the model's tree"),
 "C06": dict(cat="model_checking", ref="DESIGN.md §5 C06",
  text="spec/ParamStyle.tla states the OpenAPI 3.0.3 style table (Table), the ambiguity rule (MustRefuse/MayRefuse) and round-trip/escaping obligations; TLC checks that the table composed with the cursor-machine transcription of uri's decoders round-trips every bounded value of every admitted row, and judges, for all 168 (location, style, explode, shape) combinations, the admission observed on the real parser+generator and every value pushed through the real public uri encoders/decoders (raw wire, logical wire, decoded value, panics).",
  note="Values bounded (primitives <=2/3 bytes over a 9-symbol delimiter alphabet, arrays <=3 items, objects <=2 fields) plus seeded random Unicode/byte members; for empty collections only 'no panic' is demanded (the table prescribes no form and [] / [\"\"] collide); percent-escaping of url.Values.Encode/PathEscape is environment. Trusted: TLC, Json module, net/url and net/http as carriers.",
  tech=TECH+"TLC-enumerated replay into the uri codecs and parser/generator admission with TLC-evaluated observation check"),
 "C09": dict(cat="model_checking", ref="DESIGN.md §5 C09",
  text="spec/Security.tla: abstract Allowed(reqs, cred) (handler iff some alternative fully accepted; both readings admitted when a credential is hard-rejected) and a transcription of generateSecurities, internal/bitset and the generated security block with byte/bit arithmetic. TLC checks refinement, arithmetic == set inclusion, index bounds and call order for all sequences of <=3 distinct alternatives over 3 schemes x 4^3 credential assignments plus byte-boundary structures over 9-20 schemes. Conformance: the same structures become operations of regenerated servers driven with a scripted SecurityHandler (handler flag, status, SecurityHandler call order judged by TLC), global/override/security:[] variants, not-implemented schemes under ignore_not_implemented must compile, and credentials attached by the regenerated client must reach the regenerated server's SecurityHandler unchanged.",
  note="Schemes are apiKey-in-header for the structure part; client half covers apiKey header/query/cookie, basic, bearer, oauth2 scopes on seeded random core-domain credentials. Trusted: TLC, Json module, net/http(+httptest).",
  tech=TECH+"TLC-enumerated requirement structures replayed into regenerated servers/clients with TLC-evaluated traces"),
 "C12": dict(cat="model_checking", ref="DESIGN.md §5 C12",
  text="TLC checks exhaustively that the pc-machine transcription of uri/normalize.go refines the abstract Canon/Invalid layer on all strings up to the bound, and the real function is bound to the same abstract layer by replaying every TLC-enumerated string (plus seeded random byte strings) through it and letting TLC judge each observed outcome; spec path keys are judged modulo the same equivalence through parser.Parse.",
  note="Bounded: strings up to length 6 (quick) / 7 (thorough) over a 9-symbol class alphabet, 7 / 9 over a 5-symbol one, random strings up to 64 bytes. Trusted: TLC, the CommunityModules Json reader, the byte<->int projection in prop/c12.",
  tech=TECH+"TLC-enumerated replay into uri.NormalizeEscapedPath with TLC-evaluated observation check"),
 "C15": dict(cat="model_checking", ref="DESIGN.md §5 C15, appendix A.3",
  text="spec/ServerPipeline.tla orders the stages of handlers.tmpl (route, security, params, body, middleware/handler, encode) as a machine with environment-chosen stage outcomes; TLC checks that every event sequence it can produce is accepted by the trace acceptor and meets the generic obligations (exactly one response, a failing stage returns, handler only after every earlier stage passed, status class per failing stage). The same acceptor validates concatenated event traces of regenerated servers (two matrix specs with/without convenient errors, plus corpus specs) serving hand-built requests of known failure classes, seeded byte-level mutants and random requests; events come from middleware, ErrorHandler, a synthesised NewError, a counting ResponseWriter and recover().",
  note="Classified expectations exist only for the two matrix specs written by the harness; corpus and mutated/random requests are judged by the generic obligations only (the permissive shape is used so that no expectation is derived from ogen's IR). OPTIONS preflight (204) of the default MethodNotAllowed handler is modelled as deliberate behaviour. Trusted: TLC, Json module, go/parser for glue synthesis.",
  tech="explicit TLA+ stage machine + acceptor; TLC exhaustive check of the machine; trace validation of regenerated servers' event traces by TLC"),
 "C16": dict(cat="model_checking", ref="DESIGN.md §5 C16",
  text="RFC 6901 evaluation is the abstract layer of spec/JSONPointer.tla; TLC checks that the pc-machine transcription of Resolve/find/findIdx refines it for three adversarial documents and all pointers up to 3 raw tokens in three spellings, and every enumerated pointer plus seeded random trees (valid pointers to every node, fragment spellings, single-edit mutants, JSON and YAML documents) is resolved by the real jsonpointer.Resolve with the returned node's identity judged by TLC.",
  note="Bounded token count and tree depth; duplicate member names and YAML aliases are outside the domain; a dangling '~' may be read literally or refused (both admitted, DESIGN.md §5 C16). Trusted: TLC, Json module, go-faster/yaml as document parser, node identity by pointer comparison.",
  tech=TECH+"TLC-enumerated replay into jsonpointer.Resolve with TLC-evaluated observation check"),
 "C18": dict(cat="model_checking", ref="DESIGN.md §5 C18",
  text="Spellings (structured JSON texts) carry both their byte text and their denotation in spec/JSONEqual.tla (numbers as exact decimals on digit sequences); TLC checks over all 47 961 ordered pairs of a 219-spelling domain that the transcription of json/equal.go equals semantic equality and is reflexive and symmetric, and judges every observed json.Equal(a,b)/(b,a)/(a,a) result and the schema parser's duplicate-enum verdict for every enumerated pair, for seeded random values spelled twice plus one-leaf mutants, and for malformed byte-mutants (never true).",
  note="Bounded value depth 2 (enumerated) / 3 (random); exponents within +-400; for texts with repeated member names only symmetry/reflexivity are demanded (denotation last-wins is drift-only); malformedness of mutants is an environment fact from encoding/json.Valid. Trusted: TLC, Json module, the Go renderer for random spellings (re-checked by TLC: Text(sp) = text).",
  tech=TECH+"TLC-enumerated replay into json.Equal and jsonschema enum parsing with TLC-evaluated observation check"),
 "C20": dict(cat="fault_enumeration", ref="DESIGN.md §5 C20",
  text="spec/GenCLI.tla models cmd/ogen/main.go as a stage machine with a fault point (flag, missing spec argument, config missing/invalid/unknown field, spec missing/malformed/invalid, not-implemented feature, route conflict, --version, none), --clean, and an initial target directory drawn from 14 name classes (own files incl. read-only and one the generator rewrites, look-alike user files, directories with a matching name, nested files). TLC checks G1-G5 and that every event sequence is accepted by the trace acceptor. Every TLC-enumerated scenario is materialised and the unmodified cmd/ogen binary built from /repo is run under strace -f; successful mkdir/unlink/rmdir/creating-open/rename/chmod calls under the target become events, names/modes/sha256 are snapshotted before and after, and TLC validates each scenario (events, exit code, snapshot): a pre-write failure must show no mutating syscall at all, a successful run may unlink only own top-level files and only with --clean, never writes over or below user entries.",
  note="Failures during writing (disk full, read-only target) are outside the statement and not injected; runs are as root, so permission bits do not restrict the binary. Trusted: strace's syscall report, TLC, Json module, the 1-line own-name regexp used to tag created names.",
  tech="explicit TLA+ machine + acceptor; TLC exhaustive check; TLC-enumerated fault scenarios replayed into the real binary under strace with TLC trace validation"),
}
NA = [
 ("C13", "pure numeric/text codec fidelity of single strconv/time calls: no state or transitions to specify, TLC has no floats and 32-bit integers (DESIGN.md §6)"),
 ("C14", "byte equality of two static artefacts over a finite go:generate list: decided only by regenerate-and-diff, a different technique (DESIGN.md §6)"),
]
hooks = [l.split()[0] for l in subprocess.run(["git","-C","/repo","log","--format=%H %s","ec6a8bd6..HEAD"],capture_output=True,text=True).stdout.splitlines() if " verif-hook:" in l]
m = {
 "version": 1,
 "setup_cmd": f"cd /verif/harness && {G} go build -o bin/vcheck ./cmd/vcheck",
 "hooks": {"guard": "verif", "enable": "go build -tags verif (checks that validate hook traces build /repo packages with this tag)",
   "baseline_off_cmd": f"cd /repo && {G} go test -vet=off -count=1 -timeout 25m ./...",
   "source_commits": hooks, "add_only": True},
 "engines": [{"name": "tlc", "path": "/opt/veriftools/tla/tla2tools.jar", "serves_properties": sorted(CHECKS),
   "kind_free_text": "TLC 1.8.0 explicit-state model checker: checks each spec module exhaustively within bounds, enumerates replay vectors, and evaluates the abstract layer on observations/traces logged from the real code"}],
 "checks": [], "not_applicable": [],
 "notes": "One TLA+ module family per property under /verif/spec; harness in /verif/harness (Go). Known findings and fixed defects: /verif/known_findings.json.",
}
for pid in sorted(CHECKS):
    c = CHECKS[pid]
    m["checks"].append({"property_id": pid, "quick_cmd": f"./check.sh {pid} quick", "thorough_cmd": f"./check.sh {pid} thorough",
      "evidence_file": f"/verif/evidence/{pid}.json", "replay_cmd_template": f"./check.sh {pid} --replay {{path}}", "engine": "tlc",
      "level_claimed": {"category": c["cat"], "text": c["text"], "design_ref": c["ref"]}, "level_note": c["note"], "technique": c["tech"]})
claimed = set(CHECKS)
allp = [json.loads(l)["id"] for l in open("/verif/properties.jsonl")]
na = dict(NA)
for pid in allp:
    if pid in claimed: continue
    m["not_applicable"].append({"property_id": pid, "reason": na.get(pid, "not claimed yet: check under construction (see DESIGN.md §9 registration rule)")})
json.dump(m, open("/verif/MANIFEST.json","w"), indent=1, ensure_ascii=False)
print("checks:", sorted(CHECKS))
