#!/usr/bin/env python3
# validates MANIFEST.json and every evidence file against the given schemas
import json, sys, glob, jsonschema
ok = True
def v(path, schema):
    global ok
    try:
        jsonschema.validate(json.load(open(path)), json.load(open(schema)))
        print("valid  ", path)
    except Exception as e:
        ok = False
        print("INVALID", path, str(e).splitlines()[0])
v('/verif/MANIFEST.json', '/root/.vp/MANIFEST.schema.json')
for f in sorted(glob.glob('/verif/evidence/*.json')):
    v(f, '/root/.vp/EVIDENCE.schema.json')
sys.exit(0 if ok else 1)
