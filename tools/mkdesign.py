#!/usr/bin/env python3
# tools/mkdesign.py — regenerates the tables of DESIGN.md §10 between the GENERATED markers from
# known_findings.json, seeded/*/meta.json and MANIFEST.json.
import json, glob, os, re
V='/verif'
k=json.load(open(V+'/known_findings.json'))
man=json.load(open(V+'/MANIFEST.json'))
out=[]
out.append('### 10.4 Genuine defects (generated from known_findings.json)\n')
out.append('**Repaired in /repo (`fix:` commits; the check passes on the repaired tree and reports the violation again if it returns):**\n')
out.append('| property | commit | what failed |\n|---|---|---|')
for f in k['fixed']:
    m=re.match(r'fixed: property=(\S+) (\S+) (.*)', f)
    out.append('| %s | `%s` | %s |' % (m.group(1), m.group(2), m.group(3).replace('|','\\|')))
out.append('\n**Recorded, not repaired (the check prints one `KNOWN-FINDING:` line each and exits 0; any other violation of the same property is still a VIOLATION):**\n')
out.append('| property | deviation (name in the spec\'s implementation layer) | site | witness | what |\n|---|---|---|---|---|')
for f in k['findings']:
    out.append('| %s | `%s` | %s | %s | %s |' % (f['property'], f['deviation'], f['site'].replace('|','\\|'), f['witness'].replace('|','\\|'), f['what'].replace('|','\\|')))
out.append('\n### 10.5 Seeded changes and the checks that catch them (generated from seeded/*/meta.json)\n')
out.append('Each change was produced by a fresh sub-agent that saw only the text of one property and its own scratch worktree, was confirmed (builds, existing tests pass, its demonstration fails) and was run against the checks with `tools/trymut.sh` (`git -C /repo apply`; check; `git -C /repo checkout -- .`).\n')
out.append('| change | what was changed | needs | caught by | history |\n|---|---|---|---|---|')
for d in sorted(glob.glob(V+'/seeded/*/meta.json')):
    m=json.load(open(d))
    name=os.path.basename(os.path.dirname(d))
    out.append('| %s | %s | %s | %s | %s |' % (name, m['change'].replace('|','\\|'), m['needs_to_manifest'].replace('|','\\|'), m['detected_by'], m['result'].replace('|','\\|')))
block='\n'.join(out)+'\n'
p=V+'/DESIGN.md'
s=open(p).read()
b='<!-- BEGIN GENERATED -->\n'; e='<!-- END GENERATED -->'
if b in s:
    s=s[:s.index(b)+len(b)]+block+s[s.index(e):]
else:
    s+= '\n'+b+block+e+'\n'
open(p,'w').write(s)
print('DESIGN.md tables regenerated:', len(k['fixed']), 'fixed,', len(k['findings']), 'findings,', len(glob.glob(V+'/seeded/*/meta.json')), 'seeded changes')
