#!/bin/bash
# tools/confirm_mut.sh <worktree> <patch> <pkg-dir-relative> <demo-test-file> <go-test-run-regex>
# Confirms a seeded change in its scratch worktree: demo passes clean, patch applies+builds,
# package tests (without demo) pass, demo fails with patch; reverts.
set -u
export GOFLAGS=-mod=mod GOPROXY=off GOSUMDB=off GOTOOLCHAIN=local
WT=$1; PATCH=$2; PKG=$3; DEMO=$4; RUN=$5
cd "$WT" || exit 2
git checkout -q -- . ; 
cp "$DEMO" "$PKG/zz_seeded_demo_test.go"
go test -count=1 -run "$RUN" "./$PKG/" >/dev/null 2>&1 && echo "clean: demo PASS" || echo "clean: demo FAIL (unexpected)"
rm -f "$PKG/zz_seeded_demo_test.go"
git apply "$PATCH" || { echo "patch does not apply"; exit 2; }
go build ./... && echo "patched: builds" || echo "patched: BUILD FAILS"
go test -count=1 "./$PKG/" >/dev/null 2>&1 && echo "patched: existing tests of $PKG PASS" || echo "patched: existing tests FAIL"
cp "$DEMO" "$PKG/zz_seeded_demo_test.go"
go test -count=1 -run "$RUN" "./$PKG/" >/dev/null 2>&1 && echo "patched: demo PASS (unexpected)" || echo "patched: demo FAIL (expected)"
rm -f "$PKG/zz_seeded_demo_test.go"
git checkout -q -- .
