// Command vcheck decides one property of /verif/properties.jsonl for the working tree
// of /repo. See /verif/DESIGN.md §3 for tiers, exit codes and the verdict rule.
package main

import (
	"flag"
	"fmt"
	"os"
	"sort"
	"strconv"

	"verif/internal/core"
	"verif/prop"
	"verif/prop/c11"
)

func main() {
	id := flag.String("p", "", "property id (C01..C20)")
	tier := flag.String("tier", "quick", "quick | thorough")
	seed := flag.Int64("seed", 1, "seed for every random choice")
	replay := flag.String("replay", "", "replay file to re-run")
	list := flag.Bool("list", false, "list implemented properties")
	worker := flag.String("worker", "", "internal: run as a child worker of the named property")
	flag.Parse()
	if *worker == "C11" {
		c11.Worker(flag.Args())
		return
	}
	if *list {
		var ids []string
		for k := range prop.All {
			ids = append(ids, k)
		}
		sort.Strings(ids)
		for _, k := range ids {
			fmt.Println(k)
		}
		return
	}
	if v := os.Getenv("VERIF_TIER"); v == "quick" || v == "thorough" {
		*tier = v
	}
	if v := os.Getenv("VERIF_SEED"); v != "" {
		if n, err := strconv.ParseInt(v, 10, 64); err == nil {
			*seed = n
		}
	}
	p, ok := prop.All[*id]
	if !ok {
		fmt.Fprintf(os.Stderr, "unknown property %q\n", *id)
		os.Exit(2)
	}
	run, err := core.NewRun(*id, *tier, *seed, p.Level)
	if err != nil {
		fmt.Fprintln(os.Stderr, err)
		os.Exit(2)
	}
	code := func() (code int) {
		defer run.Cleanup()
		defer func() {
			if e := recover(); e != nil {
				run.Infra("harness panic: %v", e)
				code = run.Finish()
			}
		}()
		if *replay != "" {
			if p.Replay == nil {
				run.Infra("no replay for %s", *id)
				return 2
			}
			if err := p.Replay(run, *replay); err != nil {
				run.Infra("%v", err)
			}
		} else if err := p.Check(run); err != nil {
			run.Infra("%v", err)
		}
		return run.Finish()
	}()
	os.Exit(code)
}
