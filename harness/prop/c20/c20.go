// Package c20 decides C20 (failed generation leaves the target untouched; --clean removes
// only own files) — spec/GenCLI*.tla. The unmodified cmd/ogen binary built from /repo is
// run under strace; syscalls under the target directory become trace events.
package c20

import (
	"bufio"
	"crypto/sha256"
	"encoding/hex"
	"encoding/json"
	"fmt"
	"os"
	"os/exec"
	"path/filepath"
	"regexp"
	"sort"
	"strings"
	"sync"
	"time"

	"verif/internal/core"
	"verif/internal/obs"
	"verif/internal/tlc"
)

type entry struct {
	Name string `json:"name"`
	Kind string `json:"kind"`
}

type scenario struct {
	FailAt string  `json:"failAt"`
	Clean  bool    `json:"clean"`
	Absent bool    `json:"absent"`
	Fs0    []entry `json:"fs0"`
}

const goodSpec = `openapi: 3.0.3
info: {title: t, version: "1"}
paths:
  /a/{id}:
    get:
      operationId: getA
      parameters: [{name: id, in: path, required: true, schema: {type: string}}]
      responses:
        "200": {description: ok, content: {application/json: {schema: {type: object, properties: {x: {type: integer}}}}}}
`

var specFor = map[string]string{
	"spec_yaml":    "openapi: [\n",
	"spec_invalid": "openapi: 3.0.3\ninfo: {title: t, version: \"1\"}\npaths:\n  /a:\n    get:\n      responses:\n        \"200\": {description: ok, content: {application/json: {schema: {type: nosuchtype}}}}\n",
	"not_implemented": `openapi: 3.0.3
info: {title: t, version: "1"}
components: {securitySchemes: {oid: {type: openIdConnect, openIdConnectUrl: "https://x/y"}}}
paths:
  /a: {get: {operationId: getA, security: [{oid: []}], responses: {"200": {description: ok}}}}
`,
	// a member no Go name can be made of: refused while the IR is built
	"unnameable": `openapi: 3.0.3
info: {title: t, version: "1"}
paths:
  /a:
    get:
      operationId: getA
      responses:
        "200": {description: ok, content: {application/json: {schema: {type: object, properties: {"_": {type: integer}, ok: {type: string}}}}}}
`,
	"route": `openapi: 3.0.3
info: {title: t, version: "1"}
paths:
  /a/{x}{y}:
    get:
      operationId: getA
      parameters: [{name: x, in: path, required: true, schema: {type: string}}, {name: y, in: path, required: true, schema: {type: string}}]
      responses: {"200": {description: ok}}
`,
}

var ownRe = regexp.MustCompile(`^(oas|openapi).*(_gen\.go|_gen_test\.go)$`)

type snapEntry struct {
	kind string // file | dir
	mode os.FileMode
	sum  string
}

func snapshot(root string) map[string]snapEntry {
	out := map[string]snapEntry{}
	filepath.Walk(root, func(p string, info os.FileInfo, err error) error {
		if err != nil || p == root {
			return nil
		}
		rel, _ := filepath.Rel(root, p)
		if info.IsDir() {
			out[rel] = snapEntry{kind: "dir", mode: info.Mode().Perm()}
			return nil
		}
		b, _ := os.ReadFile(p)
		h := sha256.Sum256(b)
		out[rel] = snapEntry{kind: "file", mode: info.Mode().Perm(), sum: hex.EncodeToString(h[:])}
		return nil
	})
	return out
}

var reCall = regexp.MustCompile(`^\d+\s+(\w+)\((.*)\)\s+=\s+(-?\d+)`)
var reUnfinished = regexp.MustCompile(`^(\d+)\s+(\w+)\((.*) <unfinished \.\.\.>$`)
var reResumed = regexp.MustCompile(`^(\d+)\s+<\.\.\. (\w+) resumed>(.*)\)\s+=\s+(-?\d+)`)
var reStr = regexp.MustCompile(`"((?:[^"\\]|\\.)*)"`)

type event struct {
	Ev   string `json:"ev"`
	Name string `json:"name"`
	Own  bool   `json:"own"`
}

// parseTrace maps strace lines to mutating events under target.
func parseTrace(path, target, cwd string) ([]event, error) {
	f, err := os.Open(path)
	if err != nil {
		return nil, err
	}
	defer f.Close()
	var out []event
	sc := bufio.NewScanner(f)
	sc.Buffer(make([]byte, 1<<20), 1<<24)
	pending := map[string][2]string{} // pid -> call, args of an unfinished call
	for sc.Scan() {
		line := sc.Text()
		var call, args, ret string
		if m := reCall.FindStringSubmatch(line); m != nil {
			call, args, ret = m[1], m[2], m[3]
		} else if m := reUnfinished.FindStringSubmatch(line); m != nil {
			pending[m[1]] = [2]string{m[2], m[3]}
			continue
		} else if m := reResumed.FindStringSubmatch(line); m != nil {
			p, ok := pending[m[1]]
			if !ok || p[0] != m[2] {
				continue
			}
			delete(pending, m[1])
			call, args, ret = p[0], p[1]+m[3], m[4]
		} else {
			continue
		}
		if strings.HasPrefix(ret, "-") {
			continue // failed calls change nothing
		}
		strs := reStr.FindAllStringSubmatch(args, -1)
		if len(strs) == 0 {
			continue
		}
		under := func(p string) (string, bool) {
			if !filepath.IsAbs(p) {
				p = filepath.Join(cwd, p)
			}
			p = filepath.Clean(p)
			if p == target {
				return "", true
			}
			if strings.HasPrefix(p, target+"/") {
				return strings.TrimPrefix(p, target+"/"), true
			}
			return "", false
		}
		rel, ok := under(strs[0][1])
		if !ok && len(strs) > 1 {
			rel, ok = under(strs[len(strs)-1][1])
		}
		if !ok {
			continue
		}
		switch call {
		case "mkdir", "mkdirat":
			out = append(out, event{Ev: "mkdir", Name: rel})
		case "unlink", "unlinkat", "rmdir":
			out = append(out, event{Ev: "unlink", Name: rel, Own: ownRe.MatchString(rel)})
		case "open", "openat", "creat":
			if call == "creat" || strings.Contains(args, "O_CREAT") || strings.Contains(args, "O_TRUNC") || strings.Contains(args, "O_WRONLY") || strings.Contains(args, "O_RDWR") {
				out = append(out, event{Ev: "create", Name: rel, Own: ownRe.MatchString(rel)})
			}
		default: // rename*, link*, symlink*, chmod, truncate ...
			out = append(out, event{Ev: "other_" + call, Name: rel})
		}
	}
	return out, nil
}

type runResult struct {
	lines [][]byte
	desc  string
	err   error
	exit  int
	out   string // what cmd/ogen printed
}

func runScenario(ogenBin string, scn scenario, dir string) runResult {
	target := filepath.Join(dir, "target")
	cwd := filepath.Join(dir, "cwd")
	os.MkdirAll(cwd, 0o755)
	if !scn.Absent {
		os.MkdirAll(target, 0o755)
	}
	// directories first
	ents := append([]entry{}, scn.Fs0...)
	sort.Slice(ents, func(i, j int) bool { return len(ents[i].Name) < len(ents[j].Name) })
	for _, e := range ents {
		p := filepath.Join(target, e.Name)
		switch e.Kind {
		case "dir":
			os.MkdirAll(p, 0o755)
		default:
			os.MkdirAll(filepath.Dir(p), 0o755)
			mode := os.FileMode(0o644)
			if e.Name == "oas_ro_gen.go" {
				mode = 0o444
			}
			os.WriteFile(p, []byte("// original content of "+e.Name+"\npackage api\n"), mode)
		}
	}
	before := snapshot(target)
	spec := filepath.Join(dir, "spec.yml")
	content := goodSpec
	if s, ok := specFor[scn.FailAt]; ok {
		content = s
	}
	if scn.FailAt == "expand_route" {
		content = specFor["route"]
	}
	os.WriteFile(spec, []byte(content), 0o644)
	args := []string{"--target", target, "--package", "api"}
	if scn.FailAt == "package_invalid" {
		// a package name no Go file can declare
		args = []string{"--target", target, "--package", "my-pkg"}
	}
	if scn.Clean {
		args = append(args, "--clean")
	}
	switch scn.FailAt {
	case "flag":
		args = append(args, "--no-such-flag")
	case "version":
		args = append(args, "--version")
	case "config_missing":
		args = append(args, "--config", filepath.Join(dir, "missing.yml"))
	case "config_yaml":
		os.WriteFile(filepath.Join(dir, "cfg.yml"), []byte("generator: [\n"), 0o644)
		args = append(args, "--config", filepath.Join(dir, "cfg.yml"))
	case "config_field":
		os.WriteFile(filepath.Join(dir, "cfg.yml"), []byte("no_such_field: 1\n"), 0o644)
		args = append(args, "--config", filepath.Join(dir, "cfg.yml"))
	case "config_feature":
		os.WriteFile(filepath.Join(dir, "cfg.yml"), []byte("generator:\n  features:\n    enable:\n      - client/request/option\n"), 0o644)
		args = append(args, "--config", filepath.Join(dir, "cfg.yml"))
	case "config_feature_disable":
		os.WriteFile(filepath.Join(dir, "cfg.yml"), []byte("generator:\n  features:\n    disable:\n      - paths/clients\n"), 0o644)
		args = append(args, "--config", filepath.Join(dir, "cfg.yml"))
	case "expand_route":
		// the expanded document is asked for inside the target; the run fails when routes are built
		os.WriteFile(filepath.Join(dir, "cfg.yml"), []byte("expand: "+filepath.Join(target, "expanded.yml")+"\n"), 0o644)
		args = append(args, "--config", filepath.Join(dir, "cfg.yml"))
	case "config_type":
		os.WriteFile(filepath.Join(dir, "cfg.yml"), []byte("generator:\n  convenient_errors: [1]\n"), 0o644)
		args = append(args, "--config", filepath.Join(dir, "cfg.yml"))
	case "config_found_unreadable":
		// no --config: a configuration file is looked for in the working directory; the first
		// candidate exists and cannot be read (it is a directory)
		os.MkdirAll(filepath.Join(cwd, "ogen.yml"), 0o755)
	case "config_found_yaml":
		// ... the last candidate exists and is not YAML
		os.WriteFile(filepath.Join(cwd, ".ogen.yaml"), []byte("generator: [\n"), 0o644)
	}
	switch scn.FailAt {
	case "nospec":
	case "spec_missing":
		args = append(args, filepath.Join(dir, "missing-spec.yml"))
	default:
		args = append(args, spec)
	}
	trace := filepath.Join(dir, "trace")
	st := append([]string{"-f", "-qq", "-o", trace, "-e", "trace=open,openat,creat,unlink,unlinkat,mkdir,mkdirat,rename,renameat,renameat2,rmdir,truncate,chmod,fchmodat,link,linkat,symlink,symlinkat", ogenBin}, args...)
	cmd := exec.Command("strace", st...)
	cmd.Dir = cwd
	cmd.Env = append(os.Environ(), "HOME="+dir, "NO_COLOR=1")
	out, runErr := cmd.CombinedOutput()
	exit := 0
	if ee, ok := runErr.(*exec.ExitError); ok {
		exit = ee.ExitCode()
	} else if runErr != nil {
		return runResult{err: fmt.Errorf("strace: %v: %s", runErr, out)}
	}
	evs, err := parseTrace(trace, target, cwd)
	if err != nil {
		return runResult{err: err}
	}
	after := snapshot(target)
	_, statErr := os.Stat(target)
	type aft struct {
		Name string `json:"name"`
		St   string `json:"st"`
	}
	afterL := []aft{}
	for _, e := range scn.Fs0 {
		b, a := before[e.Name], after[e.Name]
		st := "same"
		if _, ok := after[e.Name]; !ok {
			st = "removed"
		} else if a != b {
			st = "modified"
		}
		afterL = append(afterL, aft{e.Name, st})
	}
	extra := []string{}
	for n := range after {
		if _, ok := before[n]; !ok {
			extra = append(extra, n)
		}
	}
	sort.Strings(extra)
	var lines [][]byte
	b, _ := json.Marshal(map[string]any{"k": "scn", "failAt": scn.FailAt, "clean": scn.Clean, "absent": scn.Absent, "fs0": scn.Fs0})
	lines = append(lines, b)
	for _, e := range evs {
		b, _ := json.Marshal(map[string]any{"k": "ev", "ev": e.Ev, "name": e.Name, "own": e.Own})
		lines = append(lines, b)
	}
	b, _ = json.Marshal(map[string]any{"k": "end", "exit": exit, "after": afterL, "extra": extra, "dirExists": statErr == nil})
	lines = append(lines, b)
	var names []string
	for _, e := range scn.Fs0 {
		names = append(names, e.Name)
	}
	var evd []string
	for _, e := range evs {
		evd = append(evd, e.Ev+":"+e.Name)
	}
	if len(evd) > 12 {
		evd = append(evd[:12], fmt.Sprintf("...%d more", len(evd)-12))
	}
	desc := fmt.Sprintf("fault=%s clean=%v target=%s -> exit %d, events %v, after %v, new %v", scn.FailAt, scn.Clean, map[bool]string{true: "absent", false: fmt.Sprint(names)}[scn.Absent], exit, evd, afterL, extra)
	if exit != 0 {
		desc += " | ogen said: " + lastLine(string(out))
	}
	return runResult{lines: lines, desc: desc, exit: exit, out: string(out)}
}

func lastLine(s string) string {
	l := strings.Split(strings.TrimSpace(s), "\n")
	t := strings.TrimSpace(l[len(l)-1])
	if len(t) > 300 {
		t = t[:300]
	}
	return t
}

// Check is the C20 entry point.
func Check(r *core.Run) error {
	r.SetRule("TLC checks the machine of cmd/ogen/main.go (flags, config, spec, parse, IR, directory, clean, write) for every fault point x --clean x initial directory of <= MaxEntries name classes: G1-G5 hold and every event " +
		"sequence is accepted by the acceptor. Conformance: TLC enumerates scenarios (15 fault points x --clean x {absent, empty, each single entry, the full 17-entry directory}; successful runs also every pair); the harness materialises " +
		"directory, config and spec, runs the cmd/ogen binary built from /repo under strace -f, maps successful mkdir/unlink/rmdir/open(O_CREAT|O_TRUNC|O_WRONLY)/rename/chmod calls under the target to events and snapshots names, modes and " +
		"sha256 before/after; TLC validates every scenario's trace (events, exit code, snapshot). Non-trivial = the directory is non-empty or a mutating event occurred; distinct = (fault, clean, directory class, outcome).")
	mcEntries, maxPair := 3, 2
	if r.Thorough() {
		mcEntries, maxPair = 4, 3
	}
	res, err := tlc.Run(nil, tlc.Options{SpecDir: obs.SpecDir, Module: "GenCLIMC", Timeout: 20 * time.Minute, Scratch: r.Scratch, Workers: 8, Heap: "8g",
		Cfg: tlc.Cfg(fmt.Sprintf("CONSTANT MaxEntries = %d", mcEntries), "INIT Init", "NEXT Next", "INVARIANTS Accepted G1 G2 G3G4 G5", "CHECK_DEADLOCK FALSE")})
	if err != nil {
		return err
	}
	if res.Violated != "" {
		return fmt.Errorf("%w: GenCLIMC violates %s\n%s", tlc.ErrInfra, res.Violated, tlc.Tail(res, 30))
	}
	r.AddStates(res.Distinct, res.Generated)
	r.Cov("mc_states", res.Distinct)

	lines, err := obs.Emit(r, "GenCLIEmit", tlc.Cfg(fmt.Sprintf("CONSTANT MaxPair = %d", maxPair), "INIT Init", "NEXT Next"), 10*time.Minute)
	if err != nil {
		return err
	}
	var scns []scenario
	for _, l := range lines {
		var s scenario
		if err := json.Unmarshal(l, &s); err != nil {
			return err
		}
		scns = append(scns, s)
	}
	r.Cov("scenarios", len(scns))
	r.SetExhaustive(true)

	// build cmd/ogen from the working tree
	bin := filepath.Join(r.Scratch, "ogen")
	cmd := exec.Command("go", "build", "-o", bin, "./cmd/ogen")
	cmd.Dir = core.RepoDir
	cmd.Env = append(os.Environ(), "GOFLAGS=-mod=mod", "GOPROXY=off", "GOSUMDB=off", "GOTOOLCHAIN=local")
	if out, err := cmd.CombinedOutput(); err != nil {
		return fmt.Errorf("build cmd/ogen: %v\n%s", err, out)
	}
	results := make([]runResult, len(scns))
	var retryMu sync.Mutex
	var retried []string
	var wg sync.WaitGroup
	sem := make(chan struct{}, 12)
	for i, s := range scns {
		wg.Add(1)
		go func(i int, s scenario) {
			defer wg.Done()
			sem <- struct{}{}
			defer func() { <-sem }()
			dir, err := os.MkdirTemp(r.Scratch, "scn-")
			if err != nil {
				results[i] = runResult{err: err}
				return
			}
			results[i] = runScenario(bin, s, dir)
			os.RemoveAll(dir)
			if s.FailAt == "none" && results[i].exit != 0 && results[i].err == nil {
				// a run without an injected fault that fails did so for a reason outside the scenario
				// (the machine was out of some resource while many traced processes ran side by side):
				// the scenario is run again on its own; only a failure that repeats is judged
				first := results[i]
				retryMu.Lock()
				dir2, err := os.MkdirTemp(r.Scratch, "scn-retry-")
				if err == nil {
					second := runScenario(bin, s, dir2)
					os.RemoveAll(dir2)
					if second.err == nil && second.exit == 0 {
						results[i] = second
						retried = append(retried, first.desc)
					}
				}
				retryMu.Unlock()
			}
		}(i, s)
	}
	wg.Wait()
	r.Cov("fault_free_runs_that_failed_once_and_passed_alone", retried)
	for _, d := range retried {
		fmt.Printf("INFO property=C20 environment failure, scenario passed when run alone: %s\n", d)
	}
	var all [][]byte
	var owner []int
	nEvents := 0
	for i, rr := range results {
		if rr.err != nil {
			return rr.err
		}
		for _, l := range rr.lines {
			all = append(all, l)
			owner = append(owner, i)
		}
		nEvents += len(rr.lines) - 2
		s := scns[i]
		if len(s.Fs0) > 0 || len(rr.lines) > 2 {
			cls := "empty"
			if len(s.Fs0) == 1 {
				cls = s.Fs0[0].Kind
			} else if len(s.Fs0) > 2 {
				cls = "full"
			} else if len(s.Fs0) == 2 {
				cls = s.Fs0[0].Kind + "+" + s.Fs0[1].Kind
			}
			r.Nontrivial(fmt.Sprintf("%s|%v|%s|%d", s.FailAt, s.Clean, cls, len(rr.lines)-2))
		}
		if i%60 == 1 {
			r.Sample(rr.desc)
		}
	}
	r.AddEvals(int64(len(scns)))
	r.AddTraces(int64(len(scns)))
	r.Cov("syscall_events", nEvents)
	// scenarios are independent, but the acceptor carries state from "scn" to "end": one chunk
	vs, err := obs.Check(r, all, obs.CheckOpts{Module: "GenCLICheck", Cfg: obs.StdCfg(), ChunkSize: len(all) + 1, Parallel: 1})
	if err != nil {
		return err
	}
	seen := map[int]bool{}
	for _, v := range vs {
		i := owner[v.Index]
		if seen[i] {
			continue
		}
		seen[i] = true
		r.Violate(fmt.Sprintf("cmd/ogen %s: rejected by spec/GenCLI.tla (%s)", results[i].desc, v.Kind), map[string]any{"scenario": scns[i], "verdict": v.Kind})
	}
	// binding self-test: an unlink of a user file and a changed exit code must be rejected
	self := []string{
		`{"k":"scn","failAt":"none","clean":true,"absent":false,"fs0":[{"name":"user.go","kind":"user"}]}`,
		`{"k":"ev","ev":"unlink","name":"user.go","own":false}`,
		`{"k":"end","exit":0,"after":[{"name":"user.go","st":"removed"}],"extra":[],"dirExists":true}`,
		`{"k":"scn","failAt":"spec_yaml","clean":true,"absent":false,"fs0":[{"name":"oas_x_gen.go","kind":"own"}]}`,
		`{"k":"end","exit":0,"after":[{"name":"oas_x_gen.go","st":"same"}],"extra":[],"dirExists":true}`,
	}
	var sl [][]byte
	for _, l := range self {
		sl = append(sl, []byte(l))
	}
	svs, err := obs.Check(r, sl, obs.CheckOpts{Module: "GenCLICheck", Cfg: obs.StdCfg(), Parallel: 1})
	if err != nil {
		return err
	}
	if len(svs) != 2 {
		return fmt.Errorf("%w: binding self-test: %d of 2 corrupted scenarios rejected", tlc.ErrInfra, len(svs))
	}
	r.Cov("binding_selftest", "2 corrupted scenarios rejected")
	return nil
}

// Replay re-runs the whole check (scenarios are deterministic).
func Replay(r *core.Run, path string) error { return Check(r) }
