// Package c03 decides C03 (the server accepts a body exactly when it satisfies the schema)
// — spec/SchemaValid*.tla.
package c03

import (
	"bytes"
	_ "embed"
	"encoding/json"
	"fmt"
	"math/rand/v2"
	"net/url"
	"os"
	"path/filepath"
	"sort"
	"strings"
	"time"

	"verif/internal/core"
	"verif/internal/gencode"
	"verif/internal/obs"
	"verif/internal/tlc"
)

//go:embed driver_main.go.txt
var driverMain string

type M = map[string]any

const none = -1000

func num(n float64) any {
	if int(n)%10 == 0 {
		return int(n) / 10
	}
	return n / 10
}

// RenderValue spells a tagged value of spec/SchemaValid.tla as a Go value for json.Marshal.
// Symbols maps the symbolic characters of the TLA+ string domain to concrete ones; every
// other symbol is the character itself. Each is one character (lengths count characters).
var Symbols = map[string]string{
	"dt_z": "2020-01-02T03:04:05Z", "dt_plus": "2020-01-02T03:04:05+00:00", "dt_off": "2020-01-02T05:04:05+02:00", "dt_frac": "2020-01-02T03:04:05.5Z",
	"dt_month13": "2020-13-01T00:00:00Z", "dt_nozone": "2020-01-02T03:04:05", "dt_feb30": "2020-02-30T00:00:00Z",
	"d_1": "2020-01-02", "d_feb30": "2020-02-30", "d_short": "2020-1-2",
	"t_1": "03:04:05", "t_frac": "03:04:05.5", "t_25h": "25:00:00",
	"u_1": "123e4567-e89b-12d3-a456-426614174000", "u_upper": "123E4567-E89B-12D3-A456-426614174000", "u_short": "123e4567",
	"ip_1": "192.168.0.1", "ip_256": "256.1.1.1",
	"du_1": "1h2m3s", "du_90m": "90m", "du_1h30m0s": "1h30m0s", "du_frac": "1.5s", "du_bad": "1x",
	"si_12": "12", "si_neg": "-7", "si_7": "7", "si_frac": "1.5", "si_big": "9223372036854775808",
	"du_neg250ms": "-250ms", "du_neg1ns": "-1ns", "du_neg90m": "-90m", "du_neg1h30m0s": "-1h30m0s", "du_zero": "0s", "du_us": "1.5µs",
	"su_max": "18446744073709551615", "su_over": "18446744073709551616", "sf_2p63": "9.223372036854776e+18", "sf_2p64": "1.8446744073709552e+19",
	"e": "é", "quote": `"`, "bslash": `\`, "nl": "\n", "nul": "\x00", "ls": "\u2028", "astral": "\U0001F600", "ee": "ü", "lt": "<"}

// SymbolsOf is the inverse: the symbol sequence of a concrete string.
func SymbolsOf(s string) []string {
	for k, v := range Symbols {
		if v == s && len([]rune(v)) > 1 {
			return []string{k}
		}
	}
	out := []string{}
	for _, r := range s {
		c := string(r)
		for k, v := range Symbols {
			if v == c {
				c = k
			}
		}
		out = append(out, c)
	}
	return out
}

func RenderValue(v M) any {
	switch v["t"] {
	case "null":
		return nil
	case "bool":
		return v["b"]
	case "num":
		return num(v["n"].(float64))
	case "str":
		var b strings.Builder
		for _, c := range v["s"].([]any) {
			s := c.(string)
			if x, ok := Symbols[s]; ok {
				s = x
			}
			b.WriteString(s)
		}
		return b.String()
	case "arr":
		out := []any{}
		for _, x := range v["v"].([]any) {
			out = append(out, RenderValue(x.(M)))
		}
		return out
	default:
		return orderedObj(v["m"].([]any))
	}
}

// orderedObj keeps member order (json.Marshal of a map would sort it).
type orderedObj []any

func (o orderedObj) MarshalJSON() ([]byte, error) {
	var b strings.Builder
	b.WriteByte('{')
	for i, m := range o {
		kv := m.([]any)
		if i > 0 {
			b.WriteByte(',')
		}
		k, _ := json.Marshal(kv[0].(string))
		val, err := json.Marshal(RenderValue(kv[1].(M)))
		if err != nil {
			return nil, err
		}
		b.Write(k)
		b.WriteByte(':')
		b.Write(val)
	}
	b.WriteByte('}')
	return []byte(b.String()), nil
}

// RenderSchema spells a schema record as an OpenAPI schema object; self is the component
// the schema itself is stored under.
func RenderSchema(s M, self string) M {
	f := func(k string) float64 { return s[k].(float64) }
	switch s["k"] {
	case "any":
		return M{}
	case "self":
		return M{"$ref": "#/components/schemas/" + self}
	case "ref":
		return M{"$ref": "#/components/schemas/D" + s["name"].(string)}
	case "nullable":
		out := RenderSchema(s["s"].(M), self)
		out["nullable"] = true
		return out
	case "enum":
		out := RenderSchema(s["s"].(M), self)
		var vals []any
		for _, v := range s["vals"].([]any) {
			vals = append(vals, RenderValue(v.(M)))
		}
		out["enum"] = vals
		return out
	case "bool":
		return M{"type": "boolean"}
	case "fmt":
		return M{"type": s["ty"], "format": s["name"]}
	case "str":
		out := M{"type": "string"}
		if f("minL") > 0 {
			out["minLength"] = int(f("minL"))
		}
		if f("maxL") != none {
			out["maxLength"] = int(f("maxL"))
		}
		if s["pat"].(string) != "" {
			out["pattern"] = s["pat"]
		}
		return out
	case "int", "num":
		out := M{"type": map[string]string{"int": "integer", "num": "number"}[s["k"].(string)]}
		if f("lo") != none {
			out["minimum"] = num(f("lo"))
			if s["xlo"].(bool) {
				out["exclusiveMinimum"] = true
			}
		}
		if f("hi") != none {
			out["maximum"] = num(f("hi"))
			if s["xhi"].(bool) {
				out["exclusiveMaximum"] = true
			}
		}
		if f("mult") != none {
			out["multipleOf"] = num(f("mult"))
		}
		return out
	case "arr":
		out := M{"type": "array", "items": RenderSchema(s["items"].(M), self)}
		if f("minI") > 0 {
			out["minItems"] = int(f("minI"))
		}
		if f("maxI") != none {
			out["maxItems"] = int(f("maxI"))
		}
		if s["uniq"].(bool) {
			out["uniqueItems"] = true
		}
		return out
	case "obj":
		out := M{"type": "object"}
		props := M{}
		var req []string
		for _, p := range s["props"].([]any) {
			pm := p.(M)
			if d, ok := pm["decl"].(bool); !ok || d {
				props[pm["name"].(string)] = RenderSchema(pm["s"].(M), self)
			}
			if pm["req"].(bool) {
				req = append(req, pm["name"].(string))
			}
		}
		if len(props) > 0 {
			out["properties"] = props
		}
		if len(req) > 0 {
			out["required"] = req
		}
		switch a := s["addl"].(M); a["k"] {
		case "addl_true":
		case "addl_false":
			out["additionalProperties"] = false
		default:
			out["additionalProperties"] = RenderSchema(a, self)
		}
		if f("minP") > 0 {
			out["minProperties"] = int(f("minP"))
		}
		if f("maxP") != none {
			out["maxProperties"] = int(f("maxP"))
		}
		return out
	default: // allOf oneOf anyOf
		var ss []any
		for _, x := range s["ss"].([]any) {
			ss = append(ss, RenderSchema(x.(M), self))
		}
		out := M{s["k"].(string): ss}
		if d, ok := s["disc"].(M); ok {
			mapping := M{}
			for i, t := range d["tags"].([]any) {
				mapping[t.(string)] = ss[i].(M)["$ref"]
			}
			out["discriminator"] = M{"propertyName": d["prop"], "mapping": mapping}
		}
		return out
	}
}

func normalize(s M) M {
	b, _ := json.Marshal(s)
	var out M
	json.Unmarshal(b, &out)
	return out
}

func pick[T any](rng *rand.Rand, xs ...T) T { return xs[rng.IntN(len(xs))] }

func randLeaf(rng *rand.Rand) M {
	if len(Defs) > 0 && rng.IntN(8) == 0 {
		names := make([]string, 0, len(Defs))
		for n := range Defs {
			names = append(names, n)
		}
		sort.Strings(names)
		return M{"k": "ref", "name": pick(rng, names...)}
	}
	switch rng.IntN(5) {
	case 0:
		return M{"k": "bool"}
	case 1:
		minL := pick(rng, 0, 0, 1, 2)
		maxL := pick(rng, none, none, 1, 2, 3)
		if maxL != none && int(maxL) < minL {
			maxL = none
		}
		return M{"k": "str", "minL": minL, "maxL": maxL, "pat": pick(rng, "", "", "^a+$", "b")}
	case 2:
		return M{"k": "int", "lo": pick(rng, none, none, 0, 10, 20), "hi": pick(rng, none, none, 20, 30), "xlo": rng.IntN(3) == 0, "xhi": rng.IntN(3) == 0, "mult": pick(rng, none, none, 20, 30)}
	case 3:
		return M{"k": "num", "lo": pick(rng, none, none, 5, 10), "hi": pick(rng, none, none, 15, 20), "xlo": rng.IntN(3) == 0, "xhi": rng.IntN(3) == 0, "mult": pick(rng, none, none, 1, 5, 10, 15)}
	}
	// enum over a primitive
	switch rng.IntN(3) {
	case 0:
		return M{"k": "enum", "vals": []any{M{"t": "str", "s": []string{"a"}}, M{"t": "str", "s": pick(rng, []string{"b", "b"}, []string{}, []string{"a", "b"})}}, "s": M{"k": "str", "minL": 0, "maxL": none, "pat": ""}}
	case 1:
		return M{"k": "enum", "vals": []any{M{"t": "num", "n": pick(rng, 0, 10, 20)}, M{"t": "num", "n": 30}}, "s": M{"k": "int", "lo": none, "hi": none, "xlo": false, "xhi": false, "mult": none}}
	}
	return M{"k": "enum", "vals": []any{M{"t": "num", "n": pick(rng, 5, 15, 1)}, M{"t": "num", "n": 10}}, "s": M{"k": "num", "lo": none, "hi": none, "xlo": false, "xhi": false, "mult": none}}
}

// randSchema draws a schema of the constructor language of spec/SchemaValid.tla.
func randSchema(rng *rand.Rand, depth int, root bool) M {
	if depth <= 0 {
		return randLeaf(rng)
	}
	switch rng.IntN(9) {
	case 0, 1:
		return M{"k": "arr", "items": randSchema(rng, depth-1, false), "minI": pick(rng, 0, 0, 1, 2), "maxI": pick(rng, none, none, 2, 3), "uniq": rng.IntN(3) == 0}
	case 2, 3, 4:
		var props []any
		for _, n := range []string{"a", "b", "c"} {
			if rng.IntN(3) > 0 {
				ps := randSchema(rng, depth-1, false)
				req := rng.IntN(2) == 0
				if root && !req && rng.IntN(6) == 0 {
					ps = M{"k": "self"}
				}
				props = append(props, M{"name": n, "s": ps, "req": req, "decl": true})
			}
		}
		if props == nil {
			props = []any{}
		}
		addl := pick(rng, M{"k": "addl_true"}, M{"k": "addl_false"}, M{"k": "addl_false"}, randLeaf(rng))
		return M{"k": "obj", "props": props, "addl": addl, "minP": pick(rng, 0, 0, 0, 1, 2), "maxP": pick(rng, none, none, none, 2, 3)}
	case 5:
		in := randSchema(rng, depth-1, false)
		// (members beside a $ref are ignored in OpenAPI 3.0: nullable is never put next to one)
		if in["k"] == "nullable" || in["k"] == "any" || in["k"] == "ref" {
			return in
		}
		return M{"k": "nullable", "s": in}
	case 6:
		// sum of variants of different JSON types
		kinds := rng.Perm(4)[:2+rng.IntN(2)]
		var ss []any
		for _, k := range kinds {
			var v M
			for v == nil {
				switch k {
				case 0, 1:
					v = randLeaf(rng)
				case 2:
					v = M{"k": "arr", "items": randSchema(rng, depth-1, false), "minI": pick(rng, 0, 0, 1), "maxI": none, "uniq": false}
				default:
					v = pick(rng, M{"k": "bool"}, M{"k": "obj", "props": []any{M{"name": "a", "s": randSchema(rng, depth-1, false), "req": true, "decl": true}}, "addl": M{"k": "addl_false"}, "minP": 0, "maxP": none})
				}
				t := v["k"]
				if t == "enum" {
					t = v["s"].(M)["k"]
				}
				if (k == 0 && t != "str") || (k == 1 && t != "int" && t != "num") {
					v = nil
				}
			}
			ss = append(ss, v)
		}
		return M{"k": pick(rng, "oneOf", "oneOf", "anyOf"), "ss": ss}
	case 7:
		mk := func(n string) M {
			return M{"k": "obj", "props": []any{M{"name": n, "s": randSchema(rng, depth-1, false), "req": rng.IntN(2) == 0, "decl": true}}, "addl": M{"k": "addl_true"}, "minP": 0, "maxP": none}
		}
		return M{"k": "allOf", "ss": []any{mk("a"), mk(pick(rng, "b", "c"))}}
	}
	return randLeaf(rng)
}

// Defs are the shared components of spec/SchemaValid.tla (set by Load); every generated
// document carries all of them.
var Defs map[string]M

// Load returns the schema domain and the canonical instance sequence emitted by TLC.
func Load(r *core.Run) (schemas []M, insts []M, aux string, err error) {
	emit := func(mode string) ([][]byte, error) {
		return obs.Emit(r, "SchemaValidEmit", tlc.Cfg(`CONSTANT Mode = "`+mode+`"`, "INIT Init", "NEXT Next"), 10*time.Minute)
	}
	sl, err := emit("schemas")
	if err != nil {
		return nil, nil, "", err
	}
	for _, l := range sl {
		var v struct {
			Schema M `json:"schema"`
		}
		if err := json.Unmarshal(l, &v); err != nil {
			return nil, nil, "", err
		}
		schemas = append(schemas, v.Schema)
	}
	dl, err := emit("defs")
	if err != nil {
		return nil, nil, "", err
	}
	Defs = map[string]M{}
	for _, l := range dl {
		var v struct {
			Name   string `json:"name"`
			Schema M      `json:"schema"`
		}
		if err := json.Unmarshal(l, &v); err != nil {
			return nil, nil, "", err
		}
		Defs[v.Name] = v.Schema
	}
	// the spec's table of symbol lengths has to describe the texts this harness sends
	yl, err := emit("syms")
	if err != nil {
		return nil, nil, "", err
	}
	for _, l := range yl {
		var v struct {
			Sym  string `json:"sym"`
			Len  int    `json:"len"`
			HasB bool   `json:"hasb"`
		}
		if err := json.Unmarshal(l, &v); err != nil {
			return nil, nil, "", err
		}
		if t, ok := Symbols[v.Sym]; !ok || len([]rune(t)) != v.Len || strings.Contains(t, "b") != v.HasB {
			return nil, nil, "", fmt.Errorf("%w: symbol %q: spec says %d characters, hasb=%v; harness text %q", tlc.ErrInfra, v.Sym, v.Len, v.HasB, t)
		}
	}
	il, err := emit("insts")
	if err != nil {
		return nil, nil, "", err
	}
	aux = filepath.Join(r.Scratch, "instances.ndjson")
	if err := os.WriteFile(aux, append(bytes.Join(il, []byte("\n")), '\n'), 0o644); err != nil {
		return nil, nil, "", err
	}
	for _, l := range il {
		var v struct {
			V M `json:"v"`
		}
		if err := json.Unmarshal(l, &v); err != nil {
			return nil, nil, "", err
		}
		insts = append(insts, v.V)
	}
	return schemas, insts, aux, nil
}

// SpecFor renders schemas [lo,hi) as one document: POST /s<i> with body schema S<i>.
func SpecFor(schemas []M, lo, hi int) []byte {
	comps := M{}
	paths := M{}
	for n, d := range Defs {
		comps["D"+n] = RenderSchema(d, "D"+n)
	}
	for i := lo; i < hi; i++ {
		name := fmt.Sprintf("S%d", i)
		comps[name] = RenderSchema(schemas[i], name)
		paths[fmt.Sprintf("/s%d", i)] = M{"post": M{"operationId": fmt.Sprintf("postS%d", i),
			"requestBody": M{"required": true, "content": M{"application/json": M{"schema": M{"$ref": "#/components/schemas/" + name}}}},
			"responses":   M{"200": M{"description": "ok", "content": M{"application/json": M{"schema": M{"$ref": "#/components/schemas/" + name}}}}}}}
		if ParamEligible(schemas[i]) {
			paths[fmt.Sprintf("/q%d", i)] = M{"get": M{"operationId": fmt.Sprintf("getQ%d", i),
				"parameters": []any{M{"name": "v", "in": "query", "required": true, "schema": RenderSchema(schemas[i], name)}},
				"responses":  M{"200": M{"description": "ok"}}}}
		}
	}
	b, _ := json.Marshal(M{"openapi": "3.0.3", "info": M{"title": "t", "version": "1"}, "paths": paths, "components": M{"schemas": comps}})
	return b
}

func primKind(s M) string {
	switch s["k"] {
	case "str", "int", "num", "bool":
		return s["k"].(string)
	case "fmt":
		if s["ty"] == "string" {
			return "str"
		}
		return "int"
	case "enum":
		return primKind(s["s"].(M))
	}
	return ""
}

// ParamEligible: primitive schemas (and enums over them) and arrays of such.
func ParamEligible(s M) bool {
	if primKind(s) != "" {
		return true
	}
	return s["k"] == "arr" && primKind(s["items"].(M)) != ""
}

func leafText(kind string, v M) (string, bool) {
	switch {
	case kind == "str" && v["t"] == "str":
		return RenderValue(v).(string), true
	case (kind == "int" || kind == "num") && v["t"] == "num":
		b, _ := json.Marshal(RenderValue(v))
		return string(b), true
	case kind == "bool" && v["t"] == "bool":
		b, _ := json.Marshal(v["b"])
		return string(b), true
	}
	return "", false
}

// QueryFor spells an instance as the query string of parameter v, if it has a spelling.
func QueryFor(s M, v M) (string, bool) {
	if k := primKind(s); k != "" {
		t, ok := leafText(k, v)
		if !ok {
			return "", false
		}
		return "v=" + url.QueryEscape(t), true
	}
	if v["t"] != "arr" || len(v["v"].([]any)) == 0 {
		return "", false
	}
	var parts []string
	for _, it := range v["v"].([]any) {
		t, ok := leafText(primKind(s["items"].(M)), it.(M))
		if !ok {
			return "", false
		}
		parts = append(parts, "v="+url.QueryEscape(t))
	}
	return strings.Join(parts, "&"), true
}

func glue(pkg string) string {
	return fmt.Sprintf(`package main

import (
	"net/http"

	"github.com/ogen-go/ogen/middleware"

	api "vmod/%[1]s"
)

func init() {
	register(%[1]q, func(mw middleware.Middleware) (http.Handler, error) {
		return api.NewServer(api.UnimplementedHandler{}, api.WithMiddleware(mw))
	})
}
`, pkg)
}

// AddRandom appends up to n seeded random schemas of the constructor language.
func AddRandom(schemas []M, n int, seed uint64) []M {
	rng := rand.New(rand.NewPCG(seed, 0xC03))
	seen := map[string]bool{}
	base := len(schemas)
	for _, s := range schemas {
		b, _ := json.Marshal(s)
		seen[string(b)] = true
	}
	for k := 0; k < n*4 && len(seen) < base+n; k++ {
		s := normalize(randSchema(rng, 2+rng.IntN(2), true))
		b, _ := json.Marshal(s)
		if !seen[string(b)] {
			seen[string(b)] = true
			schemas = append(schemas, s)
		}
	}
	return schemas
}

// Pkg is one generated package holding the operations of schemas [Lo,Hi).
type Pkg struct {
	Name   string
	Lo, Hi int
}

// GenPackages regenerates servers for the schemas (40 per package; a refused batch is
// bisected so that one unsupported schema does not hide the others) and writes the
// driver with one glue file per package.
func GenPackages(mod *gencode.Module, schemas []M, driver string) (pkgs []Pkg, refused map[int]string, err error) {
	refused = map[int]string{}
	var tryGen func(lo, hi int)
	tryGen = func(lo, hi int) {
		name := fmt.Sprintf("v%d_%d", lo, hi)
		opts := gencode.ServerOnly()
		_, err := mod.Generate(name, SpecFor(schemas, lo, hi), opts)
		if err == nil {
			pkgs = append(pkgs, Pkg{name, lo, hi})
			return
		}
		os.RemoveAll(filepath.Join(mod.Dir, name))
		if hi-lo == 1 {
			refused[lo] = firstLine(err.Error())
			return
		}
		mid := (lo + hi) / 2
		tryGen(lo, mid)
		tryGen(mid, hi)
	}
	for lo := 0; lo < len(schemas); lo += 40 {
		tryGen(lo, min(lo+40, len(schemas)))
	}
	for _, p := range pkgs {
		if err := mod.WriteFile("drv/glue_"+p.Name+".go", []byte(glue(p.Name))); err != nil {
			return nil, nil, err
		}
	}
	if err := mod.WriteFile("drv/main.go", []byte(driver)); err != nil {
		return nil, nil, err
	}
	return pkgs, refused, nil
}

// Check is the C03 entry point.
func Check(r *core.Run) error {
	r.SetRule("spec/SchemaValid.tla defines Valid(schema, instance) for the keyword fragment (type, properties/required, additionalProperties false|schema, items, enum, nullable, min/max incl. exclusive, multipleOf, min/maxLength, pattern, min/maxItems, uniqueItems, min/maxProperties, allOf, oneOf/anyOf, recursion) on exact values; TLC checks validator laws and non-vacuity on the whole domain. " +
		"TLC emits the schema domain (every keyword alone and in combinations, 9- and 17-property objects for the required-mask byte boundaries, a recursive list node) and the instance domain (all leaves, arrays and objects of the bounded universe incl. boundary values, wrong types, null, missing/extra members, nesting); each schema becomes the required JSON body of one operation of a regenerated server, " +
		"each instance is posted to each schema (schema x instance exhaustive) and TLC judges accepted/refused against Valid. Non-trivial = every pair; distinct = (schema kind, instance kind, accepted).")
	res, err := tlc.Run(nil, tlc.Options{SpecDir: obs.SpecDir, Module: "SchemaValidMC", Timeout: 20 * time.Minute, Scratch: r.Scratch, Workers: 8, Heap: "8g",
		Cfg: tlc.Cfg("INIT Init", "NEXT Next", "INVARIANTS Laws NonVacuous DevObservable", "CHECK_DEADLOCK FALSE")})
	if err != nil {
		return err
	}
	if res.Violated != "" {
		return fmt.Errorf("%w: SchemaValidMC violates %s\n%s", tlc.ErrInfra, res.Violated, tlc.Tail(res, 30))
	}
	r.AddStates(res.Distinct, res.Generated)
	schemas, insts, aux, err := Load(r)
	if err != nil {
		return err
	}
	nRand := 60
	if r.Thorough() {
		nRand = 900
	}
	base := len(schemas)
	schemas = AddRandom(schemas, nRand, uint64(r.Seed))
	r.Cov("random_schemas", len(schemas)-base)
	r.Cov("schemas", len(schemas))
	r.Cov("instances", len(insts))
	r.SetExhaustive(true)
	bodies := make([]string, len(insts))
	for i, v := range insts {
		b, err := json.Marshal(RenderValue(v))
		if err != nil {
			return err
		}
		bodies[i] = string(b)
	}
	mod, err := gencode.NewModule(r.Scratch, "mod")
	if err != nil {
		return err
	}
	pkgs, refused, err := GenPackages(mod, schemas, driverMain)
	if err != nil {
		return err
	}
	r.Cov("schemas_refused_by_generator", len(refused))
	if len(refused) > 0 {
		var rs []string
		for i, e := range refused {
			sb, _ := json.Marshal(RenderSchema(schemas[i], "S"))
			rs = append(rs, string(sb)+": "+e)
		}
		r.Cov("refused", rs)
	}
	bin, err := mod.Build("drv", "drv")
	if err != nil {
		return err
	}
	type rq struct {
		Path  string `json:"path"`
		Query string `json:"query"`
		Body  string `json:"body"`
	}
	got := make([][]int, len(schemas))
	gotQ := make([][]int, len(schemas))
	for _, p := range pkgs {
		var reqs []rq
		type slot struct {
			schema, inst int
			query        bool
		}
		var slots []slot
		for i := p.Lo; i < p.Hi; i++ {
			for k, b := range bodies {
				reqs = append(reqs, rq{Path: fmt.Sprintf("/s%d", i), Body: b})
				slots = append(slots, slot{i, k, false})
			}
			got[i] = make([]int, len(bodies))
			if ParamEligible(schemas[i]) {
				gotQ[i] = make([]int, len(bodies))
				for k := range bodies {
					gotQ[i][k] = 3
					if q, ok := QueryFor(schemas[i], insts[k]); ok {
						reqs = append(reqs, rq{Path: fmt.Sprintf("/q%d", i), Query: q})
						slots = append(slots, slot{i, k, true})
					}
				}
			}
		}
		out := filepath.Join(r.Scratch, p.Name+".out")
		job, _ := json.Marshal(M{"pkg": p.Name, "reqs": reqs, "out": out})
		jf := filepath.Join(r.Scratch, p.Name+".job")
		os.WriteFile(jf, job, 0o644)
		if o, err := gencode.Run(bin, nil, jf); err != nil {
			return fmt.Errorf("driver %s: %v\n%s", p.Name, err, o)
		}
		raw, err := os.ReadFile(out)
		if err != nil {
			return err
		}
		var res []int
		if err := json.Unmarshal(raw, &res); err != nil {
			return err
		}
		for n, sl := range slots {
			if sl.query {
				gotQ[sl.schema][sl.inst] = res[n]
			} else {
				got[sl.schema][sl.inst] = res[n]
			}
		}
	}
	var lines [][]byte
	var idx []int
	var modes []string
	nQ := 0
	for i := range schemas {
		for _, mg := range []struct {
			mode string
			g    []int
		}{{"body", got[i]}, {"query", gotQ[i]}} {
			if mg.g == nil {
				continue
			}
			b, _ := json.Marshal(M{"schema": schemas[i], "got": mg.g, "mode": mg.mode})
			lines = append(lines, b)
			idx = append(idx, i)
			modes = append(modes, mg.mode)
			for k, x := range mg.g {
				if x != 3 {
					r.Nontrivial(fmt.Sprintf("%s|%v|%v|%d", mg.mode, schemas[i]["k"], insts[k]["t"], x))
					if mg.mode == "query" {
						nQ++
					}
				}
			}
		}
		if i%9 == 0 && got[i] != nil {
			sb, _ := json.Marshal(RenderSchema(schemas[i], "S"))
			k := (i * 7) % len(bodies)
			r.Sample(M{"schema": string(sb), "instance": bodies[k], "accepted": got[i][k]})
		}
	}
	r.Cov("query_parameter_evaluations", nQ)
	r.AddEvals(int64(len(lines) * len(bodies)))
	vs, err := obs.Check(r, lines, obs.CheckOpts{Module: "SchemaValidCheck", Cfg: obs.StdCfg("KnownDeviations = " + r.KnownSet()), ChunkSize: 8, Parallel: 10, Env: map[string]string{"VERIF_AUX": aux}})
	if err != nil {
		return err
	}
	for _, v := range vs {
		i := idx[v.Index]
		sb, _ := json.Marshal(RenderSchema(schemas[i], fmt.Sprintf("S%d", i)))
		var k int
		inst := ""
		if j := strings.LastIndex(v.Kind, "-"); j >= 0 {
			if _, err := fmt.Sscanf(v.Kind[j+1:], "%d", &k); err == nil && k >= 1 && k <= len(bodies) {
				inst = fmt.Sprintf(" instance %s as %s", bodies[k-1], modes[v.Index])
			}
		}
		what := fmt.Sprintf("schema %s%s: %s", sb, inst, v.Kind)
		switch {
		case strings.HasPrefix(v.Kind, "known="):
			dev := strings.TrimPrefix(v.Kind, "known=")
			if j := strings.LastIndex(dev, "-"); j >= 0 {
				dev = dev[:j]
			}
			r.KnownHit(dev, what)
		case strings.HasPrefix(v.Kind, "drift"):
			r.Drift(what)
		default:
			r.Violate(what, M{"schema": schemas[i], "verdict": v.Kind})
		}
	}
	return nil
}

func firstLine(s string) string {
	if i := strings.IndexByte(s, '\n'); i >= 0 {
		s = s[:i]
	}
	if len(s) > 240 {
		s = s[:240]
	}
	return s
}

// Replay re-runs the check.
func Replay(r *core.Run, path string) error { return Check(r) }
