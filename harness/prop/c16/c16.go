// Package c16 decides C16 (JSON Pointer resolution) — spec/JSONPointer*.tla.
package c16

import (
	"encoding/json"
	"fmt"
	"math/rand/v2"
	"os"
	"strconv"
	"strings"
	"time"

	"github.com/go-faster/yaml"

	"github.com/ogen-go/ogen"
	"github.com/ogen-go/ogen/jsonpointer"
	"github.com/ogen-go/ogen/openapi/parser"

	"verif/internal/bx"
	"verif/internal/core"
	"verif/internal/obs"
	"verif/internal/tlc"
)

// Doc mirrors the node records of spec/JSONPointer.tla.
type Doc struct {
	K    string  `json:"k"`
	Keys [][]int `json:"keys"`
	Vals []Doc   `json:"vals"`
}

var leaf = Doc{K: "leaf", Keys: [][]int{}, Vals: []Doc{}}

type observation struct {
	D    int    `json:"d"`
	Doc  Doc    `json:"doc"`
	Ptr  []int  `json:"ptr"`
	Kind string `json:"kind"`
	Path []int  `json:"path"`
}

// renderJSON spells the document as JSON text; leaves are distinct integers.
func renderJSON(d Doc, n *int, b *strings.Builder) {
	switch d.K {
	case "map":
		b.WriteByte('{')
		for i := range d.Keys {
			if i > 0 {
				b.WriteByte(',')
			}
			k, _ := json.Marshal(bx.Str(d.Keys[i]))
			b.Write(k)
			b.WriteByte(':')
			renderJSON(d.Vals[i], n, b)
		}
		b.WriteByte('}')
	case "seq":
		b.WriteByte('[')
		for i := range d.Vals {
			if i > 0 {
				b.WriteByte(',')
			}
			renderJSON(d.Vals[i], n, b)
		}
		b.WriteByte(']')
	default:
		*n++
		b.WriteString(strconv.Itoa(*n))
	}
}

// renderYAML spells the same document in YAML block style (keys double-quoted so
// that they stay strings).
func renderYAML(d Doc, indent int, n *int, b *strings.Builder) {
	pad := strings.Repeat("  ", indent)
	switch d.K {
	case "map":
		if len(d.Keys) == 0 {
			b.WriteString(" {}\n")
			return
		}
		b.WriteByte('\n')
		for i := range d.Keys {
			k, _ := json.Marshal(bx.Str(d.Keys[i]))
			b.WriteString(pad)
			b.Write(k)
			b.WriteByte(':')
			renderYAML(d.Vals[i], indent+1, n, b)
		}
	case "seq":
		if len(d.Vals) == 0 {
			b.WriteString(" []\n")
			return
		}
		b.WriteByte('\n')
		for i := range d.Vals {
			b.WriteString(pad)
			b.WriteString("-")
			renderYAML(d.Vals[i], indent+1, n, b)
		}
	default:
		*n++
		b.WriteString(" " + strconv.Itoa(*n) + "\n")
	}
}

type tree struct {
	root *yaml.Node
}

func parse(text string) (*yaml.Node, error) {
	var n yaml.Node
	if err := yaml.Unmarshal([]byte(text), &n); err != nil {
		return nil, err
	}
	return &n, nil
}

// pathOf finds the position path of target below n (document nodes unwrapped).
func pathOf(n, target *yaml.Node) ([]int, bool) {
	if n.Kind == yaml.DocumentNode && len(n.Content) > 0 {
		n = n.Content[0]
	}
	if n == target {
		return []int{}, true
	}
	switch n.Kind {
	case yaml.MappingNode:
		for i := 0; i+1 < len(n.Content); i += 2 {
			if p, ok := pathOf(n.Content[i+1], target); ok {
				return append([]int{i/2 + 1}, p...), true
			}
		}
	case yaml.SequenceNode:
		for i, c := range n.Content {
			if p, ok := pathOf(c, target); ok {
				return append([]int{i + 1}, p...), true
			}
		}
	}
	return nil, false
}

func observe(root *yaml.Node, ptr string) (kind string, path []int) {
	path = []int{}
	defer func() {
		if e := recover(); e != nil {
			kind, path = "panic", []int{}
		}
	}()
	got, err := jsonpointer.Resolve(ptr, root)
	if err != nil {
		return "err", path
	}
	p, ok := pathOf(root, got)
	if !ok {
		return "foreign", path // a node that is not part of the document
	}
	return "node", p
}

// mutants returns single-edit variants of a pointer text.
func mutants(p string, rng *rand.Rand, k int) []string {
	var out []string
	const ins = "~/%#012-+ a"
	for i := 0; i < k; i++ {
		b := []byte(p)
		switch rng.IntN(3) {
		case 0:
			if len(b) > 0 {
				j := rng.IntN(len(b))
				b = append(b[:j], b[j+1:]...)
			}
		case 1:
			if len(b) > 0 {
				b[rng.IntN(len(b))] = ins[rng.IntN(len(ins))]
			}
		default:
			j := rng.IntN(len(b) + 1)
			b = append(b[:j], append([]byte{ins[rng.IntN(len(ins))]}, b[j:]...)...)
		}
		out = append(out, string(b))
	}
	return out
}

var nameAlphabet = []string{"", "a", "b", "0", "1", "01", "10", "~", "/", "~0", "~1", "~01", "a/b", "m~n", "%", "%25", "%2F", "-", " ", "#", "é", " ", "\"", "\\", "a b", "+1", "00", "k", "a+b", "x=y", "a&b", "p;q", "c:d", "e@f", "g,h", "i.j", "(k)", "l*m", "n!o", "$"}

func randomDoc(rng *rand.Rand, depth int) Doc {
	if depth == 0 || rng.IntN(4) == 0 {
		return leaf
	}
	if rng.IntN(2) == 0 {
		n := rng.IntN(4)
		perm := rng.Perm(len(nameAlphabet))
		d := Doc{K: "map", Keys: [][]int{}, Vals: []Doc{}}
		for i := 0; i < n; i++ {
			d.Keys = append(d.Keys, bx.Ints(nameAlphabet[perm[i]]))
			d.Vals = append(d.Vals, randomDoc(rng, depth-1))
		}
		return d
	}
	n := rng.IntN(12)
	if rng.IntN(3) > 0 {
		n = rng.IntN(3)
	}
	d := Doc{K: "seq", Keys: [][]int{}, Vals: []Doc{}}
	for i := 0; i < n; i++ {
		d.Vals = append(d.Vals, randomDoc(rng, depth-1))
	}
	return d
}

func escTok(s string) string {
	return strings.ReplaceAll(strings.ReplaceAll(s, "~", "~0"), "/", "~1")
}

// allPointers lists a valid plain pointer to every node of d.
func allPointers(d Doc, prefix string, out *[]string) {
	*out = append(*out, prefix)
	switch d.K {
	case "map":
		for i := range d.Keys {
			allPointers(d.Vals[i], prefix+"/"+escTok(bx.Str(d.Keys[i])), out)
		}
	case "seq":
		for i := range d.Vals {
			allPointers(d.Vals[i], prefix+"/"+strconv.Itoa(i), out)
		}
	}
}

func fragment(p string, rng *rand.Rand) string {
	var b strings.Builder
	b.WriteByte('#')
	for i := 0; i < len(p); i++ {
		c := p[i]
		safe := c >= 'a' && c <= 'z' || c >= '0' && c <= '9' || c == '/' || c == '~' || c == '-' || c == '+' || c == '=' || c == '!' || c == '$' || c == '&' || c == '(' || c == ')' || c == '*' || c == ',' || c == ';' || c == ':' || c == '@' || c == '.' || c == '_'
		if safe && rng.IntN(4) > 0 {
			b.WriteByte(c)
		} else if rng.IntN(2) == 0 {
			fmt.Fprintf(&b, "%%%02X", c)
		} else {
			fmt.Fprintf(&b, "%%%02x", c)
		}
	}
	return b.String()
}

func verdictCfg(r *core.Run) string { return obs.StdCfg("KnownDeviations = " + r.KnownSet()) }

// Check is the C16 entry point.
func Check(r *core.Run) error {
	r.SetRule("TLC enumerates, for three fixed adversarial documents, every pointer of up to MaxToks raw tokens (escaped/unescaped member names, index-like and malformed tokens) " +
		"in plain, fragment and over-encoded fragment spelling; seeded random trees add a valid pointer to every node in both spellings plus single-edit mutants, on JSON- and YAML-spelled documents. " +
		"Each (document, pointer) is resolved by jsonpointer.Resolve and the returned node's position path is judged by TLC against Allowed(doc, ptr) of spec/JSONPointer.tla. " +
		"Non-trivial = the pointer has at least one token; distinct = distinct (pointer token-class word, outcome kind, depth) classes.")
	maxToks, mcToks, nDocs := 2, 3, 150
	if r.Thorough() {
		maxToks, mcToks, nDocs = 3, 3, 3000
	}
	// model level: implementation layer refines the abstract layer; vacuity guard with the deviation on
	mcCfg := func(toks int, devs string) string {
		return tlc.Cfg("CONSTANTS", fmt.Sprintf(" MaxToks = %d", toks), " Devs = "+devs, "INIT Init", "NEXT Next", "INVARIANT Refines", "CHECK_DEADLOCK FALSE")
	}
	res, err := tlc.Run(nil, tlc.Options{SpecDir: obs.SpecDir, Module: "JSONPointerMC", Cfg: mcCfg(mcToks, "{}"), Timeout: 15 * time.Minute, Scratch: r.Scratch, Workers: 8, Heap: "8g"})
	if err != nil {
		return err
	}
	if res.Violated != "" {
		return fmt.Errorf("%w: JSONPointerMC: implementation layer does not refine the abstract layer: %s\n%s", tlc.ErrInfra, res.Violated, tlc.Tail(res, 25))
	}
	r.AddStates(res.Distinct, res.Generated)
	r.Cov("mc_states", res.Distinct)
	res, err = tlc.Run(nil, tlc.Options{SpecDir: obs.SpecDir, Module: "JSONPointerMC", Cfg: mcCfg(2, `{"Dev_LeadingZeroIndex"}`), Timeout: 5 * time.Minute, Scratch: r.Scratch, Workers: 4})
	if err != nil {
		return err
	}
	if res.Violated == "" {
		return fmt.Errorf("%w: JSONPointerMC accepts Dev_LeadingZeroIndex: vacuous", tlc.ErrInfra)
	}

	// B1: fixed documents and enumerated pointers
	emitCfg := func(mode string) string {
		return tlc.Cfg("CONSTANTS", fmt.Sprintf(" MaxToks = %d", maxToks), ` Mode = "`+mode+`"`, "INIT Init", "NEXT Next")
	}
	dl, err := obs.Emit(r, "JSONPointerEmit", emitCfg("docs"), 5*time.Minute)
	if err != nil {
		return err
	}
	var fixed []Doc
	for _, l := range dl {
		var v struct {
			D   int `json:"d"`
			Doc Doc `json:"doc"`
		}
		if err := json.Unmarshal(l, &v); err != nil {
			return err
		}
		fixed = append(fixed, v.Doc)
	}
	pl, err := obs.Emit(r, "JSONPointerEmit", emitCfg("ptrs"), 15*time.Minute)
	if err != nil {
		return err
	}
	type item struct {
		d    int
		doc  Doc
		ptr  string
		yaml bool
	}
	var items []item
	for _, l := range pl {
		var v struct {
			D   int   `json:"d"`
			Ptr []int `json:"ptr"`
		}
		if err := json.Unmarshal(l, &v); err != nil {
			return err
		}
		items = append(items, item{d: v.D, ptr: bx.Str(v.Ptr)})
	}
	r.Cov("enumerated_pointer_vectors", len(items))
	r.SetExhaustive(true)
	// regression inputs of past findings
	for _, p := range []string{"/01/01", "/1/01", "/0/01/01", "/4/01", "/4/00"} {
		items = append(items, item{d: 1, ptr: p}, item{d: 2, ptr: p}, item{d: 2, ptr: "#" + p})
	}
	// seeded random trees
	rng := rand.New(rand.NewPCG(uint64(r.Seed), 0xC16))
	for i := 0; i < nDocs; i++ {
		d := randomDoc(rng, 4)
		var ptrs []string
		allPointers(d, "", &ptrs)
		for _, p := range ptrs {
			y := rng.IntN(2) == 0
			items = append(items, item{doc: d, ptr: p, yaml: y}, item{doc: d, ptr: fragment(p, rng), yaml: !y})
			for _, m := range mutants(p, rng, 2) {
				items = append(items, item{doc: d, ptr: m, yaml: y})
			}
			for _, m := range mutants(fragment(p, rng), rng, 1) {
				items = append(items, item{doc: d, ptr: m, yaml: y})
			}
		}
		if i%50 == 0 {
			var b strings.Builder
			n := 0
			renderJSON(d, &n, &b)
			r.Sample(map[string]any{"random_doc": b.String(), "pointers": ptrs})
		}
	}

	// parse every distinct document once per spelling
	type key struct {
		d    int
		text string
		yaml bool
	}
	cache := map[key]*yaml.Node{}
	rootOf := func(it item) (*yaml.Node, error) {
		d := it.doc
		if it.d > 0 {
			d = fixed[it.d-1]
		}
		var b strings.Builder
		n := 0
		renderJSON(d, &n, &b)
		k := key{it.d, b.String(), it.yaml}
		if root, ok := cache[k]; ok {
			return root, nil
		}
		text := b.String()
		if it.yaml {
			var yb strings.Builder
			n = 0
			renderYAML(d, 0, &n, &yb)
			text = strings.TrimPrefix(yb.String(), " ")
		}
		root, err := parse(text)
		if err != nil {
			return nil, fmt.Errorf("document does not parse (%v): %q", err, text)
		}
		cache[k] = root
		return root, nil
	}

	lines := make([][]byte, 0, len(items))
	all := make([]observation, 0, len(items))
	for i, it := range items {
		for _, y := range []bool{false, true} {
			if it.d == 0 && y != it.yaml {
				continue
			}
			it.yaml = y
			root, err := rootOf(it)
			if err != nil {
				return err
			}
			kind, path := observe(root, it.ptr)
			o := observation{D: it.d, Doc: leaf, Ptr: bx.Ints(it.ptr), Kind: kind, Path: path}
			if it.d == 0 {
				o.Doc = it.doc
			}
			b, _ := json.Marshal(o)
			lines = append(lines, b)
			all = append(all, o)
			if strings.Count(it.ptr, "/") > 0 {
				r.Nontrivial(ptrClass(it.ptr) + "|" + kind + "|" + strconv.Itoa(len(path)))
			}
			if i%40000 == 3 && !y {
				r.Sample(map[string]any{"doc": it.d, "ptr": it.ptr, "kind": kind, "path": path})
			}
		}
	}
	r.AddEvals(int64(len(lines)))
	vs, err := obs.Check(r, lines, obs.CheckOpts{Module: "JSONPointerCheck", Cfg: verdictCfg(r), ChunkSize: 25000})
	if err != nil {
		return err
	}
	for _, v := range vs {
		o := all[v.Index]
		what := fmt.Sprintf("jsonpointer.Resolve(%q) on document %s -> %s %v", bx.Str(o.Ptr), docText(o, fixed), o.Kind, o.Path)
		switch {
		case v.Kind == "drift":
			r.Drift(what)
		case strings.HasPrefix(v.Kind, "known="):
			r.KnownHit(strings.TrimPrefix(v.Kind, "known="), what)
		default:
			r.Violate(what+" is outside Allowed(doc, ptr) of spec/JSONPointer.tla", map[string]any{"obs": o})
		}
	}
	if err := oasRoute(r); err != nil {
		return err
	}
	if r.Thorough() {
		// binding self-test: corrupt one recorded path
		for _, o := range all {
			if o.Kind == "node" && len(o.Path) >= 2 {
				c := o
				c.Path = append([]int{}, o.Path...)
				c.Path[len(c.Path)-1]++
				b, _ := json.Marshal(c)
				vs, err := obs.Check(r, [][]byte{b}, obs.CheckOpts{Module: "JSONPointerCheck", Cfg: obs.StdCfg("KnownDeviations = {}")})
				if err != nil {
					return err
				}
				if len(vs) != 1 || vs[0].Kind != "viol" {
					return fmt.Errorf("%w: binding self-test: corrupted observation accepted", tlc.ErrInfra)
				}
				r.Cov("binding_selftest", "corrupted observation rejected")
				break
			}
		}
	}
	return nil
}

func docText(o observation, fixed []Doc) string {
	d := o.Doc
	if o.D > 0 {
		return fmt.Sprintf("Doc%d", o.D)
	}
	var b strings.Builder
	n := 0
	renderJSON(d, &n, &b)
	return b.String()
}

func ptrClass(p string) string {
	var b strings.Builder
	for i := 0; i < len(p) && b.Len() < 14; i++ {
		c := p[i]
		switch {
		case c == '/' || c == '~' || c == '%' || c == '#' || c == '-':
			b.WriteByte(c)
		case c == '0':
			b.WriteByte('0')
		case c >= '1' && c <= '9':
			b.WriteByte('d')
		default:
			b.WriteByte('x')
		}
	}
	return b.String()
}

// Replay re-runs one stored case.
func Replay(r *core.Run, path string) error {
	b, err := os.ReadFile(path)
	if err != nil {
		return err
	}
	var f struct {
		Case struct {
			Obs observation `json:"obs"`
		} `json:"case"`
	}
	if err := json.Unmarshal(b, &f); err != nil {
		return err
	}
	r.SetRule("replay of one stored case")
	o := f.Case.Obs
	d := o.Doc
	if o.D > 0 {
		dl, err := obs.Emit(r, "JSONPointerEmit", tlc.Cfg("CONSTANTS", " MaxToks = 1", ` Mode = "docs"`, "INIT Init", "NEXT Next"), 5*time.Minute)
		if err != nil {
			return err
		}
		var v struct {
			Doc Doc `json:"doc"`
		}
		if err := json.Unmarshal(dl[o.D-1], &v); err != nil {
			return err
		}
		d = v.Doc
	}
	var sb strings.Builder
	n := 0
	renderJSON(d, &n, &sb)
	root, err := parse(sb.String())
	if err != nil {
		return err
	}
	o.Kind, o.Path = observe(root, bx.Str(o.Ptr))
	r.AddEvals(1)
	r.Sample(o)
	l, _ := json.Marshal(o)
	vs, err := obs.Check(r, [][]byte{l}, obs.CheckOpts{Module: "JSONPointerCheck", Cfg: verdictCfg(r)})
	if err != nil {
		return err
	}
	for _, v := range vs {
		if v.Kind == "viol" {
			r.Violate(fmt.Sprintf("jsonpointer.Resolve(%q) -> %s %v", bx.Str(o.Ptr), o.Kind, o.Path), map[string]any{"obs": o})
		}
	}
	return nil
}

// ---- the same relation through the OpenAPI parser's reference resolution -------------

// docOf converts a parsed document to the node records of spec/JSONPointer.tla.
func docOf(n *yaml.Node) Doc {
	if n.Kind == yaml.DocumentNode && len(n.Content) > 0 {
		n = n.Content[0]
	}
	switch n.Kind {
	case yaml.MappingNode:
		d := Doc{K: "map", Keys: [][]int{}, Vals: []Doc{}}
		for i := 0; i+1 < len(n.Content); i += 2 {
			d.Keys = append(d.Keys, bx.Ints(n.Content[i].Value))
			d.Vals = append(d.Vals, docOf(n.Content[i+1]))
		}
		return d
	case yaml.SequenceNode:
		d := Doc{K: "seq", Keys: [][]int{}, Vals: []Doc{}}
		for _, c := range n.Content {
			d.Vals = append(d.Vals, docOf(c))
		}
		return d
	}
	return leaf
}

// oasRoute checks openapi/parser's resolution of parameter references (resolveComponent:
// a lookup by name for "#/components/parameters/<name>", jsonpointer.Resolve on the raw
// document otherwise) against the same Allowed(doc, ptr): parameter objects with
// adversarial names sit under components.parameters, under an extension with the same
// inner layout and inline in an operation; every one is referred to by its exact pointer
// (plain and needlessly percent-encoded fragment) and by single-edit mutants, one
// document per reference; the parameter the operation ends up with tells the node.
func oasRoute(r *core.Run) error {
	names := []string{"limit", "0", "1", "a~b", "a/b", "%41", "A", "", "parameters", "m n", "00", "~0", "~1"}
	type place struct {
		ptr    string // RFC 6901 pointer (plain form) of the parameter object
		marker string
	}
	var places []place
	comp, shared := map[string]any{}, map[string]any{}
	k := 0
	param := func() (map[string]any, string) {
		k++
		m := fmt.Sprintf("m%d", k)
		return map[string]any{"name": m, "in": "query", "schema": map[string]any{"type": "string"}}, m
	}
	// component names must match ^[a-zA-Z0-9.\-_]+$ (OpenAPI); the extension holds every name
	for _, n := range []string{"limit", "0", "1", "A", "parameters", "00", "a.b", "-", "_"} {
		po, m := param()
		comp[n] = po
		places = append(places, place{"/components/parameters/" + escTok(n), m})
	}
	for _, n := range append(names, "a.b", "-", "_") {
		po, m := param()
		shared[n] = po
		places = append(places, place{"/x-shared/parameters/" + escTok(n), m})
	}
	// schemas under an extension, told apart by maxLength; referred to from a response
	// directly and through a component that is itself a reference
	defs := map[string]any{}
	type splace struct {
		ptr string
		max int
	}
	var splaces []splace
	for i, n := range append(names, "a%b", "a%25b", "a.b") {
		defs[n] = map[string]any{"type": "string", "maxLength": 100 + i}
		splaces = append(splaces, splace{"/x-defs/" + escTok(n), 100 + i})
	}
	in0, m0 := param()
	in1, m1 := param()
	places = append(places, place{"/paths/~1inline/get/parameters/0", m0}, place{"/paths/~1inline/get/parameters/1", m1})
	ok200 := map[string]any{"200": map[string]any{"description": "ok"}}
	base := func(ref string, nested bool) map[string]any {
		nest := map[string]any{}
		if strings.HasPrefix(ref, "S:") {
			// a schema reference
			ref = ref[2:]
			schemas := map[string]any{}
			if nested {
				schemas["N"] = map[string]any{"$ref": ref}
				ref = "#/components/schemas/N"
			}
			return map[string]any{"openapi": "3.0.3", "info": map[string]any{"title": "t", "version": "1"},
				"paths": map[string]any{
					"/use": map[string]any{"get": map[string]any{"operationId": "use", "responses": map[string]any{"200": map[string]any{"description": "ok",
						"content": map[string]any{"application/json": map[string]any{"schema": map[string]any{"$ref": ref}}}}}}},
				},
				"components": map[string]any{"schemas": schemas},
				"x-defs":     defs,
			}
		}
		if nested {
			// the operation refers to an object that is itself a reference to ref
			nest["n"] = map[string]any{"$ref": ref}
			ref = "#/x-nest/parameters/n"
		}
		return map[string]any{"openapi": "3.0.3", "x-nest": map[string]any{"parameters": nest}, "info": map[string]any{"title": "t", "version": "1"},
			"paths": map[string]any{
				"/inline": map[string]any{"get": map[string]any{"operationId": "inline", "parameters": []any{in0, in1}, "responses": ok200}},
				"/use":    map[string]any{"get": map[string]any{"operationId": "use", "parameters": []any{map[string]any{"$ref": ref}}, "responses": ok200}},
			},
			"components": map[string]any{"parameters": comp},
			"x-shared":   map[string]any{"parameters": shared},
		}
	}
	pct := func(p string) string { // needless percent-encoding of every third byte that may be encoded
		var b strings.Builder
		for i := 0; i < len(p); i++ {
			if c := p[i]; i%3 == 2 && c != '/' && c != '%' {
				fmt.Fprintf(&b, "%%%02X", c)
			} else if c == '%' {
				b.WriteString("%25")
			} else if c == ' ' {
				b.WriteString("%20")
			} else {
				b.WriteByte(c)
			}
		}
		return b.String()
	}
	frag := func(p string) string { // the minimal fragment spelling
		return strings.NewReplacer("%", "%25", " ", "%20").Replace(p)
	}
	type cse struct {
		ref    string
		must   bool
		nested bool
	}
	var cases []cse
	rng := rand.New(rand.NewPCG(uint64(r.Seed), 0xC16A))
	for _, pl := range places {
		cases = append(cases, cse{"#" + frag(pl.ptr), true, false}, cse{"#" + pct(pl.ptr), true, false}, cse{"#" + frag(pl.ptr), true, true}, cse{"#" + pct(pl.ptr), true, true})
		for _, mu := range mutants(frag(pl.ptr), rng, 4) {
			cases = append(cases, cse{"#" + mu, false, false})
		}
		cases = append(cases, cse{"#" + frag(pl.ptr) + "/", false, false})
	}
	for _, pl := range splaces {
		for _, nested := range []bool{false, true} {
			cases = append(cases, cse{"S:#" + frag(pl.ptr), true, nested}, cse{"S:#" + pct(pl.ptr), true, nested})
		}
	}
	byMarker := map[string]string{}
	for _, pl := range places {
		byMarker[pl.marker] = pl.ptr
	}
	byMax := map[int]string{}
	for _, pl := range splaces {
		byMax[pl.max] = pl.ptr
	}
	var lines [][]byte
	var desc []string
	nNode := 0
	for _, c := range cases {
		doc := base(c.ref, c.nested)
		text, err := json.Marshal(doc)
		if err != nil {
			return err
		}
		root, err := parse(string(text))
		if err != nil {
			return err
		}
		kind, path, note := func() (kind string, path []int, note string) {
			path = []int{}
			defer func() {
				if e := recover(); e != nil {
					kind, note = "panic", fmt.Sprint(e)
				}
			}()
			spec, err := ogen.Parse(text)
			if err != nil {
				return "err", path, err.Error()
			}
			api, err := parser.Parse(spec, parser.Settings{})
			if err != nil {
				return "err", path, err.Error()
			}
			for _, op := range api.Operations {
				if op.OperationID != "use" {
					continue
				}
				if strings.HasPrefix(c.ref, "S:") {
					for _, resp := range op.Responses.StatusCode {
						for _, m := range resp.Content {
							if m.Schema == nil || m.Schema.MaxLength == nil {
								return "foreign", path, "schema without the marker"
							}
							ptr, ok := byMax[int(*m.Schema.MaxLength)]
							if !ok {
								return "foreign", path, "unknown marker"
							}
							target, err := jsonpointerWalk(root, ptr)
							if err != nil {
								return "foreign", path, err.Error()
							}
							p, ok := pathOf(root, target)
							if !ok {
								return "foreign", path, "no path"
							}
							return "node", p, fmt.Sprintf("maxLength %d", *m.Schema.MaxLength)
						}
					}
					return "err", path, "no response schema"
				}
				if len(op.Parameters) != 1 {
					return "err", path, fmt.Sprintf("%d parameters", len(op.Parameters))
				}
				ptr, ok := byMarker[op.Parameters[0].Name]
				if !ok {
					return "foreign", path, "parameter " + op.Parameters[0].Name
				}
				target, err := jsonpointerWalk(root, ptr)
				if err != nil {
					return "foreign", path, err.Error()
				}
				p, ok := pathOf(root, target)
				if !ok {
					return "foreign", path, "no path"
				}
				return "node", p, op.Parameters[0].Name
			}
			return "err", path, "operation not found"
		}()
		if kind == "node" {
			nNode++
			r.Nontrivial("oas|" + ptrClass(c.ref) + "|" + kind)
		}
		b, _ := json.Marshal(map[string]any{"k": "oas", "d": 0, "doc": docOf(root), "ptr": bx.Ints(strings.TrimPrefix(c.ref, "S:")), "kind": kind, "path": path, "must": c.must})
		lines = append(lines, b)
		via := ""
		if c.nested {
			via = " reached through another reference"
		}
		what := "parameter"
		if strings.HasPrefix(c.ref, "S:") {
			what = "schema"
		}
		desc = append(desc, fmt.Sprintf("openapi parser: %s $ref %q%s -> %s %v (%s)", what, strings.TrimPrefix(c.ref, "S:"), via, kind, path, firstLine(note)))
	}
	r.Cov("openapi_parameter_refs", len(cases))
	r.Cov("openapi_parameter_refs_resolved", nNode)
	r.AddEvals(int64(len(cases)))
	vs, err := obs.Check(r, lines, obs.CheckOpts{Module: "JSONPointerCheck", Cfg: verdictCfg(r), ChunkSize: 200, Parallel: 8})
	if err != nil {
		return err
	}
	for _, v := range vs {
		switch {
		case v.Kind == "drift":
			r.Drift(desc[v.Index])
		case strings.HasPrefix(v.Kind, "known="):
			r.KnownHit(strings.TrimPrefix(v.Kind, "known="), desc[v.Index])
		default:
			r.Violate(desc[v.Index]+": "+v.Kind, map[string]any{"ref": cases[v.Index].ref, "kind": "oas"})
		}
	}
	return nil
}

// jsonpointerWalk is the harness's own plain RFC 6901 evaluation, used only to find the
// node of a pointer the harness built itself (no escapes beyond ~0 / ~1).
func jsonpointerWalk(root *yaml.Node, ptr string) (*yaml.Node, error) {
	n := root
	if n.Kind == yaml.DocumentNode && len(n.Content) > 0 {
		n = n.Content[0]
	}
	if ptr == "" {
		return n, nil
	}
	for _, tok := range strings.Split(ptr[1:], "/") {
		tok = strings.ReplaceAll(strings.ReplaceAll(tok, "~1", "/"), "~0", "~")
		switch n.Kind {
		case yaml.MappingNode:
			found := false
			for i := 0; i+1 < len(n.Content); i += 2 {
				if n.Content[i].Value == tok {
					n, found = n.Content[i+1], true
					break
				}
			}
			if !found {
				return nil, fmt.Errorf("no member %q", tok)
			}
		case yaml.SequenceNode:
			i, err := strconv.Atoi(tok)
			if err != nil || i < 0 || i >= len(n.Content) {
				return nil, fmt.Errorf("no index %q", tok)
			}
			n = n.Content[i]
		default:
			return nil, fmt.Errorf("scalar at %q", tok)
		}
	}
	return n, nil
}

func firstLine(s string) string {
	if i := strings.IndexByte(s, '\n'); i >= 0 {
		s = s[:i]
	}
	if len(s) > 160 {
		s = s[:160]
	}
	return s
}
