// Package c07 decides C07 ($ref is transparent, cycles terminate) — spec/Resolver*.tla.
package c07

import (
	"context"
	"encoding/json"
	"fmt"
	"net/url"
	"os"
	"path/filepath"
	"sort"
	"strings"
	"time"

	"github.com/ogen-go/ogen"
	"github.com/ogen-go/ogen/gen"
	"github.com/ogen-go/ogen/location"
	"github.com/ogen-go/ogen/openapi"
	"github.com/ogen-go/ogen/openapi/parser"

	"verif/internal/core"
	"verif/internal/obs"
	"verif/internal/tlc"
)

type caseT struct {
	Kind  string `json:"kind"`
	Shape string `json:"shape"`
	N     int    `json:"n"`
}

type M = map[string]any

var section = map[string]string{"schema": "schemas", "parameter": "parameters", "header": "headers", "response": "responses", "requestBody": "requestBodies", "pathItem": "pathItems",
	"example": "examples", "securityScheme": "securitySchemes"}

func definition(kind string, decoy bool) M {
	typ := "integer"
	if decoy {
		typ = "boolean" // a same-named component in the wrong document
	}
	switch kind {
	case "schema":
		return M{"type": "object", "required": []string{"x"}, "properties": M{"x": M{"type": typ}}}
	case "parameter":
		return M{"name": "q", "in": "query", "schema": M{"type": typ}}
	case "header":
		return M{"required": true, "schema": M{"type": typ}}
	case "response":
		return M{"description": "ok", "content": M{"application/json": M{"schema": M{"type": typ}}}}
	case "requestBody":
		return M{"required": true, "content": M{"application/json": M{"schema": M{"type": typ}}}}
	case "example":
		return M{"summary": "an " + typ, "value": M{"x": map[bool]any{false: 1, true: true}[decoy]}}
	case "securityScheme":
		return M{"type": "apiKey", "in": "header", "name": map[bool]string{false: "X-Key", true: "X-Decoy"}[decoy]}
	default: // pathItem
		return M{"get": M{"responses": M{"200": M{"description": "ok", "content": M{"application/json": M{"schema": M{"type": typ}}}}}}}
	}
}

func definitionCopy(m M) M {
	b, _ := json.Marshal(m)
	var out M
	json.Unmarshal(b, &out)
	return out
}

func ok200() M { return M{"200": M{"description": "ok"}} }

// sites places x (a reference or the inlined definition) at two referrer sites with
// different context (header names X-One / X-Two, paths /a and /b).
func sites(kind string, x func() any) M {
	switch kind {
	case "schema":
		r := func() M { return M{"200": M{"description": "ok", "content": M{"application/json": M{"schema": x()}}}} }
		return M{"/a": M{"get": M{"responses": r()}}, "/b": M{"get": M{"responses": r()}}}
	case "parameter":
		return M{"/a": M{"get": M{"parameters": []any{x()}, "responses": ok200()}}, "/b": M{"get": M{"parameters": []any{x()}, "responses": ok200()}}}
	case "header":
		return M{"/a": M{"get": M{"responses": M{"200": M{"description": "ok", "headers": M{"X-One": x()}}}}},
			"/b": M{"get": M{"responses": M{"200": M{"description": "ok", "headers": M{"X-Two": x(), "X-Three": x()}}}}}}
	case "response":
		return M{"/a": M{"get": M{"responses": M{"200": x()}}}, "/b": M{"get": M{"responses": M{"200": x(), "404": x()}}}}
	case "requestBody":
		return M{"/a": M{"post": M{"requestBody": x(), "responses": ok200()}}, "/b": M{"put": M{"requestBody": x(), "responses": ok200()}}}
	case "example":
		r := func(ex M) M {
			return M{"200": M{"description": "ok", "content": M{"application/json": M{"schema": M{"type": "object"}, "examples": ex}}}}
		}
		return M{"/a": M{"get": M{"responses": r(M{"e1": x()})}}, "/b": M{"get": M{"responses": r(M{"e2": x(), "e3": x()})}}}
	case "securityScheme":
		// a scheme is used by name: the reference (or the copy) sits in components under the
		// name S (see doc), both operations require S
		req := []any{M{"S": []any{}}}
		return M{"/a": M{"get": M{"security": req, "responses": ok200()}}, "/b": M{"get": M{"security": req, "responses": ok200()}}}
	default:
		return M{"/a": x(), "/b": x()}
	}
}

func version(kind string) string {
	if kind == "pathItem" {
		return "3.1.0"
	}
	return "3.0.3"
}

func ref(file, kind string, i int) M {
	return M{"$ref": fmt.Sprintf("%s#/components/%s/C%d", file, section[kind], i)}
}

func doc(kind string, paths M, comps M) M {
	d := M{"openapi": version(kind), "info": M{"title": "t", "version": "1"}, "paths": paths}
	if comps != nil {
		d["components"] = M{section[kind]: comps}
	}
	return d
}

// withS: the use site of a security scheme is the component named S.
func withS(kind string, comps M, x any) M {
	if kind != "securityScheme" {
		return comps
	}
	out := M{"S": x}
	for k, v := range comps {
		out[k] = v
	}
	return out
}

// ring member: schemas recurse through a property, every other kind is a pure reference
func ringMember(kind string, next int) M {
	if kind == "schema" {
		return M{"type": "object", "properties": M{"next": ref("", kind, next), "v": M{"type": "integer"}}}
	}
	return ref("", kind, next)
}

// render returns the referencing root document, extra files, and the inlined document.
func render(c caseT) (root M, files map[string]M, inlined M) {
	files = map[string]M{}
	def := definition(c.Kind, false)
	inlined = doc(c.Kind, sites(c.Kind, func() any { return definition(c.Kind, false) }), withS(c.Kind, nil, definition(c.Kind, false)))
	comps := M{}
	switch c.Shape {
	case "chain", "deep":
		for i := 1; i < c.N; i++ {
			comps[fmt.Sprintf("C%d", i)] = ref("", c.Kind, i+1)
		}
		comps[fmt.Sprintf("C%d", c.N)] = def
		root = doc(c.Kind, sites(c.Kind, func() any { return ref("", c.Kind, 1) }), withS(c.Kind, comps, ref("", c.Kind, 1)))
	case "cycle":
		for i := 1; i <= c.N; i++ {
			comps[fmt.Sprintf("C%d", i)] = ringMember(c.Kind, i%c.N+1)
		}
		root = doc(c.Kind, sites(c.Kind, func() any { return ref("", c.Kind, 1) }), withS(c.Kind, comps, ref("", c.Kind, 1)))
	case "diamond":
		// Base is reached through two sibling variants of Event; n=2 reverses the variant order
		base := M{"type": "object", "required": []string{"x"}, "properties": M{"x": M{"type": "integer"}}}
		ext := func(b any) M {
			return M{"allOf": []any{b, M{"type": "object", "required": []string{"y"}, "properties": M{"y": M{"type": "string"}}}}}
		}
		variants := func(b1, e any) []any {
			if c.N == 2 {
				return []any{e, b1}
			}
			return []any{b1, e}
		}
		comps["Base"] = base
		comps["Extended"] = ext(M{"$ref": "#/components/schemas/Base"})
		comps["Event"] = M{"oneOf": variants(M{"$ref": "#/components/schemas/Base"}, M{"$ref": "#/components/schemas/Extended"})}
		root = doc(c.Kind, sites(c.Kind, func() any { return M{"$ref": "#/components/schemas/Event"} }), comps)
		// one reference replaced by a copy of its target (the property's wording): Extended inlines Base
		comps2 := M{"Base": base, "Extended": ext(definitionCopy(base)), "Event": comps["Event"]}
		inlined = doc(c.Kind, sites(c.Kind, func() any { return M{"$ref": "#/components/schemas/Event"} }), comps2)
	case "sibling":
		// site /a writes a keyword beside its reference, site /b does not: the inlined twin has the
		// keyword at /a only
		kw, val := "default", any(5)
		if c.N == 2 {
			kw, val = "enum", []any{1, 2}
		}
		comps["C1"] = M{"type": "integer"}
		site := func(x M) M { return M{"get": M{"responses": M{"200": M{"description": "ok", "content": M{"application/json": M{"schema": x}}}}}} }
		root = doc(c.Kind, M{"/a": site(M{"$ref": "#/components/schemas/C1", kw: val}), "/b": site(M{"$ref": "#/components/schemas/C1"})}, comps)
		inlined = doc(c.Kind, M{"/a": site(M{"type": "integer", kw: val}), "/b": site(M{"type": "integer"})}, nil)
	case "mapping":
		// other.json: Pet = oneOf(dog.json, cat.json) with a discriminator whose mapping names the
		// variants by file name (tried first as "#/components/schemas/dog.json" of other.json: a
		// lookup that fails by design), and a decoy Err. The root's own Err is referred to locally
		// after Pet was resolved in the same context.
		files["dog.json"] = M{"type": "object", "required": []string{"kind", "bark"}, "properties": M{"kind": M{"type": "string"}, "bark": M{"type": "boolean"}}}
		files["cat.json"] = M{"type": "object", "required": []string{"kind", "lives"}, "properties": M{"kind": M{"type": "string"}, "lives": M{"type": "integer"}}}
		files["other.json"] = M{"components": M{"schemas": M{
			"Pet": M{"oneOf": []any{M{"$ref": "dog.json"}, M{"$ref": "cat.json"}}, "discriminator": M{"propertyName": "kind", "mapping": M{"dog": "dog.json", "cat": "cat.json"}}},
			"Err": M{"type": "object", "required": []string{"decoy"}, "properties": M{"decoy": M{"type": "string"}}}}}}
		errDef := func() M {
			return M{"type": "object", "required": []string{"code"}, "properties": M{"code": M{"type": "integer"}, "reason": M{"type": "string"}}}
		}
		body := func(x any) M { return M{"application/json": M{"schema": x}} }
		mk := func(errRef func() any) M {
			pet := M{"$ref": "other.json#/components/schemas/Pet"}
			paths := M{"/a": M{"post": M{"requestBody": M{"required": true, "content": body(pet)}, "responses": M{"200": M{"description": "ok", "content": body(errRef())}}}}}
			if c.N == 2 {
				paths = M{"/a": M{"post": M{"requestBody": M{"required": true, "content": body(pet)}, "responses": M{"200": M{"description": "ok"}}}},
					"/b": M{"get": M{"responses": M{"200": M{"description": "ok", "content": body(errRef())}, "default": M{"description": "e", "content": body(errRef())}}}}}
			}
			return doc(c.Kind, paths, M{"Err": errDef()})
		}
		root = mk(func() any { return M{"$ref": "#/components/schemas/Err"} })
		// the local reference replaced by a copy of its target
		inlined = mk(func() any { return errDef() })
	case "cross":
		other := M{}
		for i := 1; i < c.N; i++ {
			other[fmt.Sprintf("C%d", i)] = ref("", c.Kind, i+1) // local to other.json
		}
		other[fmt.Sprintf("C%d", c.N)] = def
		files["other.json"] = M{"components": M{section[c.Kind]: other}}
		// decoys with the same names in the root document: a reference resolved against the
		// wrong base would silently pick these
		for i := 1; i <= c.N; i++ {
			comps[fmt.Sprintf("C%d", i)] = definition(c.Kind, true)
		}
		root = doc(c.Kind, sites(c.Kind, func() any { return ref("other.json", c.Kind, 1) }), withS(c.Kind, comps, ref("other.json", c.Kind, 1)))
	}
	// a parameter component with the name of the header component, used by the first
	// operation before its response header: component names are per section
	if c.Kind == "header" && c.Shape != "cycle" {
		pdef := func() M { return M{"name": "q", "in": "query", "schema": M{"type": "string"}} }
		addParam := func(d M, p any) {
			op := d["paths"].(M)["/a"].(M)["get"].(M)
			op["parameters"] = []any{p}
		}
		comps := root["components"].(M)
		comps["parameters"] = M{"C1": pdef()}
		addParam(root, M{"$ref": "#/components/parameters/C1"})
		addParam(inlined, pdef())
	}
	return root, files, inlined
}

type mapResolver map[string][]byte

func (m mapResolver) Get(_ context.Context, loc string) ([]byte, error) {
	for name, data := range m {
		if strings.HasSuffix(loc, name) {
			return data, nil
		}
	}
	return nil, fmt.Errorf("no such document %q", loc)
}

type parseResult struct {
	outcome string
	proj    string
	api     *openapi.API
	errText string
}

func parseDoc(root M, files map[string]M, limit int) (res parseResult) {
	defer func() {
		if e := recover(); e != nil {
			res = parseResult{outcome: "panic", errText: fmt.Sprint(e)}
		}
	}()
	data, _ := json.Marshal(root)
	spec, err := ogen.Parse(data)
	if err != nil {
		return parseResult{outcome: "err_other", errText: err.Error()}
	}
	ext := mapResolver{}
	for name, m := range files {
		b, _ := json.Marshal(m)
		ext[name] = b
	}
	api, err := parser.Parse(spec, parser.Settings{External: ext, RootURL: &url.URL{Scheme: "file", Path: "/root.json"}, DepthLimit: limit,
		File: location.NewFile("root.json", "root.json", data)})
	if err != nil {
		t := err.Error()
		switch {
		case strings.Contains(t, "infinite recursion"):
			return parseResult{outcome: "err_recursion", errText: t}
		case strings.Contains(t, "depth limit"):
			return parseResult{outcome: "err_depth", errText: t}
		}
		return parseResult{outcome: "err_other", errText: t}
	}
	return parseResult{outcome: "ok", proj: Project(api), api: api}
}

func reparseExpanded(api *openapi.API) (res parseResult) {
	defer func() {
		if e := recover(); e != nil {
			res = parseResult{outcome: "panic", errText: fmt.Sprint(e)}
		}
	}()
	spec, err := parser.Expand(api)
	if err != nil {
		return parseResult{outcome: "err_other", errText: "expand: " + err.Error()}
	}
	// through text, as a user would store it
	data, err := json.Marshal(spec)
	if err != nil {
		return parseResult{outcome: "err_other", errText: "marshal expanded: " + err.Error()}
	}
	spec2, err := ogen.Parse(data)
	if err != nil {
		return parseResult{outcome: "err_other", errText: "parse expanded: " + err.Error()}
	}
	api2, err := parser.Parse(spec2, parser.Settings{})
	if err != nil {
		return parseResult{outcome: "err_other", errText: "parse expanded: " + err.Error()}
	}
	return parseResult{outcome: "ok", proj: Project(api2)}
}

// collector turns hook calls into trace lines.
type collector struct {
	lines [][]byte
	ctxID map[any]int
}

func (c *collector) sink(ev string, kv ...any) {
	m := map[string]any{}
	for i := 0; i+1 < len(kv); i += 2 {
		m[kv[i].(string)] = kv[i+1]
	}
	line := M{"ctx": 0, "loc": "", "ptr": "", "kind": "", "depthLeft": 0, "stack": 0, "limit": 0}
	switch ev {
	case "AddKey":
		line["k"] = "add"
	case "Delete":
		line["k"] = "del"
	case "CacheStore":
		line["k"] = "store"
	case "CacheHit":
		line["k"] = "hit"
	default:
		return
	}
	if x, ok := m["ctx"]; ok {
		id, ok := c.ctxID[x]
		if !ok {
			id = len(c.ctxID) + 1
			c.ctxID[x] = id
		}
		line["ctx"] = id
	}
	for _, k := range []string{"loc", "ptr", "kind"} {
		if s, ok := m[k].(string); ok {
			line[k] = s
		}
	}
	for _, k := range []string{"depthLeft", "stack"} {
		if n, ok := m[k].(int); ok {
			line[k] = n
		}
	}
	b, _ := json.Marshal(line)
	c.lines = append(c.lines, b)
}

func (c *collector) mark(k string, limit int) {
	b, _ := json.Marshal(M{"k": k, "ctx": 0, "loc": "", "ptr": "", "kind": "", "depthLeft": 0, "stack": 0, "limit": limit})
	c.lines = append(c.lines, b)
	if k == "begin" {
		c.ctxID = map[any]int{}
	}
}

const depthLimit = 3

// Check is the C07 entry point.
func Check(r *core.Run) error {
	r.SetRule("TLC checks the resolver machine (Key, cache lookup, AddKey, children, Store, Delete) on every reference graph of N components and depth limit L: every event is accepted by the acceptor, contexts end balanced, rings end in 'infinite recursion' " +
		"and over-long chains in 'depth limit'. Conformance: TLC enumerates (kind, shape, n) cases over 8 component kinds x {chain, cross-file chain with same-named decoys in the root, ring, over-deep chain}; each is rendered as a referencing document " +
		"used from two sites with different context (header names, paths) and as its inlined twin; parser.Parse outcomes and canonical projections of the parsed APIs (Ref/locations dropped) are compared (T1), the expanded document is re-parsed (T4; also for every corpus document that parses), " +
		"and the hook events of build tag verif (AddKey/Delete/CacheStore/CacheHit) of these parses and of the corpus specs are validated against the acceptor (T3, cache discipline). Non-trivial = every case; distinct = (kind, shape, n, outcome).")
	if !installHooks(nil) {
		return fmt.Errorf("%w: vcheck was built without -tags verif: hook traces unavailable", tlc.ErrInfra)
	}
	for _, cfg := range [][2]int{{3, 2}, {3, 3}, {4, 3}, {4, 5}} {
		res, err := tlc.Run(nil, tlc.Options{SpecDir: obs.SpecDir, Module: "ResolverMC", Timeout: 10 * time.Minute, Scratch: r.Scratch, Workers: 4,
			Cfg: tlc.Cfg("CONSTANTS", fmt.Sprintf(" N = %d", cfg[0]), fmt.Sprintf(" L = %d", cfg[1]), "INIT Init", "NEXT Next", "INVARIANTS Accepted Balanced Verdict", "CHECK_DEADLOCK FALSE")})
		if err != nil {
			return err
		}
		if res.Violated != "" {
			return fmt.Errorf("%w: ResolverMC N=%d L=%d violates %s\n%s", tlc.ErrInfra, cfg[0], cfg[1], res.Violated, tlc.Tail(res, 30))
		}
		r.AddStates(res.Distinct, res.Generated)
	}
	lines, err := obs.Emit(r, "ResolverEmit", tlc.Cfg(fmt.Sprintf("CONSTANT Limit = %d", depthLimit), "INIT Init", "NEXT Next"), 5*time.Minute)
	if err != nil {
		return err
	}
	var cases []caseT
	for _, l := range lines {
		var c caseT
		if err := json.Unmarshal(l, &c); err != nil {
			return err
		}
		cases = append(cases, c)
	}
	sort.Slice(cases, func(i, j int) bool { return fmt.Sprint(cases[i]) < fmt.Sprint(cases[j]) })
	r.Cov("cases", len(cases))
	r.SetExhaustive(true)

	col := &collector{ctxID: map[any]int{}}
	installHooks(col.sink)
	defer installHooks(nil)
	var desc []string
	note := func(s string) {
		for len(desc) < len(col.lines) {
			desc = append(desc, s)
		}
	}
	for i, c := range cases {
		root, files, inl := render(c)
		limit := 1000
		if c.Shape == "deep" {
			limit = depthLimit
		}
		col.mark("begin", limit)
		pr := parseDoc(root, files, limit)
		col.mark("end", 0)
		installHooks(nil)
		// (the twin of a "mapping" case inlines the local reference only: it still needs the files)
		var inlFiles map[string]M
		if c.Shape == "mapping" {
			inlFiles = files
		}
		pi := parseDoc(inl, inlFiles, 1000)
		pe := parseResult{outcome: "na"}
		if pr.api != nil {
			pe = reparseExpanded(pr.api)
		}
		gr, gi := genOutcome(root, files), genOutcome(inl, inlFiles)
		installHooks(col.sink)
		b, _ := json.Marshal(M{"k": "case", "kind": c.Kind, "shape": c.Shape, "n": c.N, "outcome": pr.outcome, "outInl": pi.outcome, "gr": gr, "gi": gi,
			"pr": Hash(pr.proj), "pi": Hash(pi.proj), "pe": Hash(pe.proj), "ctx": 0, "loc": "", "ptr": "", "depthLeft": 0, "stack": 0, "limit": 0})
		col.lines = append(col.lines, b)
		d := fmt.Sprintf("%s %s n=%d: referencing document -> %s %s; inlined -> %s; expanded+reparsed -> %s %s; generator: referencing %s, inlined %s", c.Kind, c.Shape, c.N, pr.outcome, firstLine(pr.errText), pi.outcome, pe.outcome, firstLine(pe.errText), gr, gi)
		if pr.outcome == "ok" && pi.outcome == "ok" && pr.proj != pi.proj {
			d += "\n    referencing: " + clip(pr.proj) + "\n    inlined:     " + clip(pi.proj)
		}
		if pe.outcome == "ok" && pe.proj != pr.proj {
			d += "\n    referencing: " + clip(pr.proj) + "\n    expanded:    " + clip(pe.proj)
		}
		note(d)
		r.Nontrivial(fmt.Sprintf("%s|%s|%d|%s", c.Kind, c.Shape, c.N, pr.outcome))
		if i%7 == 0 {
			rb, _ := json.Marshal(root)
			r.Sample(M{"case": c, "document": clip(string(rb)), "outcome": pr.outcome})
		}
	}
	nCases := len(col.lines)
	// corpus: hook discipline only
	nCorpus, nExpanded := 0, 0
	for _, f := range corpusFiles() {
		data, err := os.ReadFile(f)
		if err != nil || len(data) == 0 {
			continue
		}
		spec, err := ogen.Parse(data)
		if err != nil {
			continue
		}
		col.mark("begin", 1000)
		var api *openapi.API
		func() {
			defer func() { recover() }()
			u := &url.URL{Scheme: "file", Path: f}
			api, _ = parser.Parse(spec, parser.Settings{RootURL: u, File: location.NewFile(filepath.Base(f), f, data), External: dirResolver(filepath.Dir(f))})
		}()
		col.mark("end", 0)
		note("corpus " + filepath.Base(f))
		nCorpus++
		// T4 on the corpus: the dereferenced spec ogen emits parses back to an equivalent API
		if api != nil {
			installHooks(nil)
			pr := Project(api)
			pe := reparseExpanded(api)
			installHooks(col.sink)
			b, _ := json.Marshal(M{"k": "expand", "peOutcome": pe.outcome, "pr": Hash(pr), "pe": Hash(pe.proj), "ctx": 0, "loc": "", "ptr": "", "kind": "", "depthLeft": 0, "stack": 0, "limit": 0})
			col.lines = append(col.lines, b)
			d := fmt.Sprintf("corpus %s: expanded+reparsed -> %s %s", filepath.Base(f), pe.outcome, firstLine(pe.errText))
			if pe.outcome == "ok" && pe.proj != pr {
				d += "\n    parsed:   " + clipDiff(pr, pe.proj) + "\n    expanded: " + clipDiff(pe.proj, pr)
			}
			note(d)
			nExpanded++
		}
	}
	installHooks(nil)
	r.Cov("corpus_specs_traced", nCorpus)
	r.Cov("corpus_specs_expanded_and_reparsed", nExpanded)
	r.Cov("hook_events", len(col.lines)-len(cases))
	r.AddEvals(int64(len(cases)))
	r.AddTraces(int64(len(cases) + nCorpus))
	_ = nCases
	vs, err := obs.Check(r, col.lines, obs.CheckOpts{Module: "ResolverCheck", Cfg: obs.StdCfg("KnownDeviations = " + r.KnownSet()), ChunkSize: len(col.lines) + 1, Parallel: 1, Timeout: 20 * time.Minute})
	if err != nil {
		return err
	}
	for _, v := range vs {
		what := desc[v.Index] + ": " + v.Kind
		switch {
		case strings.HasPrefix(v.Kind, "harness"):
			r.Infra("%s", what)
		case strings.HasPrefix(v.Kind, "known="):
			r.KnownHit(strings.TrimPrefix(v.Kind, "known="), firstLine(desc[v.Index]))
		default:
			r.Violate(what, M{"line": string(col.lines[v.Index])})
		}
	}
	// binding self-test: a Delete of a key that is not innermost, and a hit without a store
	self := []string{
		`{"k":"begin","ctx":0,"loc":"","ptr":"","kind":"","depthLeft":0,"stack":0,"limit":5}`,
		`{"k":"add","ctx":1,"loc":"r","ptr":"#/a","kind":"","depthLeft":4,"stack":1,"limit":0}`,
		`{"k":"add","ctx":1,"loc":"r","ptr":"#/b","kind":"","depthLeft":3,"stack":2,"limit":0}`,
		`{"k":"del","ctx":1,"loc":"r","ptr":"#/a","kind":"","depthLeft":4,"stack":1,"limit":0}`,
		`{"k":"hit","ctx":0,"loc":"r","ptr":"#/zz","kind":"schema","depthLeft":0,"stack":0,"limit":0}`,
	}
	var sl [][]byte
	for _, l := range self {
		sl = append(sl, []byte(l))
	}
	svs, err := obs.Check(r, sl, obs.CheckOpts{Module: "ResolverCheck", Cfg: obs.StdCfg("KnownDeviations = {}"), Parallel: 1})
	if err != nil {
		return err
	}
	if len(svs) != 2 {
		return fmt.Errorf("%w: binding self-test: %d of 2 corrupted events rejected", tlc.ErrInfra, len(svs))
	}
	r.Cov("binding_selftest", "out-of-order Delete and unexplained CacheHit rejected")
	return nil
}

// clipDiff shows a around the first place where it differs from b.
func clipDiff(a, b string) string {
	i := 0
	for i < len(a) && i < len(b) && a[i] == b[i] {
		i++
	}
	lo := max(0, i-120)
	hi := min(len(a), i+240)
	return "..." + a[lo:hi] + "..."
}

type dirResolver string

func (d dirResolver) Get(_ context.Context, loc string) ([]byte, error) {
	u, err := url.Parse(loc)
	if err != nil {
		return nil, err
	}
	return os.ReadFile(u.Path)
}

func corpusFiles() []string {
	var out []string
	for _, g := range []string{"_testdata/positive/*", "_testdata/positive/*/*", "_testdata/examples/*"} {
		m, _ := filepath.Glob(filepath.Join(core.RepoDir, g))
		sort.Strings(m)
		for _, f := range m {
			st, err := os.Stat(f)
			if err != nil || st.IsDir() || st.Size() > 3<<20 {
				continue
			}
			out = append(out, f)
		}
	}
	return out
}

func firstLine(s string) string {
	if i := strings.IndexByte(s, '\n'); i >= 0 {
		s = s[:i]
	}
	if len(s) > 160 {
		s = s[:160] + "..."
	}
	return s
}

func clip(s string) string {
	if len(s) > 700 {
		return s[:700] + "..."
	}
	return s
}

// Replay re-runs the check (cases are deterministic).
func Replay(r *core.Run, path string) error { return Check(r) }

// genOutcome runs the generator's IR construction on a document: "ok" or the error class.
func genOutcome(root M, files map[string]M) (out string) {
	defer func() {
		if e := recover(); e != nil {
			out = "panic"
		}
	}()
	data, _ := json.Marshal(root)
	spec, err := ogen.Parse(data)
	if err != nil {
		return "parse-error"
	}
	ext := mapResolver{}
	for name, m := range files {
		b, _ := json.Marshal(m)
		ext[name] = b
	}
	opts := gen.Options{}
	opts.Parser.AllowRemote = true
	opts.Parser.Remote.ReadFile = func(p string) ([]byte, error) { return ext.Get(context.Background(), p) }
	opts.Parser.RootURL = &url.URL{Scheme: "file", Path: "/root.json"}
	opts.Parser.File = location.NewFile("root.json", "root.json", data)
	if _, err := gen.NewGenerator(spec, opts); err != nil {
		return "error"
	}
	return "ok"
}
