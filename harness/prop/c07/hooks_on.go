//go:build verif

package c07

import (
	"github.com/ogen-go/ogen/jsonpointer"
	"github.com/ogen-go/ogen/jsonschema"
	"github.com/ogen-go/ogen/openapi/parser"
)

// installHooks routes the verif-tagged trace hooks of /repo to sink (nil uninstalls).
func installHooks(sink func(ev string, kv ...any)) bool {
	jsonpointer.VerifTrace = sink
	jsonschema.VerifTrace = sink
	parser.VerifTrace = sink
	return true
}
