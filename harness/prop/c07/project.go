package c07

import (
	"crypto/sha256"
	"encoding/hex"
	"encoding/json"
	"fmt"
	"sort"

	"github.com/ogen-go/ogen/jsonschema"
	"github.com/ogen-go/ogen/openapi"
)

// projection of a parsed API: everything a generator consumes, nothing about where it
// was written (Ref, pointers and locations are dropped).

func projSchema(s *jsonschema.Schema, seen map[*jsonschema.Schema]bool) any {
	if s == nil {
		return nil
	}
	if seen[s] {
		return "<recursive>"
	}
	seen[s] = true
	defer delete(seen, s)
	m := map[string]any{"type": string(s.Type), "format": s.Format, "nullable": s.Nullable}
	if len(s.Enum) > 0 {
		m["enum"] = s.Enum
	}
	if s.Item != nil {
		m["item"] = projSchema(s.Item, seen)
	}
	if len(s.Properties) > 0 {
		props := map[string]any{}
		for _, p := range s.Properties {
			props[p.Name] = map[string]any{"required": p.Required, "schema": projSchema(p.Schema, seen)}
		}
		m["properties"] = props
	}
	for name, list := range map[string][]*jsonschema.Schema{"oneOf": s.OneOf, "anyOf": s.AnyOf, "allOf": s.AllOf} {
		if len(list) > 0 {
			var l []any
			for _, x := range list {
				l = append(l, projSchema(x, seen))
			}
			m[name] = l
		}
	}
	if s.AdditionalProperties != nil {
		m["additionalProperties"] = *s.AdditionalProperties
	}
	if s.MaxLength != nil {
		m["maxLength"] = *s.MaxLength
	}
	if s.MinLength != nil {
		m["minLength"] = *s.MinLength
	}
	if len(s.Minimum) > 0 {
		m["minimum"] = string(s.Minimum)
	}
	if len(s.Maximum) > 0 {
		m["maximum"] = string(s.Maximum)
	}
	if s.Pattern != "" {
		m["pattern"] = s.Pattern
	}
	if s.DefaultSet {
		m["default"] = s.Default
	}
	return m
}

func projContent(c map[string]*openapi.MediaType) any {
	if c == nil {
		return nil
	}
	m := map[string]any{}
	for ct, mt := range c {
		if mt == nil {
			m[ct] = nil
			continue
		}
		entry := map[string]any{"schema": projSchema(mt.Schema, map[*jsonschema.Schema]bool{})}
		if len(mt.Examples) > 0 {
			ex := map[string]any{}
			for name, e := range mt.Examples {
				if e == nil {
					ex[name] = nil
					continue
				}
				ex[name] = map[string]any{"summary": e.Summary, "description": e.Description, "value": string(e.Value), "external": e.ExternalValue}
			}
			entry["examples"] = ex
		}
		m[ct] = entry
	}
	return m
}

func projParam(p *openapi.Parameter) any {
	if p == nil {
		return nil
	}
	var content any
	if p.Content != nil {
		content = map[string]any{"name": p.Content.Name, "media": projSchema(p.Content.Media.Schema, map[*jsonschema.Schema]bool{})}
	}
	return map[string]any{"name": p.Name, "in": string(p.In), "style": string(p.Style), "explode": p.Explode, "required": p.Required,
		"schema": projSchema(p.Schema, map[*jsonschema.Schema]bool{}), "content": content, "deprecated": p.Deprecated}
}

func projResponse(r *openapi.Response) any {
	if r == nil {
		return nil
	}
	hs := map[string]any{}
	for k, h := range r.Headers {
		hs[k] = projParam(h)
	}
	return map[string]any{"description": r.Description, "headers": hs, "content": projContent(r.Content)}
}

func projOp(op *openapi.Operation) any {
	var params []any
	for _, p := range op.Parameters {
		params = append(params, projParam(p))
	}
	var body any
	if rb := op.RequestBody; rb != nil {
		body = map[string]any{"required": rb.Required, "content": projContent(rb.Content)}
	}
	resp := map[string]any{}
	for code, r := range op.Responses.StatusCode {
		resp[fmt.Sprint(code)] = projResponse(r)
	}
	for i, r := range op.Responses.Pattern {
		if r != nil {
			resp[fmt.Sprintf("%dXX", i+1)] = projResponse(r)
		}
	}
	if op.Responses.Default != nil {
		resp["default"] = projResponse(op.Responses.Default)
	}
	var sec []any
	for _, rq := range op.Security {
		var names []string
		for _, s := range rq.Schemes {
			names = append(names, fmt.Sprintf("%s type=%s in=%s name=%s scheme=%s", s.Name, s.Security.Type, s.Security.In, s.Security.Name, s.Security.Scheme))
		}
		sec = append(sec, names)
	}
	return map[string]any{"id": op.OperationID, "method": op.HTTPMethod, "path": op.Path.String(), "params": params, "body": body, "responses": resp, "security": sec}
}

// Project renders the API canonically; Hash is its digest.
func Project(api *openapi.API) string {
	var ops []any
	sorted := append([]*openapi.Operation{}, api.Operations...)
	sort.SliceStable(sorted, func(i, j int) bool {
		a, b := sorted[i], sorted[j]
		if a.Path.String() != b.Path.String() {
			return a.Path.String() < b.Path.String()
		}
		return a.HTTPMethod < b.HTTPMethod
	})
	for _, op := range sorted {
		ops = append(ops, projOp(op))
	}
	b, err := json.Marshal(map[string]any{"operations": ops})
	if err != nil {
		return "unmarshalable: " + err.Error()
	}
	return string(b)
}

func Hash(s string) string {
	h := sha256.Sum256([]byte(s))
	return hex.EncodeToString(h[:8])
}
