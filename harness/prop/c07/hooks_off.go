//go:build !verif

package c07

func installHooks(sink func(ev string, kv ...any)) bool { return false }
