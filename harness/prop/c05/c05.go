// Package c05 decides C05 (router dispatch) — spec/Router*.tla.
package c05

import (
	_ "embed"
	"encoding/json"
	"fmt"
	"math/rand/v2"
	"os"
	"path/filepath"
	"sort"
	"strings"
	"sync"
	"time"

	"github.com/ogen-go/ogen/gen"
	"github.com/ogen-go/ogen/gen/ir"
	"github.com/ogen-go/ogen/openapi"

	"verif/internal/core"
	"verif/internal/gencode"
	"verif/internal/obs"
	"verif/internal/tlc"
)

//go:embed driver_main.go.txt
var driverMain string

// Entry is one template with its methods.
type Entry struct {
	T  []string `json:"t"`
	Ms []string `json:"ms"`
}

type routeSet []Entry

func pathOf(t []string) string {
	var b strings.Builder
	k := 0
	for _, tok := range t {
		if tok == "P" {
			k++
			fmt.Fprintf(&b, "{p%d}", k)
		} else if bt, ok := mbByte[tok]; ok {
			// a byte of a multi-byte character, written in the model as an ASCII letter (the
			// matcher works on bytes; chars() maps observed bytes back the same way)
			b.WriteByte(bt)
		} else {
			b.WriteString(tok)
		}
	}
	return b.String()
}

// bytes of multi-byte characters and the ASCII letters that stand for them in the model
// (TLC's Json reader is not trusted with non-ASCII text)
var mbByte = map[string]byte{"X": 0xC3, "Y": 0xA9, "Z": 0xA8, "W": 0xAA}
var mbTok = map[byte]string{0xC3: "X", 0xA9: "Y", 0xA8: "Z", 0xAA: "W"}

func nParams(t []string) int {
	n := 0
	for _, tok := range t {
		if tok == "P" {
			n++
		}
	}
	return n
}

// SpecFor renders a route set as an OpenAPI document; operationId = t<i>_<METHOD>.
func SpecFor(rs routeSet) []byte {
	var b strings.Builder
	b.WriteString("openapi: 3.0.3\ninfo: {title: t, version: \"1\"}\npaths:\n")
	for i, e := range rs {
		fmt.Fprintf(&b, "  %q:\n", pathOf(e.T))
		for _, m := range e.Ms {
			fmt.Fprintf(&b, "    %s:\n      operationId: t%d_%s\n", strings.ToLower(m), i, m)
			if n := nParams(e.T); n > 0 {
				b.WriteString("      parameters:\n")
				// declared against the order of their places in the template: the arguments the router
				// cuts are in path order, the decoder finds each declared parameter's argument by index
				for k := n; k >= 1; k-- {
					fmt.Fprintf(&b, "        - {name: p%d, in: path, required: true, schema: {type: string}}\n", k)
				}
			}
			b.WriteString("      responses:\n        \"200\": {description: ok}\n")
		}
	}
	return []byte(b.String())
}

func chars(s string) []string {
	out := make([]string, len(s))
	for i := 0; i < len(s); i++ {
		if t, ok := mbTok[s[i]]; ok {
			out[i] = t
		} else {
			out[i] = string(s[i])
		}
	}
	return out
}

type sub struct {
	K      string   `json:"k"`
	Op     string   `json:"op"`
	Args   []string `json:"args"`
	Allow  string   `json:"allow"`
	Status int      `json:"status"`
}

type drvLine struct {
	Pkg         string `json:"pkg"`
	P           string `json:"p"`
	M           string `json:"m"`
	Serve       sub    `json:"serve"`
	Pfx         sub    `json:"pfx"`
	NoPfx       sub    `json:"nopfx"`
	Esc         sub    `json:"esc"`
	EscU        sub    `json:"escU"`
	Bad         sub    `json:"bad"`
	Find        sub    `json:"find"`
	FindEsc     sub    `json:"findesc"`
	FindPfx     sub    `json:"findpfx"`
	EscR        sub    `json:"escR"`
	FindEscR    sub    `json:"findescR"`
	PfxEsc      sub    `json:"pfxesc"`
	FindPfxEsc  sub    `json:"findpfxesc"`
	PfxEscR     sub    `json:"pfxescR"`
	FindPfxEscR sub    `json:"findpfxescR"`
}

type tsub struct {
	K     string     `json:"k"`
	T     []string   `json:"t"`
	M     string     `json:"m"`
	Args  [][]string `json:"args"`
	Allow []string   `json:"allow"`
}

// project turns a driver sub-record into the model's alphabet.
func project(s sub, rs routeSet, counterpart *sub) tsub {
	out := tsub{K: s.K, T: []string{}, Args: [][]string{}, Allow: []string{}}
	switch s.K {
	case "route", "route400":
		var i int
		var m string
		if _, err := fmt.Sscanf(s.Op, "t%d_%s", &i, &m); err != nil || i >= len(rs) {
			out.K = "other"
			return out
		}
		out.T, out.M = rs[i].T, m
		args := s.Args
		if s.K == "route400" {
			args = []string{"?"}
			if counterpart != nil && counterpart.K == "route" && counterpart.Op == s.Op {
				args = counterpart.Args
			}
		}
		for _, a := range args {
			out.Args = append(out.Args, chars(a))
		}
	case "405", "options204":
		for _, m := range strings.Split(s.Allow, ",") {
			if m = strings.TrimSpace(m); m != "" {
				out.Allow = append(out.Allow, m)
			}
		}
	}
	return out
}

func glue(pkg string) string {
	return fmt.Sprintf(`package main

import (
	"net/url"

	"github.com/ogen-go/ogen/middleware"
	"github.com/ogen-go/ogen/ogenerrors"

	api "vmod/%[1]s"
)

func init() {
	register(%[1]q, func(mw middleware.Middleware, eh ogenerrors.ErrorHandler, prefix string) (*server, error) {
		opts := []api.ServerOption{api.WithMiddleware(mw), api.WithErrorHandler(eh)}
		if prefix != "" {
			opts = append(opts, api.WithPathPrefix(prefix))
		}
		s, err := api.NewServer(api.UnimplementedHandler{}, opts...)
		if err != nil {
			return nil, err
		}
		return &server{serve: s.ServeHTTP, find: func(method string, u *url.URL) (string, []string, bool) {
			r, ok := s.FindPath(method, u)
			return r.OperationID(), r.Args(), ok
		}}, nil
	})
}
`, pkg)
}

var allTok = []string{"/", "a", "b", "P"}

func randTemplate(rng *rand.Rand, maxLen int) []string {
	for {
		n := 1 + rng.IntN(maxLen)
		t := []string{"/"}
		for len(t) < n {
			tok := allTok[rng.IntN(len(allTok))]
			if tok == "P" && t[len(t)-1] == "P" {
				continue
			}
			t = append(t, tok)
		}
		return t
	}
}

func key(t []string) string { return strings.Join(t, "") }

func randSet(rng *rand.Rand, n, maxLen int) routeSet {
	seen := map[string]bool{}
	var rs routeSet
	for len(rs) < n {
		t := randTemplate(rng, maxLen)
		if seen[key(t)] {
			continue
		}
		seen[key(t)] = true
		ms := [][]string{{"GET"}, {"POST"}, {"GET", "POST"}}[rng.IntN(3)]
		rs = append(rs, Entry{T: t, Ms: ms})
	}
	return rs
}

func mcCfg(tpl, path, routes int, devs, methods string) string {
	return tlc.Cfg("CONSTANTS", fmt.Sprintf(" MaxTplLen = %d", tpl), fmt.Sprintf(" MaxPathLen = %d", path), fmt.Sprintf(" MaxRoutes = %d", routes),
		" Devs = "+devs, " MethodSets = "+methods, "INIT Init", "NEXT Next", "INVARIANTS Sound TreeInv", "CHECK_DEADLOCK FALSE")
}

func emitCfg(tpl, path int, mode string) string {
	return tlc.Cfg("CONSTANTS", fmt.Sprintf(" MaxTplLen = %d", tpl), fmt.Sprintf(" MaxPathLen = %d", path), ` Mode = "`+mode+`"`, "INIT Init", "NEXT Next")
}

// Check is the C05 entry point.
func Check(r *core.Run) error {
	r.SetRule("TLC checks exhaustively (all ordered sets of <=2 templates x all paths x both methods) that the transcription of addRoute + the generated matcher stays inside Allowed (A1-A4). " +
		"Conformance: (a) every ordered set of <=2 templates is inserted through the real gen.Router.Add and the projected RouteTree compared with the model's Build; " +
		"(b) for every unordered set of <=2 templates (plus seeded random sets of 3-6 templates and the witnesses of known findings) a server is regenerated from /repo and every path of the bounded domain x {GET,POST} " +
		"is sent through ServeHTTP (plain, with prefix, two needless-escape spellings, invalid RawPath) and FindPath; a middleware, an error handler and the recorder observe operation, arguments, status, Allow; " +
		"TLC validates the per-package trace against Allowed. Non-trivial = not a plain 404; distinct = distinct (package shape signature, outcome kind, #args) classes.")
	tplLen, pathLen, mcTpl, mcPath, nRand := 3, 4, 4, 4, 30
	if r.Thorough() {
		tplLen, pathLen, mcTpl, mcPath, nRand = 4, 5, 4, 5, 400
	}
	known := r.KnownSet()

	// ---- model level ----
	run := func(cfg string, workers int) (*tlc.Result, error) {
		return tlc.Run(nil, tlc.Options{SpecDir: obs.SpecDir, Module: "RouterMC", Cfg: cfg, Timeout: 30 * time.Minute, Scratch: r.Scratch, Workers: workers, Heap: "12g"})
	}
	res, err := run(mcCfg(mcTpl, mcPath, 2, "{}", `{{"GET"}}`), 16)
	if err != nil {
		return err
	}
	if res.Violated != "" {
		return fmt.Errorf("%w: RouterMC with both deviations repaired violates %s\n%s", tlc.ErrInfra, res.Violated, tlc.Tail(res, 30))
	}
	r.AddStates(res.Distinct, res.Generated)
	r.Cov("mc_states_repaired_matcher", res.Distinct)
	res, err = run(mcCfg(3, mcPath, 2, "{}", `{{"GET"}, {"POST"}, {"GET", "POST"}}`), 16)
	if err != nil {
		return err
	}
	if res.Violated != "" {
		return fmt.Errorf("%w: RouterMC (method sets) violates %s\n%s", tlc.ErrInfra, res.Violated, tlc.Tail(res, 30))
	}
	r.AddStates(res.Distinct, res.Generated)
	for _, d := range []string{"Dev_BreakSkipsRestore", "Dev_TailParamSwallowsSlash"} {
		res, err = run(mcCfg(4, 4, 2, `{"`+d+`"}`, `{{"GET"}}`), 8)
		if err != nil {
			return err
		}
		if res.Violated == "" {
			return fmt.Errorf("%w: RouterMC accepts %s: vacuous", tlc.ErrInfra, d)
		}
	}
	r.Cov("model_counterexamples", "Dev_BreakSkipsRestore and Dev_TailParamSwallowsSlash each violate Sound at the model level")

	// ---- (a) tree binding ----
	if err := treeBinding(r, known, mcTpl); err != nil {
		return err
	}

	// ---- (b) regenerated servers ----
	setLines, err := obs.Emit(r, "RouterEmit", emitCfg(tplLen, pathLen, "sets"), 10*time.Minute)
	if err != nil {
		return err
	}
	pathLines, err := obs.Emit(r, "RouterEmit", emitCfg(tplLen, pathLen, "paths"), 10*time.Minute)
	if err != nil {
		return err
	}
	var sets []routeSet
	for _, l := range setLines {
		var v struct {
			RS routeSet `json:"rs"`
		}
		if err := json.Unmarshal(l, &v); err != nil {
			return err
		}
		sets = append(sets, v.RS)
	}
	nEnum := len(sets)
	// witnesses of the recorded findings and other hand-picked shapes
	P := "P"
	sets = append(sets,
		routeSet{{T: []string{"/", P}, Ms: []string{"GET"}}, {T: []string{"/", "a", "b", "/", "a"}, Ms: []string{"GET"}}, {T: []string{"/", "a", "b", "/", "b"}, Ms: []string{"GET"}}},
		routeSet{{T: []string{"/", P, "a"}, Ms: []string{"GET"}}},
		routeSet{{T: []string{"/", P}, Ms: []string{"GET"}}, {T: []string{"/", "a", P, "/"}, Ms: []string{"GET"}}},
		routeSet{{T: []string{"/", "a", "/", P}, Ms: []string{"GET"}}, {T: []string{"/", "a", "/", "b"}, Ms: []string{"POST"}}, {T: []string{"/", "a", "/", P, "/", "b"}, Ms: []string{"GET", "POST"}}}, // two and three parameters in one template (arguments that differ from each other: which
		// argument reaches which declared parameter is part of the outcome)
		routeSet{{T: []string{"/", P, "/", P}, Ms: []string{"GET"}}},
		routeSet{{T: []string{"/", P, "a", P}, Ms: []string{"GET", "POST"}}, {T: []string{"/", P, "/", P, "/", P}, Ms: []string{"GET"}}},
		routeSet{{T: []string{"/", "a", "/", P, "/", P}, Ms: []string{"GET"}}, {T: []string{"/", P, "/", "b"}, Ms: []string{"GET"}}},
	)
	rng := rand.New(rand.NewPCG(uint64(r.Seed), 0xC05))
	for i := 0; i < nRand; i++ {
		sets = append(sets, randSet(rng, 3+rng.IntN(4), 5))
	}
	var paths []string
	for _, l := range pathLines {
		var v struct {
			P []string `json:"p"`
		}
		if err := json.Unmarshal(l, &v); err != nil {
			return err
		}
		paths = append(paths, strings.Join(v.P, ""))
	}
	sort.Strings(paths)
	r.Cov("enumerated_route_sets", nEnum)
	r.Cov("random_and_witness_route_sets", len(sets)-nEnum)
	r.Cov("paths_per_package", len(paths))
	r.Cov("bounds", map[string]int{"template_tokens": tplLen, "path_chars": pathLen})
	r.SetExhaustive(true)
	// the method matrix: every HTTP method the spec language has, each its own operation
	// (operationId carries the method the harness wrote, whatever the parser made of it)
	all8 := []string{"GET", "HEAD", "POST", "PUT", "PATCH", "DELETE", "OPTIONS", "TRACE"}
	sets = append(sets,
		routeSet{{T: []string{"/", "a"}, Ms: all8}, {T: []string{"/", "a", "/", P}, Ms: []string{"HEAD", "OPTIONS", "PUT"}},
			{T: []string{"/", "b"}, Ms: []string{"GET", "HEAD", "OPTIONS"}}, {T: []string{"/", "b", "b"}, Ms: []string{"GET", "OPTIONS"}}},
		routeSet{{T: []string{"/", P}, Ms: []string{"DELETE", "OPTIONS", "PATCH", "TRACE"}}, {T: []string{"/", "a"}, Ms: []string{"HEAD", "OPTIONS"}}},
		// templates without an OPTIONS operation: the recorded preflight answer
		routeSet{{T: []string{"/", "a"}, Ms: []string{"GET", "HEAD", "PUT"}}, {T: []string{"/", "a", "/", P}, Ms: []string{"DELETE"}}})
	if err := serveSets(r, known, sets, paths); err != nil {
		return err
	}
	// static text with multi-byte characters that share their first byte (e-acute C3 A9,
	// e-grave C3 A8): the tree splits inside a character; paths are the instances, the
	// crossed instances and the bare prefixes
	e1, e2, e3 := "X", "Y", "Z"
	usets := []routeSet{
		{{T: []string{"/", e1, e2, "/", "a"}, Ms: []string{"GET"}}, {T: []string{"/", e1, e3, "/", "b"}, Ms: []string{"GET"}}},
		{{T: []string{"/", e1, e2}, Ms: []string{"GET"}}, {T: []string{"/", e1, e3}, Ms: []string{"POST"}}},
		{{T: []string{"/", "a", e1, e2, "/", P}, Ms: []string{"GET"}}, {T: []string{"/", "a", e1, e3, "/", P, "/", "b"}, Ms: []string{"GET"}}},
	}
	upaths := []string{"/\u00e9/a", "/\u00e8/a", "/\u00e9/b", "/\u00e8/b", "/\u00e9", "/\u00e8", "/a\u00e9/x", "/a\u00e8/x", "/a\u00e8/x/b", "/a\u00e9/x/b", "/a", "/", "/\u00e9/", "/\u00ea/a"}
	r.Cov("multibyte_route_sets", len(usets))
	return serveSets(r, known, usets, upaths)
}

// serveSets regenerates one server per route set, drives every path x method through it
// and lets TLC validate the per-package traces.
func serveSets(r *core.Run, known string, sets []routeSet, paths []string) error {
	mod, err := gencode.NewModule(r.Scratch, "mod")
	if err != nil {
		return err
	}
	type pkgInfo struct {
		name  string
		rs    routeSet // vector order
		order routeSet // generator order, one entry per operation
	}
	infos := make([]*pkgInfo, len(sets))
	var (
		wg       sync.WaitGroup
		mu       sync.Mutex
		rejected int
		genErr   error
		sem      = make(chan struct{}, 8)
	)
	for i, rs := range sets {
		wg.Add(1)
		go func(i int, rs routeSet) {
			defer wg.Done()
			sem <- struct{}{}
			defer func() { <-sem }()
			name := fmt.Sprintf("p%d", i)
			g, err := mod.Generate(name, SpecFor(rs), gencode.ServerOnly())
			mu.Lock()
			defer mu.Unlock()
			if err != nil {
				if ge, ok := err.(*gencode.GenError); ok && ge.Stage != "panic" && ge.Stage != "write" {
					rejected++ // not an accepted template set: outside the property's domain
					if rejected <= 6 {
						r.Cov(fmt.Sprintf("rejection_%d", rejected), describeSet(rs)+": "+firstLine(err.Error()))
					}
					os.RemoveAll(filepath.Join(mod.Dir, name))
					return
				}
				genErr = fmt.Errorf("generate %s for %v: %w", name, rs, err)
				return
			}
			info := &pkgInfo{name: name, rs: rs}
			for _, op := range g.Ops {
				var ti int
				var m string
				if _, err := fmt.Sscanf(op.Spec.OperationID, "t%d_%s", &ti, &m); err != nil {
					genErr = fmt.Errorf("unexpected operation id %q", op.Spec.OperationID)
					return
				}
				info.order = append(info.order, Entry{T: rs[ti].T, Ms: []string{m}})
			}
			infos[i] = info
		}(i, rs)
	}
	wg.Wait()
	if genErr != nil {
		return genErr
	}
	r.Cov("route_sets_rejected_by_generator", rejected)
	var live []*pkgInfo
	var names []string
	for _, in := range infos {
		if in != nil {
			live = append(live, in)
			names = append(names, in.name)
			if err := mod.WriteFile("drv/glue_"+in.name+".go", []byte(glue(in.name))); err != nil {
				return err
			}
		}
	}
	main := strings.Replace(driverMain, "interfaceCtx", "context.Context", -1)
	main = strings.Replace(main, "import (\n", "import (\n\t\"context\"\n", 1)
	if err := mod.WriteFile("drv/main.go", []byte(main)); err != nil {
		return err
	}
	t0 := time.Now()
	bin, err := mod.Build("drv", "drv")
	if err != nil {
		return err
	}
	r.Cov("build_s", time.Since(t0).Seconds())
	outFile := filepath.Join(r.Scratch, "drv-out.ndjson")
	allM := map[string]bool{}
	for _, in := range live {
		for _, e := range in.rs {
			for _, m := range e.Ms {
				if m != "GET" && m != "POST" {
					allM[in.name] = true
				}
			}
		}
	}
	job, _ := json.Marshal(map[string]any{"pkgs": names, "paths": paths, "out": outFile, "allMethods": allM})
	jobFile := filepath.Join(r.Scratch, "job.json")
	if err := os.WriteFile(jobFile, job, 0o644); err != nil {
		return err
	}
	if out, err := gencode.Run(bin, nil, jobFile); err != nil {
		return fmt.Errorf("driver: %v\n%s", err, out)
	}
	raw, err := os.ReadFile(outFile)
	if err != nil {
		return err
	}
	os.Remove(outFile)
	byName := map[string]*pkgInfo{}
	for _, in := range live {
		byName[in.name] = in
	}
	groups := map[string][][]byte{}
	var lineInfo = map[string][]drvLine{}
	nReq := 0
	for _, l := range obs.SplitLines(raw) {
		var d drvLine
		if err := json.Unmarshal(l, &d); err != nil {
			return err
		}
		in := byName[d.Pkg]
		if len(groups[d.Pkg]) == 0 {
			b, _ := json.Marshal(map[string]any{"k": "rs", "rs": in.order})
			groups[d.Pkg] = append(groups[d.Pkg], b)
			lineInfo[d.Pkg] = append(lineInfo[d.Pkg], drvLine{})
		}
		o := map[string]any{"k": "req", "p": chars(d.P), "m": d.M,
			"serve": project(d.Serve, in.rs, &d.Find), "pfx": project(d.Pfx, in.rs, &d.FindPfx), "nopfx": project(d.NoPfx, in.rs, nil),
			"esc": project(d.Esc, in.rs, &d.FindEsc), "escU": project(d.EscU, in.rs, &d.Find), "bad": project(d.Bad, in.rs, &d.Find),
			"escR": project(d.EscR, in.rs, &d.FindEscR), "findescR": project(d.FindEscR, in.rs, nil),
			"find": project(d.Find, in.rs, nil), "findesc": project(d.FindEsc, in.rs, nil), "findpfx": project(d.FindPfx, in.rs, nil),
			"pfxesc": project(d.PfxEsc, in.rs, &d.FindPfxEsc), "findpfxesc": project(d.FindPfxEsc, in.rs, nil),
			"pfxescR": project(d.PfxEscR, in.rs, &d.FindPfxEscR), "findpfxescR": project(d.FindPfxEscR, in.rs, nil)}
		b, _ := json.Marshal(o)
		groups[d.Pkg] = append(groups[d.Pkg], b)
		lineInfo[d.Pkg] = append(lineInfo[d.Pkg], d)
		nReq++
		if d.Serve.K != "404" {
			r.Nontrivial(fmt.Sprintf("%s|%s|%d", shapeSig(in.rs), d.Serve.K, len(d.Serve.Args)))
		}
		if nReq%60000 == 77 {
			r.Sample(map[string]any{"routes": describeSet(in.rs), "request": d.M + " " + d.P, "serve": d.Serve, "find": d.Find, "escaped": d.Esc})
		}
	}
	r.AddEvals(int64(nReq) * 9)
	r.AddTraces(int64(len(groups)))
	r.Cov("requests", nReq)
	r.Cov("regenerated_packages", len(groups))

	var chunk [][]byte
	var chunkPk []string
	var chunkIdx []int
	// run chunks in parallel
	type task struct {
		lines [][]byte
		pk    []string
		idx   []int
	}
	var tasks []task
	for _, in := range live {
		g := groups[in.name]
		for i := range g {
			chunk = append(chunk, g[i])
			chunkPk = append(chunkPk, in.name)
			chunkIdx = append(chunkIdx, i)
		}
		if len(chunk) > 25000 {
			tasks = append(tasks, task{chunk, chunkPk, chunkIdx})
			chunk, chunkPk, chunkIdx = nil, nil, nil
		}
	}
	if len(chunk) > 0 {
		tasks = append(tasks, task{chunk, chunkPk, chunkIdx})
	}
	var ferr error
	tsem := make(chan struct{}, 8)
	var twg sync.WaitGroup
	var fmu sync.Mutex
	for _, t := range tasks {
		twg.Add(1)
		go func(t task) {
			defer twg.Done()
			tsem <- struct{}{}
			defer func() { <-tsem }()
			vs, err := obs.Check(r, t.lines, obs.CheckOpts{Module: "RouterCheck", Cfg: obs.StdCfg("KnownDeviations = " + known), ChunkSize: len(t.lines) + 1, Parallel: 1})
			fmu.Lock()
			defer fmu.Unlock()
			if err != nil {
				ferr = err
				return
			}
			for _, v := range vs {
				pk, li := t.pk[v.Index], t.idx[v.Index]
				d := lineInfo[pk][li]
				in := byName[pk]
				what := fmt.Sprintf("routes %s: %s %s -> serve=%+v find=%+v prefixed=%+v escaped=%+v prefix-with-needless-escape-and-%%2F=%+v", describeSet(in.rs), d.M, d.P, d.Serve, d.Find, d.Pfx, d.Esc, d.PfxEscR)
				switch {
				case v.Kind == "drift":
					r.Drift(what)
				case strings.HasPrefix(v.Kind, "known="):
					r.KnownHit(strings.TrimPrefix(v.Kind, "known="), fmt.Sprintf("routes %s: %s %s -> %s %s args=%q", describeSet(in.rs), d.M, d.P, d.Serve.K, d.Serve.Op, d.Serve.Args))
				default:
					r.Violate(what+": outside Allowed of spec/Router.tla", map[string]any{"rs": in.rs, "p": d.P, "m": d.M})
				}
			}
		}(t)
	}
	twg.Wait()
	return ferr
}

func describeSet(rs routeSet) string {
	var parts []string
	for _, e := range rs {
		parts = append(parts, strings.Join(e.Ms, "|")+" "+pathOf(e.T))
	}
	return "[" + strings.Join(parts, ", ") + "]"
}

// shapeSig abstracts a route set: per template the token-class word.
func shapeSig(rs routeSet) string {
	var parts []string
	for _, e := range rs {
		var b strings.Builder
		for _, t := range e.T {
			switch t {
			case "P":
				b.WriteByte('P')
			case "/":
				b.WriteByte('/')
			default:
				b.WriteByte('l')
			}
		}
		parts = append(parts, b.String())
	}
	sort.Strings(parts)
	return strings.Join(parts, ",")
}

// ---- (a) tree binding through gen.Router.Add ---------------------------------------

type treeNode struct {
	Pre  []string   `json:"pre"`
	Par  bool       `json:"par"`
	Kids []treeNode `json:"kids"`
	Rts  []struct {
		T []string `json:"t"`
		M string   `json:"m"`
	} `json:"rts"`
}

func opFor(t []string) *ir.Operation {
	op := &ir.Operation{}
	for k := 1; k <= nParams(t); k++ {
		op.Params = append(op.Params, &ir.Parameter{Name: fmt.Sprintf("P%d", k), Spec: &openapi.Parameter{Name: fmt.Sprintf("p%d", k), In: openapi.LocationPath}})
	}
	return op
}

func projectTree(n *gen.RouteNode, byPath map[string][]string) treeNode {
	out := treeNode{Pre: []string{}, Par: n.IsParam(), Kids: []treeNode{}}
	if !n.IsParam() {
		out.Pre = chars(n.Prefix())
	}
	for _, rt := range n.Routes() {
		out.Rts = append(out.Rts, struct {
			T []string `json:"t"`
			M string   `json:"m"`
		}{byPath[rt.Path], rt.Method})
	}
	if out.Rts == nil {
		out.Rts = []struct {
			T []string `json:"t"`
			M string   `json:"m"`
		}{}
	}
	for _, c := range n.Children() {
		out.Kids = append(out.Kids, projectTree(c, byPath))
	}
	return out
}

func treeBinding(r *core.Run, known string, tplLen int) error {
	lines, err := obs.Emit(r, "RouterEmit", emitCfg(tplLen, 1, "ordered"), 10*time.Minute)
	if err != nil {
		return err
	}
	var sets []routeSet
	for _, l := range lines {
		var v struct {
			RS routeSet `json:"rs"`
		}
		if err := json.Unmarshal(l, &v); err != nil {
			return err
		}
		sets = append(sets, v.RS)
	}
	rng := rand.New(rand.NewPCG(uint64(r.Seed), 0x7EE))
	n3 := 2000
	if r.Thorough() {
		n3 = 40000
	}
	for i := 0; i < n3; i++ {
		sets = append(sets, randSet(rng, 3+rng.IntN(3), 5))
	}
	out := make([][]byte, 0, len(sets))
	for _, rs := range sets {
		var router gen.Router
		byPath := map[string][]string{}
		failed := false
		func() {
			defer func() {
				if e := recover(); e != nil {
					failed = true
				}
			}()
			for _, e := range rs {
				byPath[pathOf(e.T)] = e.T
				ms := append([]string{}, e.Ms...)
				sort.Strings(ms)
				for _, m := range ms {
					if err := router.Add(gen.Route{Method: m, Path: pathOf(e.T), Operation: opFor(e.T)}); err != nil {
						failed = true
						return
					}
				}
			}
		}()
		line := map[string]any{"k": "tree", "rs": rs, "err": failed, "tree": treeNode{Pre: []string{}, Kids: []treeNode{}, Rts: nil}}
		if !failed && router.Tree.Root != nil {
			line["tree"] = projectTree(router.Tree.Root, byPath)
		}
		b, _ := json.Marshal(line)
		b = []byte(strings.ReplaceAll(string(b), `"rts":null`, `"rts":[]`))
		out = append(out, b)
	}
	r.AddEvals(int64(len(out)))
	r.Cov("tree_insertions_checked", len(out))
	vs, err := obs.Check(r, out, obs.CheckOpts{Module: "RouterCheck", Cfg: obs.StdCfg("KnownDeviations = " + known), ChunkSize: 4000})
	if err != nil {
		return err
	}
	leads := 0
	for _, v := range vs {
		switch v.Kind {
		case "drift":
			r.Drift(fmt.Sprintf("gen.Router.Add for %s builds a well-formed tree that differs from the model's Build", describeSet(sets[v.Index])))
		default:
			leads++
			// A malformed real tree is a lead, not a verdict: the route set is reported and
			// must be confirmed on a regenerated server (binding b).
			if leads <= 5 {
				fmt.Printf("LEAD property=C05 real RouteTree for %s violates the tree invariants\n", describeSet(sets[v.Index]))
			}
		}
	}
	r.Cov("tree_leads", leads)
	return nil
}

// Replay re-runs one stored case: regenerate the package, send the one request.
func Replay(r *core.Run, path string) error {
	b, err := os.ReadFile(path)
	if err != nil {
		return err
	}
	var f struct {
		Case struct {
			RS routeSet `json:"rs"`
			P  string   `json:"p"`
		} `json:"case"`
	}
	if err := json.Unmarshal(b, &f); err != nil {
		return err
	}
	r.SetRule("replay of one stored case: the route set is regenerated and the stored path sent with both methods")
	return serveSets(r, r.KnownSet(), []routeSet{f.Case.RS}, []string{f.Case.P})
}

func firstLine(s string) string {
	if i := strings.IndexByte(s, '\n'); i >= 0 {
		s = s[:i]
	}
	if len(s) > 200 {
		s = s[:200]
	}
	return s
}
