// Package c12 decides C12 (path normalization) — spec/Normalize*.tla.
package c12

import (
	"context"
	_ "embed"
	"encoding/json"
	"fmt"
	"math/rand/v2"
	"net/url"
	"os"
	"path/filepath"
	"strings"
	"time"
	"verif/internal/gencode"

	"github.com/ogen-go/ogen"
	"github.com/ogen-go/ogen/openapi/parser"
	"github.com/ogen-go/ogen/uri"

	"verif/internal/core"
	"verif/internal/obs"
	"verif/internal/tlc"
)

type vec struct {
	In []int `json:"in"`
}

type observation struct {
	In   []int  `json:"in"`
	Kind string `json:"kind"` // ok | invalid | panic
	Out  []int  `json:"out"`
}

func toBytes(v []int) string {
	b := make([]byte, len(v))
	for i, x := range v {
		b[i] = byte(x)
	}
	return string(b)
}

func toInts(s string) []int {
	out := make([]int, len(s))
	for i := 0; i < len(s); i++ {
		out[i] = int(s[i])
	}
	return out
}

// observe runs the real function under recover.
func observe(in string) (o observation) {
	o.In = toInts(in)
	o.Out = []int{}
	defer func() {
		if e := recover(); e != nil {
			o.Kind = "panic"
			o.Out = []int{}
		}
	}()
	out, ok := uri.NormalizeEscapedPath(in)
	if !ok {
		o.Kind = "invalid"
		return o
	}
	o.Kind = "ok"
	o.Out = toInts(out)
	return o
}

var sigma = []int{37, 52, 49, 51, 102, 70, 103, 126, 47}
var sigmaSmall = []int{37, 52, 102, 70, 103}

func modelCheck(r *core.Run, maxLen int, small bool, timeout time.Duration) error {
	cfg := tlc.Cfg("CONSTANTS", fmt.Sprintf(" MaxLen = %d", maxLen), fmt.Sprintf(" Small = %s", tlaBool(small)),
		" Devs = {}", "INIT Init", "NEXT Next", "INVARIANTS Refines NoPanic Laws", "PROPERTY Progress", "CHECK_DEADLOCK FALSE")
	res, err := runTLC(r, "NormalizeMC", cfg, timeout, 8, nil)
	if err != nil {
		return err
	}
	if res.Violated != "" {
		// The model alone never raises an alarm: it is a lead (DESIGN §2.3).
		return fmt.Errorf("%w: NormalizeMC (fixed implementation layer) does not refine the abstract layer: %s\n%s", tlc.ErrInfra, res.Violated, tlc.Tail(res, 30))
	}
	r.AddStates(res.Distinct, res.Generated)
	r.Cov(fmt.Sprintf("mc_len%d_small%v_states", maxLen, small), res.Distinct)
	// Vacuity guard: with the deviation switched on the same model must fail.
	cfgDev := strings.Replace(cfg, "Devs = {}", `Devs = {"Dev_SlowPathUnvalidated"}`, 1)
	res2, err := runTLC(r, "NormalizeMC", strings.Replace(cfgDev, fmt.Sprintf("MaxLen = %d", maxLen), "MaxLen = 4", 1), timeout, 4, nil)
	if err != nil {
		return err
	}
	if res2.Violated == "" {
		return fmt.Errorf("%w: NormalizeMC accepts Dev_SlowPathUnvalidated: invariants are vacuous", tlc.ErrInfra)
	}
	return nil
}

func tlaBool(b bool) string {
	if b {
		return "TRUE"
	}
	return "FALSE"
}

func runTLC(r *core.Run, module, cfg string, timeout time.Duration, workers int, env map[string]string) (*tlc.Result, error) {
	return tlc.Run(context.Background(), tlc.Options{SpecDir: obs.SpecDir, Module: module, Cfg: cfg, Env: env,
		Timeout: timeout, Scratch: r.Scratch, Workers: workers, Heap: "8g"})
}

// Check is the C12 entry point.
func Check(r *core.Run) error {
	r.SetRule("TLC enumerates every byte string up to the length bound over {%,4,1,3,f,F,g,~,/} (and a longer bound over {%,4,f,F,g}); " +
		"each is run through uri.NormalizeEscapedPath under recover and the observed (kind,out) is judged by TLC against Allowed(in) of spec/Normalize.tla; " +
		"seeded random byte strings up to length 64 are judged the same way. A case is non-trivial when the outcome is not 'returned unchanged': " +
		"distinct = distinct (token-class word of the input, outcome kind) pairs.")
	maxFull, maxSmall, nRand := 6, 7, 20000
	mcFull := 5
	if r.Thorough() {
		maxFull, maxSmall, nRand = 7, 9, 400000
		mcFull = 6
	}
	if err := modelCheck(r, mcFull, false, 10*time.Minute); err != nil {
		return err
	}
	if err := modelCheck(r, maxSmall, true, 15*time.Minute); err != nil {
		return err
	}

	// B1: TLC enumerates the domain, one emitter per first symbol.
	var cfgs []string
	mk := func(maxLen int, small bool, first int) string {
		return tlc.Cfg("CONSTANTS", fmt.Sprintf(" MaxLen = %d", maxLen), " Small = "+tlaBool(small), fmt.Sprintf(" First = %d", first), "INIT Init", "NEXT Next")
	}
	cfgs = append(cfgs, mk(0, false, 0))
	for _, c := range sigma {
		cfgs = append(cfgs, mk(maxFull, false, c))
	}
	lines, err := obs.EmitParallel(r, "NormalizeEmit", cfgs, 20*time.Minute)
	if err != nil {
		return err
	}
	nFull := len(lines)
	cfgs = cfgs[:0]
	for _, c := range sigmaSmall {
		cfgs = append(cfgs, mk(maxSmall, true, c))
	}
	more, err := obs.EmitParallel(r, "NormalizeEmit", cfgs, 20*time.Minute)
	if err != nil {
		return err
	}
	// keep only the strings longer than the full-alphabet bound (the rest is a subset)
	for _, l := range more {
		var v vec
		if json.Unmarshal(l, &v) == nil && len(v.In) > maxFull {
			lines = append(lines, l)
		}
	}
	r.Cov("vectors_full_alphabet", nFull)
	r.Cov("vectors_small_alphabet_longer", len(lines)-nFull)
	r.Cov("bounds", map[string]int{"full_alphabet_maxlen": maxFull, "small_alphabet_maxlen": maxSmall})
	r.SetExhaustive(true)

	var ins []string
	for _, l := range lines {
		var v vec
		if err := json.Unmarshal(l, &v); err != nil {
			return fmt.Errorf("vector: %w", err)
		}
		ins = append(ins, toBytes(v.In))
	}
	// listed witnesses and regression inputs of past findings are always replayed
	ins = append(ins, "%41%", "%2f%", "%41%4", "%41%zz", "%zz%41", "%41%4g", "a%2Fb%7e", "%7E%7e%2f")
	// seeded random byte strings
	rng := rand.New(rand.NewPCG(uint64(r.Seed), 0xC12))
	for i := 0; i < nRand; i++ {
		ins = append(ins, randomInput(rng))
	}

	obsLines := make([][]byte, len(ins))
	all := make([]observation, len(ins))
	guardDisputes := 0
	for i, in := range ins {
		o := observe(in)
		all[i] = o
		b, _ := json.Marshal(o)
		obsLines[i] = b
		r.Nontrivial(classWord(in) + "|" + o.Kind + unchanged(o, in))
		// net/url guard: counted only, never decides.
		if _, err := url.PathUnescape(in); (err != nil) != (o.Kind == "invalid") && o.Kind != "panic" {
			guardDisputes++
		}
		if i%50000 == 7 {
			r.Sample(map[string]any{"in": in, "kind": o.Kind, "out": toBytes(o.Out)})
		}
	}
	r.AddEvals(int64(len(ins)))
	r.Cov("net_url_guard_disagreements", guardDisputes)

	vs, err := obs.Check(r, obsLines, obs.CheckOpts{Module: "NormalizeCheck", Cfg: obs.StdCfg("KnownDeviations = " + r.KnownSet())})
	if err != nil {
		return err
	}
	for _, v := range vs {
		in := ins[v.Index]
		switch {
		case v.Kind == "drift":
			r.Drift(fmt.Sprintf("NormalizeEscapedPath(%q) is allowed but differs from the implementation-layer model", in))
		case strings.HasPrefix(v.Kind, "known="):
			r.KnownHit(strings.TrimPrefix(v.Kind, "known="), fmt.Sprintf("%q", in))
		default:
			// reproduce on a second run before alarming
			o2 := observe(in)
			if fmt.Sprint(o2) != fmt.Sprint(all[v.Index]) {
				r.Infra("unreproducible observation for %q", in)
				continue
			}
			r.Violate(fmt.Sprintf("uri.NormalizeEscapedPath(%q) = (%q, kind=%s), outside Allowed(in) of spec/Normalize.tla", in, toBytes(o2.Out), o2.Kind),
				map[string]any{"kind": "normalize", "in": o2.In, "in_text": in, "observed": o2})
		}
	}
	if r.Thorough() {
		if err := selfTest(r, all); err != nil {
			return err
		}
	}
	if err := pathKeys(r); err != nil {
		return err
	}
	return served(r)
}

//go:embed serve_main.go.txt
var serveMain string

// served sends equivalent spellings of request paths to a server regenerated from a
// document whose templates have escaped static text, escaped slashes and parameters.
func served(r *core.Run) error {
	spec := `openapi: 3.0.3
info: {title: t, version: "1"}
paths:
  "/foo%20bar": {get: {operationId: space, responses: {"200": {description: ok}}}}
  "/caf%C3%A9/{p}": {get: {operationId: cafe, parameters: [{name: p, in: path, required: true, schema: {type: string}}], responses: {"200": {description: ok}}}}
  "/plain/{p}": {get: {operationId: plain, parameters: [{name: p, in: path, required: true, schema: {type: string}}], responses: {"200": {description: ok}}}}
  "/a%2Fb": {get: {operationId: slash, responses: {"200": {description: ok}}}}
  "/tilde~/x": {get: {operationId: tilde, responses: {"200": {description: ok}}}}
  "/\u00fc/{p}": {get: {operationId: raw, parameters: [{name: p, in: path, required: true, schema: {type: string}}], responses: {"200": {description: ok}}}}
`
	mod, err := gencode.NewModule(r.Scratch, "srvmod")
	if err != nil {
		return err
	}
	if _, err := mod.Generate("srv", []byte(spec), gencode.ServerOnly()); err != nil {
		return fmt.Errorf("%w: served: generate: %v", tlc.ErrInfra, err)
	}
	if err := mod.WriteFile("drv/main.go", []byte(serveMain)); err != nil {
		return err
	}
	bin, err := mod.Build("drv", "drv")
	if err != nil {
		return fmt.Errorf("%w: served: %v", tlc.ErrInfra, err)
	}
	// groups of equivalent spellings (and near misses, which TLC sorts out by Canon)
	groups := [][]string{
		{"/foo%20bar", "/%66oo%20bar", "/fo%6f%20bar", "/fo%6F%20b%61r", "/foo%20b%61r"},
		{"/caf%C3%A9/v", "/caf%c3%a9/v", "/c%61f%C3%A9/v", "/caf%C3%A9/%76", "/caf%C3%a9/v"},
		{"/plain/a%20b", "/pl%61in/a%20b", "/plain/%61%20b", "/plain/a%20%62"},
		{"/plain/%7e", "/plain/~", "/plain/%7E", "/pl%61in/~"},
		{"/plain/a%2Fb", "/plain/a%2fb", "/pl%61in/a%2Fb", "/plain/%61%2Fb"},
		{"/a%2Fb", "/a%2fb", "/%61%2Fb", "/a%2F%62"},
		{"/tilde~/x", "/tilde%7E/x", "/tilde%7e/x", "/tilde~/%78"},
		{"/plain/x", "/plain/%78", "/%70lain/x", "/plain/X"},
		// a literal plus sign in an argument, next to escapes that survive and escapes that do not
		{"/plain/a+b", "/plain/%61+b", "/pl%61in/a+b", "/plain/a+%62"},
		{"/plain/C++%20guide", "/plain/%43++%20guide", "/pl%61in/C++%20guide", "/plain/C++%20gu%69de"},
		{"/plain/1+1=2%3F", "/plain/1+1=2%3f", "/plain/%31+1=2%3F"},
		{"/plain/a%2Bb", "/plain/a%2bb", "/plain/%61%2Bb"},
		{"/caf%C3%A9/a+b", "/caf%c3%a9/a+b", "/caf%C3%A9/%61+b"},
		// a template written with the raw character: its only legal spelling on the wire is escaped
		{"/%C3%BC/v", "/%c3%bc/v", "/%C3%BC/%76", "/%c3%BC/v"},
	}
	var targets []string
	for _, g := range groups {
		targets = append(targets, g...)
	}
	tb, _ := json.Marshal(targets)
	jf := filepath.Join(r.Scratch, "served.job")
	if err := os.WriteFile(jf, tb, 0o644); err != nil {
		return err
	}
	out, err := gencode.Run(bin, nil, jf)
	if err != nil {
		return fmt.Errorf("%w: served driver: %v\n%s", tlc.ErrInfra, err, out)
	}
	type sline struct {
		Target   string `json:"target"`
		Outcome  string `json:"outcome"`
		RawEmpty bool   `json:"rawEmpty"`
	}
	got := map[string]sline{}
	for _, l := range strings.Split(strings.TrimSpace(out), "\n") {
		var x sline
		if json.Unmarshal([]byte(l), &x) != nil {
			return fmt.Errorf("%w: served driver line %q", tlc.ErrInfra, l)
		}
		got[x.Target] = x
	}
	var lines [][]byte
	var desc []string
	for _, g := range groups {
		for i := 0; i < len(g); i++ {
			for j := i + 1; j < len(g); j++ {
				a, b := got[g[i]], got[g[j]]
				if a.Target == "" || b.Target == "" {
					return fmt.Errorf("%w: served driver gave no line for %q / %q", tlc.ErrInfra, g[i], g[j])
				}
				lb, _ := json.Marshal(map[string]any{"a": toInts(g[i]), "b": toInts(g[j]), "oa": a.Outcome, "ob": b.Outcome, "rawA": a.RawEmpty, "rawB": b.RawEmpty,
					"reachedA": strings.HasPrefix(a.Outcome, "reached "), "reachedB": strings.HasPrefix(b.Outcome, "reached ")})
				lines = append(lines, lb)
				desc = append(desc, fmt.Sprintf("GET %s -> %s; GET %s -> %s", g[i], a.Outcome, g[j], b.Outcome))
				r.Nontrivial("served|" + classWord(g[i]) + "|" + classWord(g[j]))
			}
		}
	}
	r.Cov("served_spelling_pairs", len(lines))
	r.AddEvals(int64(len(lines)))
	vs, err := obs.Check(r, lines, obs.CheckOpts{Module: "NormalizeServeCheck", Cfg: obs.StdCfg("KnownDeviations = " + r.KnownSet())})
	if err != nil {
		return err
	}
	for _, v := range vs {
		switch {
		case strings.HasPrefix(v.Kind, "known="):
			r.KnownHit(strings.TrimPrefix(v.Kind, "known="), desc[v.Index])
		default:
			r.Violate("equivalent request paths reach different things: "+desc[v.Index], map[string]any{"kind": "served", "pair": desc[v.Index]})
		}
	}
	return nil
}

// selfTest corrupts one recorded field and requires TLC to reject it (binding is not vacuous).
func selfTest(r *core.Run, all []observation) error {
	var picked *observation
	for i := range all {
		if all[i].Kind == "ok" && len(all[i].Out) > 2 {
			picked = &all[i]
			break
		}
	}
	if picked == nil {
		return fmt.Errorf("%w: self-test found no ok observation", tlc.ErrInfra)
	}
	c := *picked
	c.Out = append([]int{}, c.Out...)
	c.Out[0] ^= 1
	b, _ := json.Marshal(c)
	vs, err := obs.Check(r, [][]byte{b}, obs.CheckOpts{Module: "NormalizeCheck", Cfg: obs.StdCfg("KnownDeviations = {}")})
	if err != nil {
		return err
	}
	if len(vs) != 1 || vs[0].Kind != "viol" {
		return fmt.Errorf("%w: binding self-test: corrupted observation was accepted", tlc.ErrInfra)
	}
	r.Cov("binding_selftest", "corrupted observation rejected")
	return nil
}

func unchanged(o observation, in string) string {
	if o.Kind == "ok" && toBytes(o.Out) == in {
		return "=same"
	}
	return ""
}

// classWord abstracts an input to its token classes (for counting distinct cases).
func classWord(s string) string {
	var b strings.Builder
	for i := 0; i < len(s) && i < 12; i++ {
		c := s[i]
		switch {
		case c == '%':
			b.WriteByte('%')
		case c >= '0' && c <= '9':
			b.WriteByte('d')
		case c >= 'a' && c <= 'f':
			b.WriteByte('l')
		case c >= 'A' && c <= 'F':
			b.WriteByte('U')
		case c >= 'g' && c <= 'z' || c >= 'G' && c <= 'Z' || c == '-' || c == '.' || c == '_' || c == '~':
			b.WriteByte('u')
		default:
			b.WriteByte('r')
		}
	}
	return b.String()
}

func randomInput(rng *rand.Rand) string {
	n := rng.IntN(64)
	b := make([]byte, 0, n)
	const hex = "0123456789abcdefABCDEF"
	for len(b) < n {
		switch rng.IntN(10) {
		case 0, 1, 2:
			b = append(b, '%')
			if rng.IntN(8) != 0 {
				b = append(b, hex[rng.IntN(len(hex))])
				if rng.IntN(8) != 0 {
					b = append(b, hex[rng.IntN(len(hex))])
				}
			}
		case 3:
			b = append(b, byte(rng.IntN(256)))
		case 4:
			b = append(b, "/?#[]@!$&'()*+,;=:"[rng.IntN(18)])
		default:
			b = append(b, "abzAZ09-._~gG"[rng.IntN(13)])
		}
	}
	return string(b)
}

// ---- spec path keys are compared modulo the same equivalence -------------------------

type keyObs struct {
	A    []int  `json:"a"`
	B    []int  `json:"b"`
	Kind string `json:"kind"` // ok | dup | err | panic
}

func observeKeys(a, b string) (o keyObs) {
	o.A, o.B = toInts(a), toInts(b)
	defer func() {
		if e := recover(); e != nil {
			o.Kind = "panic"
		}
	}()
	op := func(id string) *ogen.PathItem {
		return &ogen.PathItem{Get: &ogen.Operation{OperationID: id, Responses: ogen.Responses{"200": &ogen.Response{Description: "ok"}}}}
	}
	spec := &ogen.Spec{OpenAPI: "3.0.3", Info: ogen.Info{Title: "t", Version: "1"},
		Paths: ogen.Paths{"/" + a: op("a"), "/" + b: op("b")}}
	_, err := parser.Parse(spec, parser.Settings{})
	switch {
	case err == nil:
		o.Kind = "ok"
	case strings.Contains(err.Error(), "duplicate path"):
		o.Kind = "dup"
	default:
		o.Kind = "err"
	}
	return o
}

func pathKeys(r *core.Run) error {
	maxLen := 3
	lines, err := obs.Emit(r, "NormalizeKeysEmit", tlc.Cfg("CONSTANTS", fmt.Sprintf(" MaxLen = %d", maxLen), "INIT Init", "NEXT Next"), 10*time.Minute)
	if err != nil {
		return err
	}
	type pair struct {
		A []int `json:"a"`
		B []int `json:"b"`
	}
	var ps []pair
	for _, l := range lines {
		var p pair
		if err := json.Unmarshal(l, &p); err != nil {
			return err
		}
		ps = append(ps, p)
	}
	// regression pairs: hex case, needless escapes, reserved escapes, malformed escapes
	for _, p := range [][2]string{{"a%2fb", "a%2Fb"}, {"%7e", "~"}, {"%41", "A"}, {"a%2Fb", "a/b"}, {"%41%", "A%"}, {"x%zz", "x"}, {"%2f%", "q"}} {
		ps = append(ps, pair{toInts(p[0]), toInts(p[1])})
	}
	obsLines := make([][]byte, len(ps))
	all := make([]keyObs, len(ps))
	for i, p := range ps {
		o := observeKeys(toBytes(p.A), toBytes(p.B))
		all[i] = o
		obsLines[i], _ = json.Marshal(o)
		if o.Kind != "ok" {
			r.Nontrivial("keys|" + classWord(toBytes(p.A)) + "|" + classWord(toBytes(p.B)) + "|" + o.Kind)
		}
		if i%9000 == 11 {
			r.Sample(map[string]any{"path_keys": []string{"/" + toBytes(p.A), "/" + toBytes(p.B)}, "outcome": o.Kind})
		}
	}
	r.AddEvals(int64(len(ps)))
	r.Cov("path_key_pairs", len(ps))
	vs, err := obs.Check(r, obsLines, obs.CheckOpts{Module: "NormalizeKeysCheck", Cfg: obs.StdCfg("KnownDeviations = " + r.KnownSet())})
	if err != nil {
		return err
	}
	for _, v := range vs {
		o := all[v.Index]
		o2 := observeKeys(toBytes(o.A), toBytes(o.B))
		if o2.Kind != o.Kind {
			r.Infra("unreproducible path-key observation")
			continue
		}
		r.Violate(fmt.Sprintf("spec with path keys %q and %q: parser outcome %q is outside the allowed set (%s)", "/"+toBytes(o.A), "/"+toBytes(o.B), o.Kind, v.Kind),
			map[string]any{"kind": "keys", "a": o.A, "b": o.B, "observed": o.Kind})
	}
	return nil
}

// Replay re-runs one stored case.
func Replay(r *core.Run, path string) error {
	b, err := os.ReadFile(path)
	if err != nil {
		return err
	}
	var f struct {
		Case struct {
			Kind string `json:"kind"`
			In   []int  `json:"in"`
			A    []int  `json:"a"`
			B    []int  `json:"b"`
		} `json:"case"`
	}
	if err := json.Unmarshal(b, &f); err != nil {
		return err
	}
	r.SetRule("replay of one stored case")
	r.AddEvals(1)
	if f.Case.Kind == "keys" {
		o := observeKeys(toBytes(f.Case.A), toBytes(f.Case.B))
		l, _ := json.Marshal(o)
		vs, err := obs.Check(r, [][]byte{l}, obs.CheckOpts{Module: "NormalizeKeysCheck", Cfg: obs.StdCfg("KnownDeviations = " + r.KnownSet())})
		if err != nil {
			return err
		}
		for range vs {
			r.Violate(fmt.Sprintf("path keys %q,%q -> %s", toBytes(o.A), toBytes(o.B), o.Kind), f.Case)
		}
		return nil
	}
	in := toBytes(f.Case.In)
	o := observe(in)
	l, _ := json.Marshal(o)
	r.Sample(o)
	vs, err := obs.Check(r, [][]byte{l}, obs.CheckOpts{Module: "NormalizeCheck", Cfg: obs.StdCfg("KnownDeviations = " + r.KnownSet())})
	if err != nil {
		return err
	}
	for _, v := range vs {
		if v.Kind == "viol" {
			r.Violate(fmt.Sprintf("uri.NormalizeEscapedPath(%q) = (%q, kind=%s)", in, toBytes(o.Out), o.Kind), f.Case)
		}
	}
	return nil
}
