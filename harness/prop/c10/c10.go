// Package c10 decides C10 (generation is deterministic and free of data races) —
// spec/WriteSource*.tla.
package c10

import (
	_ "embed"
	"encoding/json"
	"fmt"
	"os"
	"os/exec"
	"path/filepath"
	"sort"
	"strings"
	"time"

	"verif/internal/core"
	"verif/internal/gencode"
	"verif/internal/obs"
	"verif/internal/tlc"
)

//go:embed driver_main.go.txt
var driverMain string

type specRef struct {
	ID   string `json:"id"`
	Path string `json:"path"`
	Opt  string `json:"opt"`
}

func corpus(r *core.Run, thorough bool) ([]specRef, error) {
	var files []string
	for _, g := range []string{"_testdata/positive/*", "_testdata/examples/*"} {
		m, _ := filepath.Glob(filepath.Join(core.RepoDir, g))
		sort.Strings(m)
		for _, f := range m {
			st, err := os.Stat(f)
			limit := int64(200 << 10)
			if thorough {
				limit = 2 << 20
			}
			if err != nil || st.IsDir() || st.Size() == 0 || st.Size() > limit {
				continue
			}
			files = append(files, f)
		}
	}
	// the harness' own matrix specs (parameters, bodies, security, sum types)
	extra := map[string]string{"matrix_sum.yml": sumSpec, "matrix_same_encoding.yml": sameEncodingSpec, "matrix_maxprops.yml": maxPropsSpec,
		"matrix_shared_response.yml": sharedResponseSpec, "matrix_mask.yml": maskSpec, "matrix_mutual_recursion.yml": mutualRecursionSpec,
		"matrix_shared_primitive_response.yml": sharedPrimitiveResponseSpec, "matrix_mask_parameters.yml": maskParametersSpec}
	for name, text := range extra {
		p := filepath.Join(r.Scratch, name)
		if err := os.WriteFile(p, []byte(text), 0o644); err != nil {
			return nil, err
		}
		files = append(files, p)
	}
	opts := []string{"", "all", "server"}
	var out []specRef
	for i, f := range files {
		if strings.HasPrefix(filepath.Base(f), "matrix_") {
			for _, o := range opts {
				out = append(out, specRef{ID: filepath.Base(f) + "#" + o, Path: f, Opt: o})
			}
			continue
		}
		out = append(out, specRef{ID: filepath.Base(f) + "#" + opts[i%3], Path: f, Opt: opts[i%3]})
		if thorough {
			out = append(out, specRef{ID: filepath.Base(f) + "#" + opts[(i+1)%3], Path: f, Opt: opts[(i+1)%3]})
		}
	}
	return out, nil
}

// several media types of one status code that share one ir.Encoding; several binary request bodies
const sameEncodingSpec = `openapi: 3.0.3
info: {title: t, version: "1"}
paths:
  /avatar:
    get:
      operationId: getAvatar
      responses:
        "200":
          description: ok
          content:
            image/png: {schema: {type: string, format: binary}}
            image/jpeg: {schema: {type: string, format: binary}}
            image/gif: {schema: {type: string, format: binary}}
            text/plain: {schema: {type: string}}
            text/csv: {schema: {type: string}}
        "404": {description: nf, content: {application/json: {schema: {type: object, properties: {msg: {type: string}}}}, application/problem+json: {schema: {type: object, properties: {title: {type: string}}}}}}
    put:
      operationId: putAvatar
      requestBody:
        content:
          image/png: {schema: {type: string, format: binary}}
          image/jpeg: {schema: {type: string, format: binary}}
          application/octet-stream: {schema: {type: string, format: binary}}
      responses:
        "200": {description: ok}
        "201": {description: ok}
`

// object with maxProperties whose required property is not declared first (example tests / faker)
const maxPropsSpec = `openapi: 3.0.3
info: {title: t, version: "1"}
paths:
  /z:
    post:
      operationId: postZ
      requestBody: {required: true, content: {application/json: {schema: {$ref: "#/components/schemas/Zone"}}}}
      responses:
        "200": {description: ok, content: {application/json: {schema: {$ref: "#/components/schemas/Zone"}}}}
components:
  schemas:
    Zone:
      type: object
      maxProperties: 3
      minProperties: 1
      required: [owner, ttl]
      properties:
        comment: {type: string}
        id: {type: string, format: uuid}
        ttl: {type: integer, minimum: 1}
        owner: {type: string, minLength: 1}
        tags: {type: array, items: {type: string}, maxItems: 3}
`

// one components.responses entry used as default in one operation and under several codes in another
const sharedResponseSpec = `openapi: 3.0.3
info: {title: t, version: "1"}
paths:
  /a:
    get:
      operationId: aGet
      responses:
        "200": {description: ok, content: {application/json: {schema: {type: string}}}}
        default: {$ref: "#/components/responses/Err"}
  /b:
    get:
      operationId: bGet
      responses:
        "200": {description: ok, content: {application/json: {schema: {type: string}}}}
        "400": {$ref: "#/components/responses/Err"}
        "404": {$ref: "#/components/responses/Err"}
        "409": {$ref: "#/components/responses/Err"}
        "410": {$ref: "#/components/responses/Err"}
components:
  responses:
    Err: {description: err, content: {application/json: {schema: {type: object, properties: {msg: {type: string}}}}}}
`

// schemas that contain each other where only some members of the ring have something to
// validate: whatever is derived by walking the ring must not depend on where the walk starts
const mutualRecursionSpec = `openapi: 3.0.3
info: {title: t, version: "1"}
paths:
  /n:
    post:
      operationId: postN
      requestBody: {required: true, content: {application/json: {schema: {$ref: "#/components/schemas/Node"}}}}
      responses:
        "200": {description: ok, content: {application/json: {schema: {$ref: "#/components/schemas/Link"}}}}
  /m:
    post:
      operationId: postM
      requestBody: {required: true, content: {application/json: {schema: {$ref: "#/components/schemas/Mid"}}}}
      responses:
        "200": {description: ok, content: {application/json: {schema: {$ref: "#/components/schemas/Tail"}}}}
components:
  schemas:
    Node: {type: object, properties: {child: {$ref: "#/components/schemas/Link"}, kind: {type: string, enum: [a, b]}}}
    Link: {type: object, properties: {node: {$ref: "#/components/schemas/Node"}}}
    Head: {type: object, properties: {next: {$ref: "#/components/schemas/Mid"}}}
    Mid: {type: object, properties: {next: {$ref: "#/components/schemas/Tail"}, list: {type: array, items: {$ref: "#/components/schemas/Head"}}}}
    Tail: {type: object, properties: {back: {$ref: "#/components/schemas/Head"}, n: {type: integer, minimum: 1}}}
`

// one components.responses entry with a primitive body used under two status codes
const sharedPrimitiveResponseSpec = `openapi: 3.0.3
info: {title: t, version: "1"}
paths:
  /a:
    get:
      operationId: getA
      responses:
        "200": {$ref: "#/components/responses/Text"}
        "201": {$ref: "#/components/responses/Text"}
        "202": {$ref: "#/components/responses/Text"}
components:
  responses:
    Text: {description: t, content: {application/json: {schema: {type: string}}}}
`

// two mask media types that differ in their parameters only: each matches the other's mask
const maskParametersSpec = `openapi: 3.0.3
info: {title: t, version: "1"}
paths:
  /a:
    post:
      operationId: postA
      requestBody:
        required: true
        content:
          "application/*": {schema: {type: string, format: binary}}
          "application/*; v=1": {schema: {type: object, properties: {a: {type: string}}}}
      responses:
        "200": {description: ok}
`

// a JSON media type next to a mask media type, no declared headers
const maskSpec = `openapi: 3.0.3
info: {title: t, version: "1"}
paths:
  /a:
    get:
      operationId: getA
      responses:
        "200":
          description: ok
          content:
            application/json: {schema: {type: object, properties: {a: {type: string}}}}
            image/*: {schema: {type: string, format: binary}}
`

const sumSpec = `openapi: 3.0.3
info: {title: s, version: "1"}
paths:
  /p/{a}/{b}:
    post:
      operationId: postP
      parameters:
        - {name: a, in: path, required: true, schema: {type: string}}
        - {name: b, in: path, required: true, schema: {type: integer}}
        - {name: z, in: query, schema: {type: array, items: {type: string}}}
        - {name: y, in: query, schema: {type: object, properties: {k: {type: string}, j: {type: integer}}}}
        - {name: X-B, in: header, schema: {type: string, default: d}}
        - {name: X-A, in: header, schema: {type: string}}
      requestBody:
        content:
          application/json: {schema: {$ref: "#/components/schemas/U"}}
          text/plain: {schema: {type: string}}
          application/x-www-form-urlencoded: {schema: {type: object, properties: {f: {type: string}, e: {type: integer}}}}
      responses:
        "200": {description: ok, headers: {X-Z: {schema: {type: string}}, X-Y: {schema: {type: integer}}}, content: {application/json: {schema: {$ref: "#/components/schemas/U"}}}}
        "201": {description: ok, content: {application/json: {schema: {$ref: "#/components/schemas/V"}}}}
        4XX: {description: e, content: {application/json: {schema: {type: string}}}}
        default: {description: e, content: {application/json: {schema: {$ref: "#/components/schemas/E"}}}}
components:
  schemas:
    E: {type: object, required: [m], properties: {m: {type: string}}}
    U:
      oneOf:
        - {$ref: "#/components/schemas/V"}
        - {$ref: "#/components/schemas/W"}
        - {type: string}
        - {type: array, items: {type: integer}}
    V: {type: object, required: [v], properties: {v: {type: string, pattern: "^a+$"}, zz: {type: number, multipleOf: 0.5}, aa: {type: string, enum: [q, p, r]}}}
    W: {type: object, required: [w], properties: {w: {type: integer}, m: {type: object, additionalProperties: {type: string}}, n: {$ref: "#/components/schemas/W"}}}
`

func runDriver(bin, jobFile, cwd string, gomaxprocs int) (stderr string, err error) {
	cmd := exec.Command(bin, jobFile)
	cmd.Dir = cwd
	cmd.Env = append(os.Environ(), fmt.Sprintf("GOMAXPROCS=%d", gomaxprocs), "GORACE=halt_on_error=0")
	out, err := cmd.CombinedOutput()
	return string(out), err
}

// Check is the C10 entry point.
func Check(r *core.Run) error {
	r.SetRule("spec/WriteSource.tla: TLC explores all interleavings of NT template tasks under limit K with a pool of NB reusable buffers over G consecutive generations and checks D1 (files are a function of the template only), D2 (exclusive, reset buffers), the goroutine limit, " +
		"and that every event sequence is accepted by the trace acceptor (Dev_NoReset must break it). Conformance: a driver built from /repo with -tags verif generates every corpus spec (plus a sum/parameter matrix spec) in three option sets, several repetitions per process, in fresh processes with GOMAXPROCS 1/2/4/16 " +
		"(new map seeds, new schedules); hook events BufGet/Rendered/Wrote/BufPut carry buffer identity and content hashes; the concatenated trace is validated by TLC: golden[spec,file] and the rendered-template hashes are fixed by the first generation and every later one in any process must match; a -race build of the same driver adds a `race` event for every report. " +
		"Non-trivial = a generation that wrote files; distinct = (spec, option set, outcome).")
	for _, c := range [][4]int{{3, 1, 2, 2}, {3, 2, 2, 2}, {4, 2, 2, 2}, {4, 4, 3, 2}} {
		cfg := func(devs string) string {
			return tlc.Cfg("CONSTANTS", fmt.Sprintf(" NT = %d", c[0]), fmt.Sprintf(" K = %d", c[1]), fmt.Sprintf(" NB = %d", c[2]), fmt.Sprintf(" G = %d", c[3]), " Devs = "+devs,
				"INIT Init", "NEXT Next", "INVARIANTS Accepted D1 D2 Limit", "VIEW View", "CHECK_DEADLOCK FALSE")
		}
		res, err := tlc.Run(nil, tlc.Options{SpecDir: obs.SpecDir, Module: "WriteSourceMC", Timeout: 20 * time.Minute, Scratch: r.Scratch, Workers: 8, Heap: "8g", Cfg: cfg("{}")})
		if err != nil {
			return err
		}
		if res.Violated != "" {
			return fmt.Errorf("%w: WriteSourceMC %v violates %s\n%s", tlc.ErrInfra, c, res.Violated, tlc.Tail(res, 30))
		}
		r.AddStates(res.Distinct, res.Generated)
		if c[0] == 3 && c[1] == 2 {
			res, err = tlc.Run(nil, tlc.Options{SpecDir: obs.SpecDir, Module: "WriteSourceMC", Timeout: 10 * time.Minute, Scratch: r.Scratch, Workers: 4, Cfg: cfg(`{"Dev_NoReset"}`)})
			if err != nil {
				return err
			}
			if res.Violated == "" {
				return fmt.Errorf("%w: WriteSourceMC accepts Dev_NoReset: vacuous", tlc.ErrInfra)
			}
		}
	}
	specs, err := corpus(r, r.Thorough())
	if err != nil {
		return err
	}
	r.Cov("specs_x_options", len(specs))
	mod, err := gencode.NewModule(r.Scratch, "mod")
	if err != nil {
		return err
	}
	if err := mod.WriteFile("drv/main.go", []byte(driverMain)); err != nil {
		return err
	}
	bin, err := mod.Build("drv", "drv", "-tags", "verif")
	if err != nil {
		return err
	}
	t0 := time.Now()
	raceBin, err := mod.Build("drv", "drv-race", "-tags", "verif", "-race")
	if err != nil {
		return err
	}
	r.Cov("race_build_s", time.Since(t0).Seconds())
	cwd := filepath.Join(r.Scratch, "cwd")
	os.MkdirAll(cwd, 0o755)
	reps, procs := 2, []int{1, 2, 4, 16}
	raceSpecs := specs
	if r.Thorough() {
		reps, procs = 3, []int{1, 1, 2, 2, 3, 4, 8, 16, 16}
	} else if len(raceSpecs) > 16 {
		raceSpecs = raceSpecs[:16]
	}
	var lines [][]byte
	nProc := 0
	run := func(b string, sp []specRef, gmp, reps int, race bool) error {
		out := filepath.Join(r.Scratch, fmt.Sprintf("trace-%d.ndjson", nProc))
		job, _ := json.Marshal(map[string]any{"specs": sp, "reps": reps, "out": out})
		jf := filepath.Join(r.Scratch, fmt.Sprintf("job-%d.json", nProc))
		if err := os.WriteFile(jf, job, 0o644); err != nil {
			return err
		}
		nProc++
		stderr, err := runDriver(b, jf, cwd, gmp)
		nRaces := strings.Count(stderr, "WARNING: DATA RACE")
		if err != nil && nRaces == 0 {
			return fmt.Errorf("driver (GOMAXPROCS=%d race=%v): %v\n%s", gmp, race, err, tail(stderr, 1500))
		}
		raw, err := os.ReadFile(out)
		if err != nil {
			return err
		}
		os.Remove(out)
		lines = append(lines, obs.SplitLines(raw)...)
		for i := 0; i < nRaces; i++ {
			lines = append(lines, []byte(`{"k":"race","spec":"","tmpl":"","file":"","h":"","outcome":"","buf":0,"len":0}`))
		}
		if nRaces > 0 {
			r.Cov("first_race_report", tail(stderr[strings.Index(stderr, "WARNING: DATA RACE"):], 1200))
		}
		return nil
	}
	for _, p := range procs {
		if err := run(bin, specs, p, reps, false); err != nil {
			return err
		}
	}
	if err := run(raceBin, raceSpecs, 8, 2, true); err != nil {
		return err
	}
	if r.Thorough() {
		if err := run(raceBin, specs, 3, 2, true); err != nil {
			return err
		}
	}
	// normalise outcome to its stage (diagnostic wording is not part of the statement)
	nGen, nOK := 0, 0
	for i, l := range lines {
		var e map[string]any
		if err := json.Unmarshal(l, &e); err != nil {
			return err
		}
		if e["k"] == "gen_end" {
			nGen++
			o := e["outcome"].(string)
			if j := strings.Index(o, ":"); j > 0 {
				o = o[:j]
			}
			if o == "ok" {
				nOK++
			}
			e["outcome"] = o
			lines[i], _ = json.Marshal(e)
			r.Nontrivial(fmt.Sprintf("%v|%s", e["spec"], o))
			if nGen%97 == 1 {
				r.Sample(map[string]any{"spec": e["spec"], "outcome": o})
			}
		}
	}
	r.Cov("processes", nProc)
	r.Cov("generations", nGen)
	r.Cov("generations_ok", nOK)
	r.Cov("hook_events", len(lines))
	r.AddEvals(int64(nGen))
	r.AddTraces(int64(nProc))
	vs, err := obs.Check(r, lines, obs.CheckOpts{Module: "WriteSourceCheck", Cfg: obs.StdCfg(), ChunkSize: len(lines) + 1, Parallel: 1, Timeout: 30 * time.Minute, Heap: "8g"})
	if err != nil {
		return err
	}
	// context for messages: the spec of the enclosing generation
	cur := ""
	specAt := make([]string, len(lines))
	for i, l := range lines {
		var e struct {
			K    string `json:"k"`
			Spec string `json:"spec"`
		}
		json.Unmarshal(l, &e)
		if e.K == "gen_begin" {
			cur = e.Spec
		}
		specAt[i] = cur
	}
	seen := map[string]bool{}
	for _, v := range vs {
		key := specAt[v.Index] + v.Kind
		if seen[key] {
			continue
		}
		seen[key] = true
		r.Violate(fmt.Sprintf("generation of %s: event %s rejected by spec/WriteSource.tla: %s", specAt[v.Index], string(lines[v.Index]), v.Kind), map[string]any{"spec": specAt[v.Index], "event": string(lines[v.Index]), "verdict": v.Kind})
	}
	// binding self-test
	self := []string{
		`{"k":"proc_begin","spec":"","tmpl":"","file":"","h":"","outcome":"","buf":0,"len":0}`,
		`{"k":"gen_begin","spec":"s","tmpl":"","file":"","h":"","outcome":"","buf":0,"len":0}`,
		`{"k":"buf_get","spec":"","tmpl":"a","file":"","h":"","outcome":"","buf":1,"len":0}`,
		`{"k":"buf_get","spec":"","tmpl":"b","file":"","h":"","outcome":"","buf":1,"len":0}`,
		`{"k":"rendered","spec":"","tmpl":"a","file":"f","h":"x","outcome":"","buf":0,"len":0}`,
		`{"k":"wrote","spec":"","tmpl":"a","file":"f","h":"x","outcome":"","buf":0,"len":0}`,
		`{"k":"buf_put","spec":"","tmpl":"a","file":"","h":"","outcome":"","buf":1,"len":0}`,
		`{"k":"gen_end","spec":"s","tmpl":"","file":"","h":"","outcome":"ok","buf":0,"len":0}`,
		`{"k":"gen_begin","spec":"s","tmpl":"","file":"","h":"","outcome":"","buf":0,"len":0}`,
		`{"k":"buf_get","spec":"","tmpl":"a","file":"","h":"","outcome":"","buf":1,"len":0}`,
		`{"k":"rendered","spec":"","tmpl":"a","file":"f","h":"x","outcome":"","buf":0,"len":0}`,
		`{"k":"wrote","spec":"","tmpl":"a","file":"f","h":"DIFFERENT","outcome":"","buf":0,"len":0}`,
	}
	var sl [][]byte
	for _, l := range self {
		sl = append(sl, []byte(l))
	}
	svs, err := obs.Check(r, sl, obs.CheckOpts{Module: "WriteSourceCheck", Cfg: obs.StdCfg(), Parallel: 1})
	if err != nil {
		return err
	}
	got := map[string]bool{}
	for _, v := range svs {
		got[v.Kind] = true
	}
	if !got["viol-D2-buffer-handed-out-twice"] || !got["viol-D1-file-differs-from-first-generation"] {
		return fmt.Errorf("%w: binding self-test: corrupted trace accepted (%v)", tlc.ErrInfra, svs)
	}
	r.Cov("binding_selftest", "double hand-out and a differing file hash rejected")
	return nil
}

func tail(s string, n int) string {
	if len(s) > n {
		return s[:n]
	}
	return s
}

// Replay re-runs the check.
func Replay(r *core.Run, path string) error { return Check(r) }
