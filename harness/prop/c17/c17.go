// Package c17 decides C17 (document spelling does not matter) — spec/Spelling*.tla.
package c17

import (
	"crypto/sha256"
	"encoding/json"
	"fmt"
	"math/rand/v2"
	"os"
	"path/filepath"
	"regexp"
	"sort"
	"strings"
	"sync"
	"sync/atomic"
	"time"

	helperyaml "github.com/ghodss/yaml"
	"github.com/go-faster/yaml"

	"github.com/ogen-go/ogen"
	"github.com/ogen-go/ogen/gen"
	"github.com/ogen-go/ogen/location"

	"verif/internal/core"
	"verif/internal/obs"
	"verif/internal/tlc"
)

type memFS struct {
	mu    sync.Mutex
	files map[string][]byte
}

func (m *memFS) WriteFile(name string, b []byte) error {
	m.mu.Lock()
	m.files[name] = append([]byte{}, b...)
	m.mu.Unlock()
	return nil
}

var positions = regexp.MustCompile(`(:\d+:\d+)|(line \d+)|(column \d+)|(offset \d+)`)

type outcome struct {
	kind string // ok | err | panic
	sum  string // hash of the generated files, or the diagnostic with positions removed
}

func generate(data []byte) (o outcome) {
	defer func() {
		if e := recover(); e != nil {
			o = outcome{"panic", fmt.Sprint(e)}
		}
	}()
	fail := func(err error) outcome { return outcome{"err", positions.ReplaceAllString(err.Error(), "")} }
	spec, err := ogen.Parse(data)
	if err != nil {
		return fail(err)
	}
	opts := gen.Options{}
	opts.Parser.File = location.NewFile("spec", "spec", data)
	g, err := gen.NewGenerator(spec, opts)
	if err != nil {
		return fail(err)
	}
	fs := &memFS{files: map[string][]byte{}}
	if err := g.WriteSource(fs, "api"); err != nil {
		return fail(err)
	}
	var names []string
	for n := range fs.files {
		names = append(names, n)
	}
	sort.Strings(names)
	h := sha256.New()
	for _, n := range names {
		fmt.Fprintf(h, "%s %d\n", n, len(fs.files[n]))
		h.Write(fs.files[n])
	}
	return outcome{"ok", fmt.Sprintf("%x", h.Sum(nil))}
}

func corpus() []string {
	var out []string
	for _, g := range []string{"_testdata/positive/*", "_testdata/examples/*", "_testdata/negative/*"} {
		m, _ := filepath.Glob(filepath.Join(core.RepoDir, g))
		sort.Strings(m)
		for _, f := range m {
			st, err := os.Stat(f)
			if err != nil || st.IsDir() || st.Size() == 0 || st.Size() > 80<<10 {
				continue
			}
			out = append(out, f)
		}
	}
	return out
}

type witness struct {
	Class string `json:"class"`
	Text  string `json:"text"`
	Tag   string `json:"tag"`
}

// skeleton builds a document whose scalars sit in every role the order- and
// text-preserving unmarshalers treat specially, from TLC's witness texts.
func skeleton(ws []witness, exotic bool) []byte {
	var b strings.Builder
	b.WriteString("openapi: 3.0.3\ninfo:\n  title: skeleton\n  version: '1'\n  x-ext:\n")
	for i, w := range ws {
		fmt.Fprintf(&b, "    k%d: %s\n", i, doubleQuoted(w.Text))
	}
	b.WriteString("paths:\n  /a:\n    get:\n      operationId: getA\n      parameters:\n        - name: q\n          in: query\n          schema:\n            type: string\n            enum:\n")
	for _, w := range ws {
		fmt.Fprintf(&b, "              - %s\n", doubleQuoted(w.Text))
	}
	fmt.Fprintf(&b, "            default: %s\n", doubleQuoted(ws[0].Text))
	b.WriteString("      responses:\n        '200':\n          description: ok\n          content:\n            application/json:\n              schema:\n                $ref: '#/components/schemas/S'\n              example:\n                zeta: 1\n                alpha: \"yes\"\n                mid: [1, 2.50, \"3\"]\ncomponents:\n  schemas:\n    S:\n      type: object\n      required: [zeta]\n      properties:\n")
	// property order: deliberately not sorted
	for _, p := range []string{"zeta", "alpha", "mid", "\"on\"", "\"12\"", "\"null\""} {
		fmt.Fprintf(&b, "        %s:\n          type: string\n", p)
	}
	// scalar defaults and examples that look like other types (strings all the same), and plain dates
	for i, w := range ws {
		if w.Tag != "str" && w.Tag != "unreadable" {
			fmt.Fprintf(&b, "        look%d:\n          type: string\n          default: %s\n          example: %s\n", i, doubleQuoted(w.Text), doubleQuoted(w.Text))
		}
	}
	b.WriteString("        day:\n          type: string\n          enum: [2019-12-31, 2021-06-30]\n          default: 2019-12-31\n          example: 2021-06-30\n")
	b.WriteString("        num:\n          type: number\n")
	if exotic {
		b.WriteString("          maximum: 1e3\n          minimum: -0x10\n          multipleOf: .5\n          default: 1_0\n")
	} else {
		b.WriteString("          maximum: 1000\n          minimum: -16.50\n          multipleOf: 0.5\n          default: 10\n")
	}
	b.WriteString("        int:\n          type: integer\n          enum: [1, 20, 300]\n          default: 20\n        flag:\n          type: boolean\n          default: true\n        nul:\n          type: string\n          nullable: true\n          default: null\n")
	return []byte(b.String())
}

// fixedRepeated: mappings that occur several times as data (the alias recipe writes them
// once), reached through references that stop at a component and through references that
// go deeper (the enclosing schema is then decoded from the node tree by another path).
const fixedRepeated = `openapi: 3.0.3
info: {title: repeated, version: "1"}
paths:
  /a:
    get:
      operationId: getA
      responses:
        "200":
          description: ok
          content:
            application/json:
              schema: {$ref: "#/components/schemas/Pet"}
        "404":
          description: missing
          content:
            application/json:
              schema: {$ref: "#/components/schemas/Pet/properties/owner"}
  /b:
    get:
      operationId: getB
      responses:
        "200":
          description: ok
          content:
            application/json:
              schema: {$ref: "#/components/schemas/Owner2"}
components:
  schemas:
    Pet:
      type: object
      properties:
        name: {type: string, maxLength: 10}
        nick: {type: string, maxLength: 10}
        owner:
          type: object
          properties:
            first: {type: string, minLength: 1}
            last: {type: string, minLength: 1}
            address:
              type: object
              properties:
                street: {type: string, minLength: 1}
    Owner2:
      type: object
      properties:
        first: {type: string, minLength: 1}
        home:
          type: object
          properties:
            street: {type: string, minLength: 1}
`

// fixedDupOp / fixedDupEnum: invalid documents whose diagnostic names two places; in the
// compact and flow spellings both places share a line, in the block ones they do not.
const fixedDupOp = `openapi: 3.0.3
info: {title: dup, version: "1"}
paths:
  /a:
    get:
      operationId: same
      responses: {"200": {description: ok}}
  /b:
    get:
      operationId: same
      responses: {"200": {description: ok}}
`

// fixedDeepRef: references whose pointers walk through members written as plain keys that read
// as integers (status codes), through a path key with an escaped slash and through array items.
const fixedDeepRef = `openapi: 3.0.3
info: {title: deep, version: "1"}
paths:
  /pets:
    get:
      operationId: listPets
      responses:
        200:
          description: ok
          content:
            application/json:
              schema:
                type: array
                items:
                  type: object
                  required: [id]
                  properties:
                    id: {type: integer}
                    tags:
                      type: array
                      items: {type: string, maxLength: 8}
        404:
          description: none
          content:
            application/json:
              schema:
                oneOf:
                  - type: string
                  - type: integer
    post:
      operationId: addPet
      requestBody:
        required: true
        content:
          application/json:
            schema:
              $ref: '#/paths/~1pets/get/responses/200/content/application~1json/schema/items'
      responses:
        201:
          description: created
          content:
            application/json:
              schema:
                $ref: '#/paths/~1pets/get/responses/404/content/application~1json/schema/oneOf/1'
        default:
          description: error
          content:
            application/json:
              schema:
                $ref: '#/paths/~1pets/get/responses/200/content/application~1json/schema/items/properties/tags'
`

// fixedMerge: shared fragments anchored once and merged in with `<<`, next to members of the
// mapping's own (extensions among them); every variant spells the merged members out.
const fixedMerge = `openapi: 3.0.3
info:
  title: merge
  version: "1"
x-defs:
  strictObject: &strictObject
    type: object
    additionalProperties: false
  petTag: &petTag
    tags: [pets]
  okOnly: &okOnly
    description: done
paths:
  /pets:
    get:
      <<: *petTag
      operationId: listPets
      x-ogen-operation-group: Pets
      responses:
        "200":
          description: all pets
          content:
            application/json:
              schema:
                type: array
                items:
                  $ref: '#/components/schemas/Pet'
    delete:
      <<: [*petTag]
      operationId: dropPets
      responses:
        "204":
          <<: *okOnly
components:
  schemas:
    Pet:
      <<: *strictObject
      x-ogen-name: Animal
      required: [id]
      properties:
        id:
          type: integer
          format: int64
        name:
          type: string
          x-ogen-name: Title
`

const fixedDupEnum = `openapi: 3.0.3
info: {title: dup, version: "1"}
paths:
  /a:
    get:
      operationId: getA
      parameters:
        - name: q
          in: query
          schema:
            type: string
            enum:
              - cat
              - dog
              - cat
      responses: {"200": {description: ok}}
`

type docCase struct {
	name string
	data []byte
}

// Check is the C17 entry point.
func Check(r *core.Run) error {
	r.SetRule("spec/Spelling.tla models the environment: lexical classes of scalars, what a plain spelling of each resolves to (YAML 1.1-style booleans included), which styles keep a datum, and the recipe space (collection styles, string style, key quoting, indentation, sequence indentation, comments, JSON compact/indented); TLC checks that every recipe keeps strings strings and non-strings plain for every class, and emits the recipes and witness texts. " +
		"Conformance: every corpus document (positive, examples, negative), two skeleton documents built from the witness texts (enum/default/example/extension values, unsorted property names, look-alike names, numbers in plain decimal and in exotic YAML forms) and seeded invalid mutants are re-spelled by the harness's own emitter under the recipes; the harness re-reads each variant and demands the same data (else the harness is at fault), runs ogen.Parse -> gen.NewGenerator -> WriteSource on original and variant, and TLC judges: same outcome class, byte-identical files, or identical diagnostic with positions removed. " +
		"Non-trivial = every judged variant; distinct = (recipe family, outcome class).")
	res, err := tlc.Run(nil, tlc.Options{SpecDir: obs.SpecDir, Module: "SpellingMC", Timeout: 5 * time.Minute, Scratch: r.Scratch, Workers: 2,
		Cfg: tlc.Cfg("INIT Init", "NEXT Next", "INVARIANTS KeepsStrings NonStringsPlain Witnessed KeysAreNames", "CHECK_DEADLOCK FALSE")})
	if err != nil {
		return err
	}
	if res.Violated != "" {
		return fmt.Errorf("%w: SpellingMC violates %s", tlc.ErrInfra, res.Violated)
	}
	r.AddStates(res.Distinct, res.Generated)
	emit := func(mode string, into any) error {
		ls, err := obs.Emit(r, "SpellingEmit", tlc.Cfg(`CONSTANT Mode = "`+mode+`"`, "INIT Init", "NEXT Next"), 5*time.Minute)
		if err != nil {
			return err
		}
		var all []json.RawMessage
		for _, l := range ls {
			all = append(all, l)
		}
		b, _ := json.Marshal(all)
		return json.Unmarshal(b, into)
	}
	var recipes []recipe
	var ws []witness
	if err := emit("recipes", &recipes); err != nil {
		return err
	}
	if err := emit("witness", &ws); err != nil {
		return err
	}
	sort.Slice(recipes, func(i, j int) bool { return recipes[i].String() < recipes[j].String() })
	sort.Slice(ws, func(i, j int) bool { return ws[i].Class+ws[i].Text < ws[j].Class+ws[j].Text })
	r.Cov("recipes", len(recipes))
	r.Cov("witness_texts", len(ws))

	var lines [][]byte
	var desc []string
	// bind PlainTag to the reader
	for _, w := range ws {
		got := "unreadable"
		var n yaml.Node
		if w.Tag != "unreadable" && yaml.Unmarshal([]byte("- "+w.Text+"\n"), &n) == nil && len(n.Content) == 1 && len(n.Content[0].Content) == 1 && n.Content[0].Content[0].Kind == yaml.ScalarNode {
			got = strings.TrimPrefix(n.Content[0].Content[0].ShortTag(), "!!")
			// the YAML 1.1 resolver ogen uses for enum / default / example values
			if j, err := helperyaml.YAMLToJSON([]byte("- " + w.Text + "\n")); err == nil && got == "str" {
				switch t := strings.TrimSpace(string(j)); {
				case t == "[true]" || t == "[false]":
					got = "bool"
				case t == "[null]":
					got = "null"
				}
			}
		}
		b, _ := json.Marshal(map[string]any{"kind": "witness", "text": w.Text, "tag": w.Tag, "got": got})
		lines = append(lines, b)
		desc = append(desc, fmt.Sprintf("witness %q of class %s: model %s, reader %s", w.Text, w.Class, w.Tag, got))
	}

	var docs []docCase
	for _, f := range corpus() {
		data, err := os.ReadFile(f)
		if err == nil {
			docs = append(docs, docCase{filepath.Base(filepath.Dir(f)) + "/" + filepath.Base(f), data})
		}
	}
	docs = append(docs, docCase{"skeleton-plain", skeleton(ws, false)}, docCase{"skeleton-exotic", skeleton(ws, true)})
	// fixed shapes that get every recipe in both tiers (see allRecipes below)
	docs = append(docs, docCase{"fixed-repeated-mappings", []byte(fixedRepeated)}, docCase{"fixed-duplicate-operation-id", []byte(fixedDupOp)}, docCase{"fixed-duplicate-enum-value", []byte(fixedDupEnum)}, docCase{"fixed-deep-references-through-plain-integer-keys", []byte(fixedDeepRef)}, docCase{"fixed-merge-keys-next-to-own-members", []byte(fixedMerge)})
	// invalid mutants of the first documents: a diagnostic has to survive re-spelling too
	rng := rand.New(rand.NewPCG(uint64(r.Seed), 0xC17))
	nMut := 12
	if r.Thorough() {
		nMut = 60
	}
	for k := 0; k < nMut && len(docs) > 2; k++ {
		d := docs[rng.IntN(len(docs)-2)]
		var n yaml.Node
		if yaml.Unmarshal(d.data, &n) != nil {
			continue
		}
		if mutate(&n, rng) {
			if y, err := yaml.Marshal(&n); err == nil {
				docs = append(docs, docCase{d.name + "#mutant" + fmt.Sprint(k), y})
			}
		}
	}
	r.Cov("documents", len(docs))
	perDoc := 6
	if r.Thorough() {
		perDoc = len(recipes)
	}
	type job struct {
		doc docCase
		rec recipe
		n   *yaml.Node
		ref *outcome
	}
	var jobs []job
	na := map[string]int{}
	nMerge := 0
	refs := make([]*outcome, len(docs))
	nodes := make([]*yaml.Node, len(docs))
	var wg sync.WaitGroup
	sem := make(chan struct{}, 12)
	for i, d := range docs {
		var n yaml.Node
		if err := yaml.Unmarshal(d.data, &n); err != nil || n.Kind == 0 {
			na["original is not readable YAML"]++
			continue
		}
		nodes[i] = &n
		if strings.HasPrefix(d.name, "fixed-merge") {
			// the document is written with merge keys; its variants spell the members out
			if e, ok := expandMerges(&n); ok {
				nodes[i] = e
				nMerge++
			}
		}
		wg.Add(1)
		go func(i int, data []byte) {
			defer wg.Done()
			sem <- struct{}{}
			o := generate(data)
			refs[i] = &o
			<-sem
		}(i, d.data)
	}
	wg.Wait()
	for i, d := range docs {
		if nodes[i] == nil {
			continue
		}
		// always the two JSON forms and the all-flow / all-block extremes; then a seeded sample
		var pick []recipe
		for _, rc := range recipes {
			if rc.JSON != "none" {
				pick = append(pick, rc)
			}
		}
		idx := rng.Perm(len(recipes))
		for _, k := range idx {
			if len(pick) >= perDoc+2 && !strings.HasPrefix(d.name, "fixed-") {
				break
			}
			if recipes[k].JSON == "none" {
				pick = append(pick, recipes[k])
			}
		}
		for _, rc := range pick {
			jobs = append(jobs, job{d, rc, nodes[i], refs[i]})
		}
	}
	type resT struct {
		line []byte
		desc string
		na   string
	}
	r.Cov("documents_written_with_merge_keys_and_spelled_out_in_their_variants", nMerge)
	results := make([]resT, len(jobs))
	var flaky atomic.Int64
	for k, j := range jobs {
		wg.Add(1)
		go func(k int, j job) {
			defer wg.Done()
			sem <- struct{}{}
			defer func() { <-sem }()
			variant, err := spell(j.n, j.rec)
			if err != nil {
				results[k].na = err.Error()
				return
			}
			var back yaml.Node
			den := yaml.Unmarshal(variant, &back) == nil && sameData(j.n, &back)
			got := outcome{"skipped", ""}
			if den {
				got = generate(variant)
			}
			same := got.sum == j.ref.sum
			if den && !same && got.kind == "err" && j.ref.kind == "err" {
				// which of several faults is reported first follows map iteration order in the
				// parser: a diagnostic is "the same" when both spellings can produce it
				a, b := map[string]bool{j.ref.sum: true}, map[string]bool{got.sum: true}
				for k := 0; k < 24 && !same; k++ {
					a[generate(j.doc.data).sum] = true
					b[generate(variant).sum] = true
					for x := range a {
						if b[x] {
							same = true
						}
					}
				}
				if same {
					flaky.Add(1)
				}
			}
			line, _ := json.Marshal(map[string]any{"kind": "variant", "den": den, "ref": j.ref.kind, "got": got.kind, "same": same})
			results[k].line = line
			results[k].desc = fmt.Sprintf("%s under %s: original %s, variant %s", j.doc.name, j.rec, j.ref.kind, got.kind)
			if got.sum != j.ref.sum && got.kind == j.ref.kind && got.kind != "ok" {
				results[k].desc += fmt.Sprintf(" | original: %.300s | variant: %.300s", j.ref.sum, got.sum)
			}
			if !den || !same {
				keep := filepath.Join(core.VerifDir, "evidence", "replays", fmt.Sprintf("C17-%x", sha256.Sum256(variant))[:60])
				os.MkdirAll(filepath.Dir(keep), 0o755)
				os.WriteFile(keep+".variant", variant, 0o644)
				os.WriteFile(keep+".original", j.doc.data, 0o644)
				results[k].desc += " files=" + keep + ".{original,variant}"
			}
		}(k, j)
	}
	wg.Wait()
	nVar := 0
	var metas []job
	metas = append(metas, make([]job, len(lines))...)
	for k, rs := range results {
		if rs.na != "" {
			na[rs.na]++
			continue
		}
		nVar++
		lines = append(lines, rs.line)
		desc = append(desc, rs.desc)
		metas = append(metas, jobs[k])
		fam := "yaml"
		if jobs[k].rec.JSON != "none" {
			fam = "json"
		} else if jobs[k].rec.Map == "flow" {
			fam = "flow"
		}
		r.Nontrivial(fam + "|" + jobs[k].ref.kind + "|" + jobs[k].rec.Str)
		if k%150 == 0 {
			r.Sample(rs.desc)
		}
	}
	r.Cov("variants_judged", nVar)
	r.Cov("diagnostics_that_vary_between_runs_of_one_text", flaky.Load())
	r.Cov("variants_without_spelling", na)
	r.AddEvals(int64(nVar))
	vs, err := obs.Check(r, lines, obs.CheckOpts{Module: "SpellingCheck", Cfg: obs.StdCfg(), ChunkSize: 5000})
	if err != nil {
		return err
	}
	for _, v := range vs {
		if strings.HasPrefix(v.Kind, "harness") {
			r.Infra("%s: %s", v.Kind, desc[v.Index])
			continue
		}
		r.Violate(desc[v.Index]+": "+v.Kind, map[string]any{"verdict": v.Kind, "what": desc[v.Index]})
	}
	return nil
}

// mutate makes the document invalid in one place (a schema type becomes a number, or a
// required top-level member disappears).
func mutate(n *yaml.Node, rng *rand.Rand) bool {
	var types []*yaml.Node
	var walk func(*yaml.Node)
	walk = func(x *yaml.Node) {
		if x.Kind == yaml.MappingNode {
			for i := 0; i+1 < len(x.Content); i += 2 {
				if x.Content[i].Value == "type" && x.Content[i+1].Kind == yaml.ScalarNode {
					types = append(types, x.Content[i+1])
				}
			}
		}
		for _, c := range x.Content {
			walk(c)
		}
	}
	walk(n)
	if len(types) == 0 {
		return false
	}
	t := types[rng.IntN(len(types))]
	if rng.IntN(2) == 0 {
		t.Tag, t.Value, t.Style = "!!int", "42", 0
	} else {
		t.Tag, t.Value, t.Style = "!!str", "no-such-type", 0
	}
	return true
}

// Replay re-runs the check.
func Replay(r *core.Run, path string) error { return Check(r) }
