package c17

import (
	"bytes"
	"encoding/json"
	"fmt"
	"regexp"
	"strconv"
	"strings"
	"sync"
	"unicode"

	helperyaml "github.com/ghodss/yaml"
	"github.com/go-faster/yaml"
)

// recipe is one spelling assignment emitted by TLC (spec/Spelling.tla Recipes).
type recipe struct {
	Map       string `json:"map"`
	Seq       string `json:"seq"`
	Str       string `json:"str"`
	Key       string `json:"key"`
	Indent    int    `json:"indent"`
	SeqIndent bool   `json:"seqindent"`
	Comments  bool   `json:"comments"`
	JSON      string `json:"json"`
	Alias     bool   `json:"alias"`
}

func (r recipe) String() string {
	if r.JSON != "none" {
		return "json-" + r.JSON
	}
	return fmt.Sprintf("map=%s seq=%s str=%s key=%s indent=%d seqindent=%v comments=%v alias=%v", r.Map, r.Seq, r.Str, r.Key, r.Indent, r.SeqIndent, r.Comments, r.Alias)
}

// errNA: the document has no spelling under this recipe (or uses a construct the
// independent emitter does not write); counted, not judged.
type errNA string

func (e errNA) Error() string { return string(e) }

var (
	jsonNumber = regexp.MustCompile(`^-?(0|[1-9][0-9]*)(\.[0-9]+)?([eE][-+]?[0-9]+)?$`)
	safeMu     sync.Mutex
	safeCache  = map[string]bool{}
)

func resolve(n *yaml.Node) *yaml.Node {
	for n.Kind == yaml.AliasNode && n.Alias != nil {
		n = n.Alias
	}
	return n
}

// ambiguous11: a YAML 1.1 resolver reads the plain form as something other than this string
// (a boolean, null, a number): quoting such a plain scalar of the original would change
// what that reader sees.
func ambiguous11(s string) bool {
	if s == "" || strings.ContainsAny(s, "\n\r\t") {
		return false
	}
	j, err := helperyaml.YAMLToJSON([]byte("- " + s + "\n"))
	if err != nil {
		return false // not readable as a plain scalar at all: nobody reads it plain
	}
	return string(bytes.TrimSpace(j)) != "["+jsonString(s)+"]"
}

// plainSafe: may this string be written as a plain scalar (in block or flow context) and
// still be read as the same string? Syntactic screen first, then the reader is asked.
func plainSafe(s string) bool {
	if s == "" || strings.TrimSpace(s) != s {
		return false
	}
	for _, r := range s {
		if r == '\n' || r == '\t' || r == '\r' || !unicode.IsPrint(r) {
			return false
		}
	}
	if strings.ContainsAny(s[:1], "-?:,[]{}#&*!|>'\"%@`") || strings.ContainsAny(s, ",[]{}") ||
		strings.Contains(s, ": ") || strings.Contains(s, " #") || strings.HasSuffix(s, ":") {
		return false
	}
	safeMu.Lock()
	v, ok := safeCache[s]
	safeMu.Unlock()
	if ok {
		return v
	}
	var n yaml.Node
	v = false
	// ogen reads enum / default / example values through a YAML 1.1 resolver
	// (ghodss/yaml): the plain form has to be a string for that reader too
	if j, err := helperyaml.YAMLToJSON([]byte("- " + s + "\n")); err != nil || string(bytes.TrimSpace(j)) != "["+jsonString(s)+"]" {
		safeMu.Lock()
		safeCache[s] = false
		safeMu.Unlock()
		return false
	}
	if yaml.Unmarshal([]byte("- "+s+"\n- {k: "+s+"}\n"), &n) == nil && len(n.Content) == 1 && len(n.Content[0].Content) == 2 {
		a := n.Content[0].Content[0]
		b := n.Content[0].Content[1]
		if a.Kind == yaml.ScalarNode && a.ShortTag() == "!!str" && a.Value == s && b.Kind == yaml.MappingNode && len(b.Content) == 2 &&
			b.Content[1].Kind == yaml.ScalarNode && b.Content[1].ShortTag() == "!!str" && b.Content[1].Value == s {
			v = true
		}
	}
	safeMu.Lock()
	safeCache[s] = v
	safeMu.Unlock()
	return v
}

func doubleQuoted(s string) string {
	var b strings.Builder
	b.WriteByte('"')
	for _, r := range s {
		switch {
		case r == '"':
			b.WriteString(`\"`)
		case r == '\\':
			b.WriteString(`\\`)
		case r == '\n':
			b.WriteString(`\n`)
		case r == '\t':
			b.WriteString(`\t`)
		case r == '\r':
			b.WriteString(`\r`)
		case r < 0x20 || r == 0x7f:
			fmt.Fprintf(&b, `\x%02x`, r)
		case r == 0x85 || r == 0xa0 || r == 0x2028 || r == 0x2029 || r == 0xfeff || !unicode.IsPrint(r):
			if r > 0xffff {
				fmt.Fprintf(&b, `\U%08x`, r)
			} else {
				fmt.Fprintf(&b, `\u%04x`, r)
			}
		default:
			b.WriteRune(r)
		}
	}
	b.WriteByte('"')
	return b.String()
}

func singleOK(s string) bool {
	for _, r := range s {
		if r == '\n' || r == '\r' || r == '\t' || !unicode.IsPrint(r) {
			return false
		}
	}
	return true
}

func jsonString(s string) string {
	var b bytes.Buffer
	e := json.NewEncoder(&b)
	e.SetEscapeHTML(false)
	e.Encode(s)
	return strings.TrimRight(b.String(), "\n")
}

type speller struct {
	r recipe
	b strings.Builder
	n int // entries written (comment cadence)
	// alias recipe: canonical text of a repeated mapping -> anchor name; written: anchors already defined
	anchors map[string]string
	written map[string]bool
	inRaw   bool // below a member whose value ogen keeps raw
}

// canon is a canonical text of a node as data (aliases expanded).
func canon(n *yaml.Node, b *strings.Builder) {
	n = resolve(n)
	switch n.Kind {
	case yaml.MappingNode:
		b.WriteByte('{')
		for i := 0; i+1 < len(n.Content); i += 2 {
			canon(n.Content[i], b)
			b.WriteByte(':')
			canon(n.Content[i+1], b)
			b.WriteByte(',')
		}
		b.WriteByte('}')
	case yaml.SequenceNode:
		b.WriteByte('[')
		for _, c := range n.Content {
			canon(c, b)
			b.WriteByte(',')
		}
		b.WriteByte(']')
	default:
		fmt.Fprintf(b, "%s %q", n.ShortTag(), n.Value)
	}
}

// rawKeys: members whose values ogen keeps as raw values (not decoded node by node); the
// alias recipe leaves them alone.
var rawKeys = map[string]bool{"example": true, "examples": true, "default": true, "enum": true, "const": true}

// planAliases gives an anchor to every non-empty mapping in value position that occurs more
// than once as data.
func (sp *speller) planAliases(root *yaml.Node) {
	count := map[string]int{}
	var order []string
	var walk func(n *yaml.Node, value bool)
	walk = func(n *yaml.Node, value bool) {
		n = resolve(n)
		switch n.Kind {
		case yaml.MappingNode:
			if value && len(n.Content) >= 2 {
				var b strings.Builder
				canon(n, &b)
				if count[b.String()] == 0 {
					order = append(order, b.String())
				}
				count[b.String()]++
			}
			for i := 0; i+1 < len(n.Content); i += 2 {
				k := resolve(n.Content[i])
				if rawKeys[k.Value] || strings.HasPrefix(k.Value, "x-") {
					continue
				}
				walk(n.Content[i+1], true)
			}
		case yaml.SequenceNode:
			for _, c := range n.Content {
				walk(c, true)
			}
		}
	}
	walk(root, false)
	sp.anchors, sp.written = map[string]string{}, map[string]bool{}
	for _, c := range order {
		if count[c] >= 2 {
			sp.anchors[c] = fmt.Sprintf("a%d", len(sp.anchors)+1)
		}
	}
}

// aliasFor tells how a value is written under the alias recipe: name == "" as usual,
// otherwise with the anchor (first) or as the alias.
func (sp *speller) aliasFor(v *yaml.Node) (name string, first bool) {
	if len(sp.anchors) == 0 || sp.inRaw {
		return "", false
	}
	v = resolve(v)
	if v.Kind != yaml.MappingNode || len(v.Content) < 2 {
		return "", false
	}
	var b strings.Builder
	canon(v, &b)
	name = sp.anchors[b.String()]
	if name == "" {
		return "", false
	}
	if sp.written[name] {
		return name, false
	}
	sp.written[name] = true
	return name, true
}

func (sp *speller) scalar(n *yaml.Node, key bool) (string, error) {
	tag := n.ShortTag()
	if tag == "!!timestamp" && n.Style == 0 {
		// OpenAPI documents are YAML 1.2 with the JSON-schema tag set: there is no timestamp
		// type, a plain date is the string of its text and may be quoted like any string
		tag = "!!str"
		if sp.r.JSON == "none" && (key || sp.r.Str == "plain") {
			return n.Value, nil
		}
	}
	switch tag {
	case "!!str":
		style := sp.r.Str
		if key {
			style = sp.r.Key
		}
		if n.Style == 0 && n.ShortTag() == "!!str" && ambiguous11(n.Value) {
			// a plain scalar of the original that the two resolvers in ogen's pipeline read
			// differently (`N`, `yes`, ...): quoting it would change what some reader sees, so it
			// is kept as it is
			if sp.r.JSON != "none" {
				return "", errNA("plain scalar " + strconv.Quote(n.Value) + " is read differently by YAML 1.1 and 1.2 resolvers")
			}
			if strings.ContainsAny(n.Value, ",[]{}") || strings.Contains(n.Value, ": ") || strings.Contains(n.Value, " #") {
				return "", errNA("plain scalar with flow indicators")
			}
			return n.Value, nil
		}
		switch {
		case sp.r.JSON != "none":
			return jsonString(n.Value), nil
		case style == "plain" && plainSafe(n.Value):
			return n.Value, nil
		case style != "double" && singleOK(n.Value):
			return "'" + strings.ReplaceAll(n.Value, "'", "''") + "'", nil
		}
		return doubleQuoted(n.Value), nil
	case "!!int", "!!float", "!!bool", "!!null":
		if n.Style&(yaml.SingleQuotedStyle|yaml.DoubleQuotedStyle|yaml.LiteralStyle|yaml.FoldedStyle|yaml.TaggedStyle) != 0 {
			return "", errNA("explicitly tagged scalar")
		}
		if sp.r.JSON != "none" {
			if key && tag == "!!int" && canonicalDecimal.MatchString(n.Value) {
				// a member name: the plain key `200` names the member "200" (spec/Spelling.tla KeyTag)
				return jsonString(n.Value), nil
			}
			if key {
				return "", errNA("non-string key has no JSON spelling")
			}
			switch {
			case tag == "!!null" && n.Value == "null", tag == "!!bool" && (n.Value == "true" || n.Value == "false"):
			case (tag == "!!int" || tag == "!!float") && jsonNumber.MatchString(n.Value):
			default:
				return "", errNA("scalar " + strconv.Quote(n.Value) + " is not a JSON literal")
			}
		}
		if n.Value == "" {
			return "null", nil // an empty value is the null scalar; written out so that flow forms stay readable
		}
		return n.Value, nil
	}
	return "", errNA("scalar tag " + tag)
}

func (sp *speller) flow(n *yaml.Node) error {
	n = resolve(n)
	if name, first := sp.aliasFor(n); name != "" && !sp.inRaw {
		if !first {
			sp.b.WriteString("*" + name)
			return nil
		}
		sp.b.WriteString("&" + name + " ")
	}
	sepItem, sepKV := ", ", ": "
	if sp.r.JSON == "compact" {
		sepItem, sepKV = ",", ":"
	}
	switch n.Kind {
	case yaml.ScalarNode:
		s, err := sp.scalar(n, false)
		if err != nil {
			return err
		}
		sp.b.WriteString(s)
	case yaml.SequenceNode:
		sp.b.WriteByte('[')
		for i, c := range n.Content {
			if i > 0 {
				sp.b.WriteString(sepItem)
			}
			if err := sp.flow(c); err != nil {
				return err
			}
		}
		sp.b.WriteByte(']')
	case yaml.MappingNode:
		sp.b.WriteByte('{')
		for i := 0; i+1 < len(n.Content); i += 2 {
			if i > 0 {
				sp.b.WriteString(sepItem)
			}
			k := resolve(n.Content[i])
			if k.Kind != yaml.ScalarNode {
				return errNA("non-scalar key")
			}
			if k.ShortTag() == "!!merge" {
				return errNA("merge key")
			}
			ks, err := sp.scalar(k, true)
			if err != nil {
				return err
			}
			sp.b.WriteString(ks)
			sp.b.WriteString(sepKV)
			was := sp.inRaw
			if rawKeys[k.Value] || strings.HasPrefix(k.Value, "x-") {
				sp.inRaw = true
			}
			err = sp.flow(n.Content[i+1])
			sp.inRaw = was
			if err != nil {
				return err
			}
		}
		sp.b.WriteByte('}')
	default:
		return errNA("node kind")
	}
	return nil
}

func (sp *speller) isBlock(n *yaml.Node) bool {
	n = resolve(n)
	switch n.Kind {
	case yaml.MappingNode:
		return sp.r.Map == "block" && len(n.Content) > 0
	case yaml.SequenceNode:
		return sp.r.Seq == "block" && len(n.Content) > 0
	}
	return false
}

// block writes a non-empty block collection, every line starting at column ind.
func (sp *speller) block(n *yaml.Node, ind int) error {
	n = resolve(n)
	pad := strings.Repeat(" ", ind)
	switch n.Kind {
	case yaml.MappingNode:
		for i := 0; i+1 < len(n.Content); i += 2 {
			k := resolve(n.Content[i])
			if k.Kind != yaml.ScalarNode {
				return errNA("non-scalar key")
			}
			if k.ShortTag() == "!!merge" {
				return errNA("merge key")
			}
			ks, err := sp.scalar(k, true)
			if err != nil {
				return err
			}
			sp.n++
			if sp.r.Comments && sp.n%3 == 0 {
				fmt.Fprintf(&sp.b, "\n%s# note %d: spelled by the harness\n", pad, sp.n)
			}
			sp.b.WriteString(pad + ks + ":")
			v := n.Content[i+1]
			was := sp.inRaw
			if rawKeys[k.Value] || strings.HasPrefix(k.Value, "x-") {
				sp.inRaw = true
			}
			restore := func() { sp.inRaw = was }
			if sp.isBlock(v) {
				if name, first := sp.aliasFor(v); name != "" && !sp.inRaw {
					if !first {
						sp.b.WriteString(" *" + name + "\n")
						restore()
						continue
					}
					sp.b.WriteString(" &" + name)
				}
				sp.b.WriteByte('\n')
				child := ind + sp.r.Indent
				if resolve(v).Kind == yaml.SequenceNode && !sp.r.SeqIndent {
					child = ind
				}
				err := sp.block(v, child)
				restore()
				if err != nil {
					return err
				}
				continue
			}
			sp.b.WriteByte(' ')
			err = sp.flow(v)
			restore()
			if err != nil {
				return err
			}
			if sp.r.Comments && sp.n%5 == 0 {
				sp.b.WriteString("  # trailing")
			}
			sp.b.WriteByte('\n')
		}
	case yaml.SequenceNode:
		for _, c := range n.Content {
			if sp.isBlock(c) {
				if name, first := sp.aliasFor(c); name != "" && !sp.inRaw {
					if !first {
						sp.b.WriteString(pad + "- *" + name + "\n")
						continue
					}
					sp.b.WriteString(pad + "- &" + name + "\n")
				} else {
					sp.b.WriteString(pad + "-\n")
				}
				if err := sp.block(c, ind+sp.r.Indent); err != nil {
					return err
				}
				continue
			}
			sp.b.WriteString(pad + "- ")
			if err := sp.flow(c); err != nil {
				return err
			}
			sp.b.WriteByte('\n')
		}
	default:
		return errNA("node kind")
	}
	return nil
}

func indentJSON(compact []byte) ([]byte, error) {
	var out bytes.Buffer
	if err := json.Indent(&out, compact, "", "  "); err != nil {
		return nil, err
	}
	return out.Bytes(), nil
}

// spell writes the document under the recipe with the harness's own emitter.
func spell(doc *yaml.Node, r recipe) ([]byte, error) {
	root := doc
	if root.Kind == yaml.DocumentNode {
		if len(root.Content) != 1 {
			return nil, errNA("not one document")
		}
		root = root.Content[0]
	}
	sp := &speller{r: r}
	if r.Alias {
		sp.planAliases(root)
	}
	if r.Comments {
		sp.b.WriteString("# re-spelled\n---\n")
	}
	if sp.isBlock(root) {
		if err := sp.block(root, 0); err != nil {
			return nil, err
		}
	} else {
		if err := sp.flow(root); err != nil {
			return nil, err
		}
		sp.b.WriteByte('\n')
	}
	out := []byte(sp.b.String())
	if r.JSON == "indented" {
		return indentJSON(bytes.TrimSpace(out))
	}
	return out, nil
}

// expandMerges returns a copy of the tree in which every merge key (`<<: *a`, `<<: [*a, *b]`) is
// replaced by the members it stands for (YAML 1.1 merge: members written in the mapping itself
// win, earlier merged mappings win over later ones); the members merged in come first.
// ok is false when a merge value is not a mapping / a sequence of mappings.
func expandMerges(n *yaml.Node) (out *yaml.Node, ok bool) {
	if n.Kind == yaml.AliasNode {
		// the target is expanded where it is defined; an alias keeps pointing to the copy
		return n, true
	}
	cp := *n
	cp.Content = nil
	ok = true
	if n.Kind != yaml.MappingNode {
		for _, c := range n.Content {
			e, k := expandMerges(c)
			ok = ok && k
			cp.Content = append(cp.Content, e)
		}
		return &cp, ok
	}
	own := map[string]bool{}
	for i := 0; i+1 < len(n.Content); i += 2 {
		if k := resolve(n.Content[i]); k.Kind == yaml.ScalarNode && k.ShortTag() != "!!merge" {
			own[k.ShortTag()+" "+k.Value] = true
		}
	}
	var merged, rest []*yaml.Node
	take := func(m *yaml.Node) bool {
		m = resolve(m)
		if m.Kind != yaml.MappingNode {
			return false
		}
		em, k := expandMerges(m)
		if !k {
			return false
		}
		for i := 0; i+1 < len(em.Content); i += 2 {
			key := resolve(em.Content[i])
			id := key.ShortTag() + " " + key.Value
			if key.Kind != yaml.ScalarNode || own[id] {
				continue
			}
			own[id] = true
			merged = append(merged, em.Content[i], em.Content[i+1])
		}
		return true
	}
	for i := 0; i+1 < len(n.Content); i += 2 {
		k, v := n.Content[i], n.Content[i+1]
		if resolve(k).ShortTag() == "!!merge" {
			switch rv := resolve(v); rv.Kind {
			case yaml.MappingNode:
				ok = take(rv) && ok
			case yaml.SequenceNode:
				for _, m := range rv.Content {
					ok = take(m) && ok
				}
			default:
				ok = false
			}
			continue
		}
		ek, k1 := expandMerges(k)
		ev, k2 := expandMerges(v)
		ok = ok && k1 && k2
		rest = append(rest, ek, ev)
	}
	cp.Content = append(merged, rest...)
	return &cp, ok
}

var canonicalDecimal = regexp.MustCompile(`^(0|[1-9][0-9]*)$`)

// sameKey: member names are strings; a plain key that reads as a canonical decimal integer
// names the member spelled by its digits (spec/Spelling.tla KeyTag).
func sameKey(a, b *yaml.Node) bool {
	a, b = resolve(a), resolve(b)
	if a.Kind == yaml.ScalarNode && b.Kind == yaml.ScalarNode {
		name := func(n *yaml.Node) (string, bool) {
			switch {
			case n.ShortTag() == "!!str":
				return n.Value, true
			case n.ShortTag() == "!!int" && n.Style == 0 && canonicalDecimal.MatchString(n.Value):
				return n.Value, true
			}
			return "", false
		}
		na, oka := name(a)
		nb, okb := name(b)
		if oka && okb {
			return na == nb
		}
	}
	return sameData(a, b)
}

// sameData compares two node trees as data (kind, resolved tag, value; aliases expanded).
func sameData(a, b *yaml.Node) bool {
	a, b = resolve(a), resolve(b)
	if a.Kind == yaml.DocumentNode && len(a.Content) == 1 {
		a = a.Content[0]
	}
	if b.Kind == yaml.DocumentNode && len(b.Content) == 1 {
		b = b.Content[0]
	}
	a, b = resolve(a), resolve(b)
	if a.Kind != b.Kind {
		return false
	}
	switch a.Kind {
	case yaml.ScalarNode:
		ta, tb := a.ShortTag(), b.ShortTag()
		if ta == "!!timestamp" {
			ta = "!!str"
		}
		if tb == "!!timestamp" {
			tb = "!!str"
		}
		if ta != tb {
			return false
		}
		if a.ShortTag() == "!!null" {
			return true
		}
		return a.Value == b.Value
	default:
		if len(a.Content) != len(b.Content) {
			return false
		}
		for i := range a.Content {
			if a.Kind == yaml.MappingNode && i%2 == 0 {
				if !sameKey(a.Content[i], b.Content[i]) {
					return false
				}
				continue
			}
			if !sameData(a.Content[i], b.Content[i]) {
				return false
			}
		}
		return true
	}
}
