// Package c09 decides C09 (security requirements) — spec/Security*.tla.
package c09

import (
	_ "embed"
	"encoding/json"
	"fmt"
	"math/rand/v2"
	"os"
	"path/filepath"
	"strings"
	"time"

	"github.com/ogen-go/ogen/gen"

	"verif/internal/bx"
	"verif/internal/core"
	"verif/internal/gencode"
	"verif/internal/obs"
	"verif/internal/tlc"
)

//go:embed driver_main.go.txt
var driverMain string

type structure struct {
	Reqs    [][]int `json:"reqs"`
	NotImpl []int   `json:"notImpl"`
	Creds   [][]int `json:"creds"` // encoded credential assignments (0 absent 1 accept 2 skip 3 reject)
	N       int     `json:"n"`
	Wide    bool    `json:"wide"`
}

var credNames = []string{"absent", "accept", "skip", "reject"}

func schemeName(s int) string { return fmt.Sprintf("k%02d", s) }

// headerName alternates canonical and non-canonical spellings (net/http canonicalises
// what arrives; the spec may spell the name any way).
func headerName(s int) string {
	switch s % 3 {
	case 1:
		return fmt.Sprintf("X-API-k%02d", s)
	case 2:
		return fmt.Sprintf("x-tenant-%02d", s)
	}
	return fmt.Sprintf("X-K%02d", s)
}

type opSpec struct {
	st       structure
	override string // "" = operation-level security; "global" = inherits global; "empty" = security: []
}

// specFor renders a batch of structures as one document (operation i = GET /o<i>).
// convenient, when set, gives every operation of the documents rendered next a common
// `default` error response, so that the generator emits its "convenient errors" code paths
// (security and decoding failures answered through Handler.NewError).
var convenient bool

func specFor(ops []opSpec, n int, notImpl map[int]bool, global [][]int) []byte {
	var b strings.Builder
	b.WriteString("openapi: 3.0.3\ninfo: {title: t, version: \"1\"}\n")
	if global != nil {
		b.WriteString("security:" + reqYAML(global, "  ") + "\n")
	}
	b.WriteString("components:\n")
	if convenient {
		b.WriteString("  schemas:\n    Error:\n      type: object\n      required: [code, message]\n      properties:\n        code: {type: integer}\n        message: {type: string}\n")
	}
	b.WriteString("  securitySchemes:\n")
	for s := 0; s < n; s++ {
		if notImpl[s] {
			fmt.Fprintf(&b, "    %s: {type: openIdConnect, openIdConnectUrl: \"https://x/.well-known\"}\n", schemeName(s))
		} else {
			fmt.Fprintf(&b, "    %s: {type: apiKey, in: header, name: %s}\n", schemeName(s), headerName(s))
		}
	}
	b.WriteString("paths:\n")
	for i, op := range ops {
		fmt.Fprintf(&b, "  /o%d:\n    get:\n      operationId: o%d\n", i, i)
		switch op.override {
		case "global":
		case "empty":
			b.WriteString("      security: []\n")
		default:
			b.WriteString("      security:" + reqYAML(op.st.Reqs, "        ") + "\n")
		}
		b.WriteString("      responses:\n        \"200\": {description: ok}\n")
		if convenient {
			b.WriteString("        default: {description: error, content: {application/json: {schema: {$ref: \"#/components/schemas/Error\"}}}}\n")
		}
	}
	return []byte(b.String())
}

func reqYAML(reqs [][]int, indent string) string {
	if len(reqs) == 0 {
		return " []"
	}
	var b strings.Builder
	for _, alt := range reqs {
		b.WriteString("\n" + indent + "- {")
		for j, s := range alt {
			if j > 0 {
				b.WriteString(", ")
			}
			b.WriteString(schemeName(s) + ": []")
		}
		b.WriteString("}")
	}
	return b.String()
}

func glue(mod *gencode.Module, pkg string) (string, error) {
	sf, err := gencode.InspectDir(filepath.Join(mod.Dir, pkg), pkg)
	if err != nil {
		return "", err
	}
	var b strings.Builder
	fmt.Fprintf(&b, "package main\n\nimport (\n\t\"context\"\n\t\"net/http\"\n\n\t\"github.com/ogen-go/ogen/middleware\"\n\t\"github.com/ogen-go/ogen/ogenerrors\"\n\n\tapi \"vmod/%s\"\n)\n\nvar _ context.Context\nvar _ = ogenerrors.ErrorCode\n\n", pkg)
	fmt.Fprintf(&b, "type h_%s struct{ api.UnimplementedHandler }\n\n", pkg)
	if sf.NewErrorType != "" {
		// convenient errors: the status of a refusal is the one ogenerrors assigns to the error
		typ := strings.TrimPrefix(sf.NewErrorType, "*")
		fmt.Fprintf(&b, "func (h_%s) NewError(ctx context.Context, err error) %s {\n\tr := &%s{}\n\tr.StatusCode = ogenerrors.ErrorCode(err)\n\treturn r\n}\n\n", pkg, sf.NewErrorType, typ)
	}
	fmt.Fprintf(&b, "type sec_%s struct{}\n\n", pkg)
	for _, m := range sf.SecMethods {
		var n int
		if _, err := fmt.Sscanf(m, "HandleK%d(", &n); err != nil {
			return "", fmt.Errorf("unexpected SecurityHandler method %q", m)
		}
		fmt.Fprintf(&b, "func (sec_%s) %s {\n\treturn decide(a0, %d, a2.APIKey)\n}\n\n", pkg, m, n)
	}
	fmt.Fprintf(&b, "func init() {\n\tregister(%q, func(mw middleware.Middleware) (http.Handler, error) {\n", pkg)
	if sf.HasSecurity {
		fmt.Fprintf(&b, "\t\treturn api.NewServer(h_%[1]s{}, sec_%[1]s{}, api.WithMiddleware(mw))\n", pkg)
	} else {
		fmt.Fprintf(&b, "\t\treturn api.NewServer(h_%s{}, api.WithMiddleware(mw))\n", pkg)
	}
	b.WriteString("\t})\n}\n")
	return b.String(), nil
}

const cliSpec = `openapi: 3.0.3
info: {title: t, version: "1"}
components:
  securitySchemes:
    hk: {type: apiKey, in: header, name: X-API-Token}
    qk: {type: apiKey, in: query, name: api_key}
    ck: {type: apiKey, in: cookie, name: sid}
    ba: {type: http, scheme: basic}
    be: {type: http, scheme: bearer}
    oa: {type: oauth2, flows: {clientCredentials: {tokenUrl: "https://x/t", scopes: {read: r, write: w, admin: a}}}}
paths:
  /hk: {get: {operationId: opHk, security: [{hk: []}], responses: {"200": {description: ok}}}}
  /qk: {get: {operationId: opQk, security: [{qk: []}], responses: {"200": {description: ok}}}}
  /ck: {get: {operationId: opCk, security: [{ck: []}], responses: {"200": {description: ok}}}}
  /ba: {get: {operationId: opBa, security: [{ba: []}], responses: {"200": {description: ok}}}}
  /be: {get: {operationId: opBe, security: [{be: []}], responses: {"200": {description: ok}}}}
  /oa: {get: {operationId: opOa, security: [{oa: [read, write]}], responses: {"200": {description: ok}}}}
  /ob: {get: {operationId: opOb, security: [{oa: [admin]}], responses: {"200": {description: ok}}}}
`

const cliGlue = `package main

import (
	"context"
	"encoding/json"
	"net/http/httptest"

	api "vmod/cli"
)

func bs(v []int) string {
	b := make([]byte, len(v))
	for i, x := range v {
		b[i] = byte(x)
	}
	return string(b)
}

func is(s string) []int {
	out := make([]int, len(s))
	for i := 0; i < len(s); i++ {
		out[i] = int(s[i])
	}
	return out
}

type cliSrc struct{ cur cliCase }

func (s *cliSrc) Hk(ctx context.Context, op api.OperationName) (api.Hk, error) { return api.Hk{APIKey: bs(s.cur.A)}, nil }
func (s *cliSrc) Qk(ctx context.Context, op api.OperationName) (api.Qk, error) { return api.Qk{APIKey: bs(s.cur.A)}, nil }
func (s *cliSrc) Ck(ctx context.Context, op api.OperationName) (api.Ck, error) { return api.Ck{APIKey: bs(s.cur.A)}, nil }
func (s *cliSrc) Ba(ctx context.Context, op api.OperationName) (api.Ba, error) {
	return api.Ba{Username: bs(s.cur.A), Password: bs(s.cur.B)}, nil
}
func (s *cliSrc) Be(ctx context.Context, op api.OperationName) (api.Be, error) { return api.Be{Token: bs(s.cur.A)}, nil }
func (s *cliSrc) Oa(ctx context.Context, op api.OperationName) (api.Oa, error) { return api.Oa{Token: bs(s.cur.A)}, nil }

type cliGot struct {
	called bool
	a, b   string
	scopes []string
}

type cliHnd struct{ got cliGot }

func (h *cliHnd) HandleHk(ctx context.Context, op api.OperationName, t api.Hk) (context.Context, error) {
	h.got = cliGot{called: true, a: t.APIKey}
	return ctx, nil
}
func (h *cliHnd) HandleQk(ctx context.Context, op api.OperationName, t api.Qk) (context.Context, error) {
	h.got = cliGot{called: true, a: t.APIKey}
	return ctx, nil
}
func (h *cliHnd) HandleCk(ctx context.Context, op api.OperationName, t api.Ck) (context.Context, error) {
	h.got = cliGot{called: true, a: t.APIKey}
	return ctx, nil
}
func (h *cliHnd) HandleBa(ctx context.Context, op api.OperationName, t api.Ba) (context.Context, error) {
	h.got = cliGot{called: true, a: t.Username, b: t.Password}
	return ctx, nil
}
func (h *cliHnd) HandleBe(ctx context.Context, op api.OperationName, t api.Be) (context.Context, error) {
	h.got = cliGot{called: true, a: t.Token}
	return ctx, nil
}
func (h *cliHnd) HandleOa(ctx context.Context, op api.OperationName, t api.Oa) (context.Context, error) {
	h.got = cliGot{called: true, a: t.Token, scopes: t.Scopes}
	return ctx, nil
}

func init() {
	cliRun = func(enc *json.Encoder, cases []cliCase) error {
		h := &cliHnd{}
		srv, err := api.NewServer(api.UnimplementedHandler{}, h)
		if err != nil {
			return err
		}
		ts := httptest.NewServer(srv)
		defer ts.Close()
		src := &cliSrc{}
		c, err := api.NewClient(ts.URL, src)
		if err != nil {
			return err
		}
		ctx := context.Background()
		for _, cs := range cases {
			src.cur = cs
			h.got = cliGot{}
			outcome := "sent"
			func() {
				defer func() {
					if e := recover(); e != nil {
						outcome = "panic"
					}
				}()
				switch cs.Kind {
				case "hk":
					_ = c.OpHk(ctx)
				case "qk":
					_ = c.OpQk(ctx)
				case "ck":
					_ = c.OpCk(ctx)
				case "ba":
					_ = c.OpBa(ctx)
				case "be":
					_ = c.OpBe(ctx)
				case "oa":
					_ = c.OpOa(ctx)
				case "ob":
					_ = c.OpOb(ctx)
				}
			}()
			scopes := h.got.scopes
			if scopes == nil {
				scopes = []string{}
			}
			if err := enc.Encode(map[string]any{"k": "cred", "kind": cs.Kind, "a": cs.A, "b": cs.B, "outcome": outcome,
				"called": h.got.called, "ga": is(h.got.a), "gb": is(h.got.b), "scopes": scopes}); err != nil {
				return err
			}
		}
		return nil
	}
}
`

// credential text classes per carrier (core domain: what the carrier can hold verbatim)
var credAlphabet = map[string]string{
	"hk": "abcXYZ019-._~=+/;,:!#$%&'*^`|",
	"qk": "abcXYZ019-._~=+/;,:!#$%&'*^`| ?@[]{}\"\\<>é",
	"ck": "abcXYZ019-._~!#$&'()*+/:<=>?@[]^`{|}",
	"ba": "abcXYZ019-._~=+/;,!#$%&'*^`| @é",
	"be": "abcXYZ019-._~+/=",
	"oa": "abcXYZ019-._~+/=",
	"ob": "abcXYZ019-._~+/=",
}

func randText(rng *rand.Rand, alphabet string, n int) string {
	r := []rune(alphabet)
	var b strings.Builder
	for i := 0; i < n; i++ {
		b.WriteRune(r[rng.IntN(len(r))])
	}
	return b.String()
}

type reqLine struct {
	Pkg   string   `json:"pkg"`
	Op    int      `json:"op"`
	Cred  []string `json:"cred"`
	Calls []struct {
		S   int    `json:"s"`
		Res string `json:"res"`
	} `json:"calls"`
	Outcome string `json:"outcome"`
	Status  int    `json:"status"`
}

// Check is the C09 entry point.
func Check(r *core.Run) error {
	r.SetRule("TLC checks exhaustively (all sequences of <=3 distinct alternatives over 3 schemes x 4^3 credential assignments, plus byte-boundary structures over 9/16/17/20 schemes) that the " +
		"transcription of generateSecurities + bitset + the generated security block refines Allowed and that every constant index fits the array. Conformance: the same structures are rendered as operations " +
		"(50 per regenerated package; operation-level, inherited-global and security: [] variants), a scripted SecurityHandler returns nil / ErrSkipServerSecurity / error as the credential says, and TLC judges for each " +
		"request the handler-ran flag, status and the order of SecurityHandler calls; structures with a not-implemented scheme under ignore_not_implemented must still compile; credentials attached by the regenerated " +
		"client (apiKey header/query/cookie, basic, bearer, oauth2 scopes) must reach the SecurityHandler unchanged. Non-trivial = at least one credential presented; distinct = (structure shape, credential class word, outcome).")
	known := r.KnownSet()
	run := func(devs string, n int) (*tlc.Result, error) {
		return tlc.Run(nil, tlc.Options{SpecDir: obs.SpecDir, Module: "SecurityMC", Timeout: 20 * time.Minute, Scratch: r.Scratch, Workers: 8, Heap: "8g",
			Cfg: tlc.Cfg("CONSTANTS", fmt.Sprintf(" N = %d", n), " MaxAlts = 3", " Devs = "+devs, "INIT Init", "NEXT Next", "INVARIANTS Refines Arithmetic Bounds CallsOrdered RejectDeviation", "CHECK_DEADLOCK FALSE")})
	}
	res, err := run("{}", 3)
	if err != nil {
		return err
	}
	if res.Violated != "" {
		return fmt.Errorf("%w: SecurityMC violates %s\n%s", tlc.ErrInfra, res.Violated, tlc.Tail(res, 30))
	}
	r.AddStates(res.Distinct, res.Generated)
	r.Cov("mc_states", res.Distinct)
	if res, err = run(`{"Dev_SkippedRequirementKeepsIndexes"}`, 2); err != nil {
		return err
	} else if res.Violated == "" {
		return fmt.Errorf("%w: SecurityMC accepts Dev_SkippedRequirementKeepsIndexes: vacuous", tlc.ErrInfra)
	}

	// B1: structures enumerated by TLC
	lines, err := obs.Emit(r, "SecurityEmit", tlc.Cfg("CONSTANTS", " N = 3", " MaxAlts = 3", " Devs = {}", "INIT EInit", "NEXT ENext"), 10*time.Minute)
	if err != nil {
		return err
	}
	var structs []structure
	for _, l := range lines {
		var s structure
		if err := json.Unmarshal(l, &s); err != nil {
			return err
		}
		structs = append(structs, s)
	}
	r.Cov("enumerated_structures", len(structs))
	r.SetExhaustive(true)

	mod, err := gencode.NewModule(r.Scratch, "mod")
	if err != nil {
		return err
	}
	type pkgT struct {
		name string
		ops  []opSpec
		n    int
	}
	var pkgs []pkgT
	var narrow, wide, genOnly []structure
	for _, s := range structs {
		switch {
		case len(s.NotImpl) > 0:
			genOnly = append(genOnly, s)
		case s.Wide:
			wide = append(wide, s)
		default:
			narrow = append(narrow, s)
		}
	}
	for i := 0; i < len(narrow); i += 50 {
		j := min(i+50, len(narrow))
		p := pkgT{name: fmt.Sprintf("s%d", len(pkgs)), n: 3}
		for _, s := range narrow[i:j] {
			p.ops = append(p.ops, opSpec{st: s})
		}
		pkgs = append(pkgs, p)
	}
	{
		p := pkgT{name: "w0", n: 20}
		for _, s := range wide {
			p.ops = append(p.ops, opSpec{st: s})
		}
		pkgs = append(pkgs, p)
	}
	// global / override variants: global = the structure, operations: inherit, override with another, security: []
	globals := [][][]int{{{0}}, {{0, 1}, {2}}, {{}}, {{1}, {}}}
	var gpk []struct {
		pkgT
		global [][]int
	}
	for gi, g := range globals {
		p := pkgT{name: fmt.Sprintf("g%d", gi), n: 3}
		p.ops = append(p.ops, opSpec{st: structure{Reqs: g, N: 3}, override: "global"},
			opSpec{st: structure{Reqs: [][]int{}, N: 3}, override: "empty"},
			opSpec{st: structure{Reqs: [][]int{{2}}, N: 3}},
			opSpec{st: structure{Reqs: [][]int{{}}, N: 3}})
		gpk = append(gpk, struct {
			pkgT
			global [][]int
		}{p, g})
	}

	type reqT struct {
		Pkg  string   `json:"pkg"`
		Op   int      `json:"op"`
		Path string   `json:"path"`
		Cred []string `json:"cred"`
		Hdr  []string `json:"hdr"`
	}
	var reqs []reqT
	opOf := map[string][]opSpec{}
	nGen, nConvenient := 0, 0
	genOne := func(p pkgT, global [][]int) error {
		// every second package is generated with a common default error response
		nGen++
		convenient = nGen%2 == 0
		if convenient {
			nConvenient++
		}
		g, err := mod.Generate(p.name, specFor(p.ops, p.n, nil, global), gencode.ServerOnly())
		convenient = false
		if err != nil {
			return fmt.Errorf("generate %s: %w", p.name, err)
		}
		_ = g
		opOf[p.name] = p.ops
		gl, err := glue(mod, p.name)
		if err != nil {
			return err
		}
		return mod.WriteFile("drv/glue_"+p.name+".go", []byte(gl))
	}
	hdr := func(n int) []string {
		h := make([]string, n)
		for s := range h {
			h[s] = headerName(s)
		}
		return h
	}
	for _, p := range pkgs {
		if err := genOne(p, nil); err != nil {
			return err
		}
		for i, op := range p.ops {
			for _, cr := range op.st.Creds {
				c := make([]string, len(cr))
				for s, v := range cr {
					c[s] = credNames[v]
				}
				reqs = append(reqs, reqT{Pkg: p.name, Op: i, Path: fmt.Sprintf("/o%d", i), Cred: c, Hdr: hdr(len(cr))})
			}
		}
	}
	for _, p := range gpk {
		if err := genOne(p.pkgT, p.global); err != nil {
			return err
		}
		for i := range p.ops {
			for code := 0; code < 64; code++ {
				c := []string{credNames[code%4], credNames[(code/4)%4], credNames[(code/16)%4]}
				reqs = append(reqs, reqT{Pkg: p.name, Op: i, Path: fmt.Sprintf("/o%d", i), Cred: c, Hdr: hdr(3)})
			}
		}
		// effective requirements for the oracle come from the harness' own description
		ops := make([]opSpec, len(p.ops))
		copy(ops, p.ops)
		for i := range ops {
			switch ops[i].override {
			case "global":
				ops[i].st.Reqs = p.global
			case "empty":
				ops[i].st.Reqs = [][]int{}
			}
		}
		opOf[p.name] = ops
	}

	// generation-only structures (not-implemented scheme ignored): must compile
	genLines := [][]byte{}
	for i, s := range genOnly {
		name := fmt.Sprintf("n%d", i)
		ni := map[int]bool{}
		for _, x := range s.NotImpl {
			ni[x] = true
		}
		opts := gencode.ServerOnly()
		opts.Generator.IgnoreNotImplemented = []string{"all"}
		_, err := mod.Generate(name, specFor([]opSpec{{st: s}}, s.N, ni, nil), opts)
		outcome := "ok"
		if err != nil {
			outcome = "rejected"
			os.RemoveAll(filepath.Join(mod.Dir, name))
		} else if out, berr := mod.GoBuildPkgs(name); berr != nil {
			outcome = "nocompile"
			r.Cov("first_compile_error", firstLines(out, 3))
		}
		b, _ := json.Marshal(map[string]any{"k": "gen", "reqs": s.Reqs, "notImpl": s.NotImpl, "outcome": outcome, "n": s.N,
			"cred": []string{}, "calls": []int{}, "res": []string{}, "status": 0, "kind": "", "a": []int{}, "b": []int{}, "ga": []int{}, "gb": []int{}, "called": false, "scopes": []string{}})
		genLines = append(genLines, b)
		if outcome == "ok" {
			// the compiled package is also served: the kept alternatives are what must be enforced
			gl, err := glue(mod, name)
			if err != nil {
				return err
			}
			if err := mod.WriteFile("drv/glue_"+name+".go", []byte(gl)); err != nil {
				return err
			}
			opOf[name] = []opSpec{{st: s}}
			for _, cr := range s.Creds {
				c := make([]string, len(cr))
				for k, v := range cr {
					c[k] = credNames[v]
				}
				reqs = append(reqs, reqT{Pkg: name, Op: 0, Path: "/o0", Cred: c, Hdr: hdr(len(cr))})
			}
		}
	}
	r.Cov("generation_only_structures", len(genOnly))

	// client half
	if _, err := mod.Generate("cli", []byte(cliSpec), gencode.ClientServer()); err != nil {
		return fmt.Errorf("generate cli: %w", err)
	}
	if err := mod.WriteFile("drv/glue_cli.go", []byte(cliGlue)); err != nil {
		return err
	}
	rng := rand.New(rand.NewPCG(uint64(r.Seed), 0xC09))
	type cliCase struct {
		Kind string `json:"kind"`
		A    []int  `json:"a"`
		B    []int  `json:"b"`
	}
	var cli []cliCase
	nCli := 40
	if r.Thorough() {
		nCli = 1500
	}
	for _, kind := range []string{"hk", "qk", "ck", "ba", "be", "oa", "ob"} {
		for i := 0; i < nCli; i++ {
			a := randText(rng, credAlphabet[kind], 1+rng.IntN(12))
			b := ""
			if kind == "ba" {
				a = strings.ReplaceAll(a, ":", "")
				if a == "" {
					a = "u"
				}
				b = randText(rng, credAlphabet[kind]+":", rng.IntN(10))
			}
			if kind == "hk" || kind == "ba" {
				a = strings.TrimSpace(a)
				if a == "" {
					a = "v"
				}
			}
			cli = append(cli, cliCase{kind, bx.Ints(a), bx.Ints(b)})
		}
	}

	if err := mod.WriteFile("drv/main.go", []byte(driverMain)); err != nil {
		return err
	}
	bin, err := mod.Build("drv", "drv")
	if err != nil {
		return err
	}
	outFile := filepath.Join(r.Scratch, "drv-out.ndjson")
	job, _ := json.Marshal(map[string]any{"reqs": reqs, "cli": cli, "out": outFile})
	jobFile := filepath.Join(r.Scratch, "job.json")
	if err := os.WriteFile(jobFile, job, 0o644); err != nil {
		return err
	}
	if out, err := gencode.Run(bin, nil, jobFile); err != nil {
		return fmt.Errorf("driver: %v\n%s", err, out)
	}
	raw, err := os.ReadFile(outFile)
	if err != nil {
		return err
	}
	os.Remove(outFile)

	var obsLines [][]byte
	var desc []string
	for _, l := range obs.SplitLines(raw) {
		var probe struct {
			K string `json:"k"`
		}
		json.Unmarshal(l, &probe)
		if probe.K == "cred" {
			var c struct {
				Kind    string   `json:"kind"`
				A       []int    `json:"a"`
				B       []int    `json:"b"`
				Outcome string   `json:"outcome"`
				Called  bool     `json:"called"`
				GA      []int    `json:"ga"`
				GB      []int    `json:"gb"`
				Scopes  []string `json:"scopes"`
			}
			if err := json.Unmarshal(l, &c); err != nil {
				return err
			}
			b, _ := json.Marshal(map[string]any{"k": "cred", "reqs": [][]int{}, "notImpl": []int{}, "outcome": c.Outcome, "n": 0,
				"cred": []string{}, "calls": []int{}, "res": []string{}, "status": 0, "kind": c.Kind, "a": c.A, "b": c.B, "ga": c.GA, "gb": c.GB, "called": c.Called, "scopes": c.Scopes})
			obsLines = append(obsLines, b)
			desc = append(desc, fmt.Sprintf("client credential kind=%s sent=(%q,%q) -> server extracted=(%q,%q) called=%v scopes=%v", c.Kind, bx.Str(c.A), bx.Str(c.B), bx.Str(c.GA), bx.Str(c.GB), c.Called, c.Scopes))
			r.Nontrivial("cred|" + c.Kind + "|" + fmt.Sprint(c.Called))
			continue
		}
		var d reqLine
		if err := json.Unmarshal(l, &d); err != nil {
			return err
		}
		op := opOf[d.Pkg][d.Op]
		calls, ress := []int{}, []string{}
		for _, c := range d.Calls {
			calls = append(calls, c.S)
			ress = append(ress, c.Res)
		}
		ni := op.st.NotImpl
		if ni == nil {
			ni = []int{}
		}
		b, _ := json.Marshal(map[string]any{"k": "req", "reqs": op.st.Reqs, "notImpl": ni, "outcome": d.Outcome, "n": len(d.Cred),
			"cred": d.Cred, "calls": calls, "res": ress, "status": d.Status, "kind": op.override, "a": []int{}, "b": []int{}, "ga": []int{}, "gb": []int{}, "called": false, "scopes": []string{}})
		obsLines = append(obsLines, b)
		desc = append(desc, fmt.Sprintf("security %v (%s) credentials %v -> SecurityHandler calls %v, outcome %s, status %d", op.st.Reqs, orDefault(op.override, "operation-level"), d.Cred, d.Calls, d.Outcome, d.Status))
		presented := 0
		for _, c := range d.Cred {
			if c != "absent" {
				presented++
			}
		}
		if presented > 0 {
			r.Nontrivial(fmt.Sprintf("%s|%s|%s", shape(op.st.Reqs), strings.Join(d.Cred, ","), d.Outcome))
		}
		if len(obsLines)%3000 == 5 {
			r.Sample(desc[len(desc)-1])
		}
	}
	for i, g := range genLines {
		obsLines = append(obsLines, g)
		desc = append(desc, fmt.Sprintf("generation with ignore_not_implemented of structure %v notImpl=%v", genOnly[i].Reqs, genOnly[i].NotImpl))
	}
	r.AddEvals(int64(len(obsLines)))
	r.AddTraces(int64(len(reqs)))
	r.Cov("requests", len(reqs))
	r.Cov("packages_with_convenient_errors", fmt.Sprintf("%d of %d", nConvenient, nGen))
	r.Cov("client_credentials", len(cli))
	vs, err := obs.Check(r, obsLines, obs.CheckOpts{Module: "SecurityCheck", Cfg: obs.StdCfg("KnownDeviations = " + known), ChunkSize: 6000})
	if err != nil {
		return err
	}
	for _, v := range vs {
		switch {
		case v.Kind == "drift":
			r.Drift(desc[v.Index])
		case strings.HasPrefix(v.Kind, "known="):
			r.KnownHit(strings.TrimPrefix(v.Kind, "known="), desc[v.Index])
		default:
			var raw map[string]any
			json.Unmarshal(obsLines[v.Index], &raw)
			r.Violate(desc[v.Index]+": outside what spec/Security.tla admits ("+v.Kind+")", raw)
		}
	}
	return nil
}

func orDefault(s, d string) string {
	if s == "" {
		return d
	}
	return s
}

func shape(reqs [][]int) string {
	var p []string
	for _, a := range reqs {
		p = append(p, fmt.Sprint(len(a)))
	}
	return strings.Join(p, "+")
}

func firstLines(s string, n int) string {
	l := strings.Split(s, "\n")
	if len(l) > n {
		l = l[:n]
	}
	return strings.Join(l, " | ")
}

var _ = gen.Options{}

// Replay re-runs the whole quick check (cases are tiny and deterministic).
func Replay(r *core.Run, path string) error { return Check(r) }
