// Package c15 decides C15 (generated servers answer every request without crashing or
// over-accepting) — spec/ServerPipeline*.tla.
package c15

import (
	_ "embed"
	"encoding/json"
	"fmt"
	"math/rand/v2"
	"os"
	"path/filepath"
	"sort"
	"strings"
	"time"

	"github.com/ogen-go/ogen/openapi"

	"verif/internal/bx"
	"verif/internal/core"
	"verif/internal/gencode"
	"verif/internal/obs"
	"verif/internal/tlc"
)

//go:embed driver_main.go.txt
var driverMain string

// Req is one hand-built request (see the driver).
type Req struct {
	Cls      string              `json:"cls"`
	Sec      bool                `json:"sec"`
	Params   bool                `json:"params"`
	BodyKind string              `json:"body"`
	Method   string              `json:"method"`
	Path     string              `json:"path"`
	RawPath  string              `json:"rawpath"`
	RawQuery string              `json:"rawquery"`
	Header   map[string][]string `json:"header"`
	Payload  []int               `json:"payload"`
	NoLength bool                `json:"nolength"`
	Inject   bool                `json:"inject"`
	Note     string              `json:"-"`
}

func matrixSpec(convenient bool) string {
	def := ""
	errSchema := ""
	if convenient {
		def = "\n        default: {description: err, content: {application/json: {schema: {$ref: \"#/components/schemas/Error\"}}}}"
		errSchema = `
    Error:
      type: object
      required: [code, message]
      properties:
        code: {type: integer}
        message: {type: string}`
	}
	return `openapi: 3.0.3
info: {title: m, version: "1"}
components:
  securitySchemes:
    key: {type: apiKey, in: header, name: X-Key}
    key2: {type: apiKey, in: header, name: X-Key2}
  schemas:
    Item:
      type: object
      required: [name, count]
      additionalProperties: false
      properties:
        name: {type: string, minLength: 1, maxLength: 5}
        count: {type: integer, minimum: 0, maximum: 10}
        tags: {type: array, items: {type: string}, maxItems: 2, uniqueItems: true}
        kind: {type: string, enum: [a, b]}` + errSchema + `
paths:
  /items/{id}:
    get:
      operationId: getItem
      security: [{key: []}]
      parameters:
        - {name: id, in: path, required: true, schema: {type: integer, minimum: 1}}
        - {name: q, in: query, required: true, schema: {type: string, maxLength: 3}}
        - {name: X-H, in: header, required: false, schema: {type: integer}}
      responses:
        "200": {description: ok}` + def + `
    post:
      operationId: postItem
      parameters:
        - {name: id, in: path, required: true, schema: {type: integer, minimum: 1}}
      requestBody: {required: true, content: {application/json: {schema: {$ref: "#/components/schemas/Item"}}}}
      responses:
        "200": {description: ok}` + def + `
  /opt:
    post:
      operationId: postOpt
      requestBody: {required: false, content: {application/json: {schema: {$ref: "#/components/schemas/Item"}}}}
      responses:
        "200": {description: ok}` + def + `
  /form:
    post:
      operationId: postForm
      parameters:
        - {name: n, in: query, required: false, schema: {type: integer}}
        - {name: ck, in: cookie, required: false, schema: {type: integer}}
        - {name: when, in: query, required: false, content: {application/json: {schema: {type: object, properties: {a: {type: integer}}}}}}
        - {name: mp, in: query, required: false, style: form, explode: false, schema: {type: object, additionalProperties: {type: integer}}}
        - {name: X-Mp, in: header, required: false, schema: {type: object, additionalProperties: {type: integer}}}
      requestBody:
        required: true
        content:
          application/x-www-form-urlencoded:
            schema:
              type: object
              required: [user]
              properties:
                user: {type: string, minLength: 1, maxLength: 8}
                age: {type: integer, minimum: 0}
      responses:
        "200": {description: ok}` + def + `
  /upload:
    post:
      operationId: postUpload
      parameters:
        - {name: n, in: query, required: false, schema: {type: integer}}
      requestBody:
        required: true
        content:
          multipart/form-data:
            schema:
              type: object
              required: [owner]
              properties:
                owner: {type: string, minLength: 1, maxLength: 8}
                note: {type: string}
      responses:
        "200": {description: ok}` + def + `
  /avatar:
    put:
      operationId: putAvatar
      requestBody: {required: true, content: {"image/*": {schema: {type: string, format: binary}}}}
      responses:
        "200": {description: ok}` + def + `
  /both:
    get:
      operationId: getBoth
      security: [{key: [], key2: []}]
      responses:
        "200": {description: ok}` + def + `
  /either:
    get:
      operationId: getEither
      security: [{key: []}, {key2: []}]
      responses:
        "200": {description: ok}` + def + `
  /plain:
    get:
      operationId: getPlain
      responses:
        "200": {description: ok}` + def + `
`
}

func hdr(kv ...string) map[string][]string {
	h := map[string][]string{}
	for i := 0; i+1 < len(kv); i += 2 {
		h[kv[i]] = append(h[kv[i]], kv[i+1])
	}
	return h
}

const validItem = `{"name":"ab","count":3}`

// matrixRequests lists classified requests for the matrix spec (the class is the stage
// that must refuse the request, known from the spec the harness wrote itself).
func matrixRequests() []Req {
	var out []Req
	add := func(r Req) { out = append(out, r) }
	js := func(s string) []int { return bx.Ints(s) }
	// getItem: security + params
	g := func(cls, path, q string, h map[string][]string, note string) Req {
		return Req{Cls: cls, Sec: true, Params: true, BodyKind: "none", Method: "GET", Path: path, RawQuery: q, Header: h, Note: note}
	}
	add(g("valid", "/items/5", "q=ab", hdr("X-Key", "k", "X-H", "3"), "valid"))
	add(g("valid", "/items/5", "q=ab", hdr("X-Key", "k"), "valid without optional header"))
	add(g("valid", "/items/5", "q=", hdr("X-Key", "k"), "empty but present query value"))
	add(g("no_creds", "/items/5", "q=ab", hdr("X-H", "3"), "no credentials"))
	add(g("param", "/items/5", "", hdr("X-Key", "k"), "required query parameter dropped"))
	add(g("param", "/items/5", "q=abcd", hdr("X-Key", "k"), "query parameter longer than maxLength"))
	add(g("param", "/items/abc", "q=ab", hdr("X-Key", "k"), "malformed integer path parameter"))
	add(g("param", "/items/0", "q=ab", hdr("X-Key", "k"), "path parameter below minimum"))
	add(g("param", "/items/5", "q=ab", hdr("X-Key", "k", "X-H", "zz"), "malformed integer header"))
	add(g("param", "/items/", "q=ab", hdr("X-Key", "k"), "empty path parameter"))
	add(g("param", "/items/99999999999999999999", "q=ab", hdr("X-Key", "k"), "integer overflow"))
	add(g("unknown_path", "/nope", "q=ab", hdr("X-Key", "k"), "unknown path"))
	add(g("unknown_path", "/items/5/x", "q=ab", hdr("X-Key", "k"), "path with extra segment"))
	add(g("unknown_path", "/items", "q=ab", hdr("X-Key", "k"), "path prefix only"))
	r := g("wrong_method", "/items/5", "q=ab", hdr("X-Key", "k"), "undefined method")
	r.Method = "DELETE"
	add(r)
	r = g("handler_fail", "/items/5", "q=ab", hdr("X-Key", "k"), "handler failure")
	r.Inject = true
	add(r)
	// a requirement that names two schemes needs both; two alternatives need one
	sec2 := func(cls, path string, h map[string][]string, note string) Req {
		return Req{Cls: cls, Sec: true, BodyKind: "none", Method: "GET", Path: path, Header: h, Note: note}
	}
	add(sec2("valid", "/both", hdr("X-Key", "k", "X-Key2", "k2"), "both credentials of a two-scheme requirement"))
	add(sec2("no_creds", "/both", hdr("X-Key", "k"), "first credential of a two-scheme requirement only"))
	add(sec2("no_creds", "/both", hdr("X-Key2", "k2"), "second credential of a two-scheme requirement only"))
	add(sec2("no_creds", "/both", hdr(), "no credentials for a two-scheme requirement"))
	add(sec2("valid", "/either", hdr("X-Key2", "k2"), "second of two alternative requirements"))
	add(sec2("valid", "/either", hdr("X-Key", "k"), "first of two alternative requirements"))
	add(sec2("no_creds", "/either", hdr(), "no credentials for two alternative requirements"))
	// both security and a bad parameter: the earlier stage (security) answers
	add(g("no_creds", "/items/abc", "", hdr(), "no credentials and bad parameters"))
	// postItem: params + required body
	p := func(cls, ct, body, note string) Req {
		h := hdr()
		if ct != "" {
			h = hdr("Content-Type", ct)
		}
		return Req{Cls: cls, Params: true, BodyKind: "required", Method: "POST", Path: "/items/5", Header: h, Payload: js(body), Note: note}
	}
	add(p("valid", "application/json", validItem, "valid body"))
	add(p("valid", "application/json", `{"name":"ab","count":3,"tags":["x","y"],"kind":"b"}`, "valid body with optional members"))
	add(p("valid", "application/json", " \n{ \"count\" : 0 , \"name\" : \"abcde\" }\n", "valid body, reordered, blanks, boundary values"))
	add(p("wrong_ct", "text/plain", validItem, "wrong content type"))
	add(p("wrong_ct", "application/xml", validItem, "wrong content type"))
	add(p("body", "", validItem, "missing content type with a required body"))
	add(p("body", "application/json", "", "empty required body"))
	add(p("body", "application/json", `{"name":"ab","count":`, "truncated JSON"))
	add(p("body", "application/json", `{"name":"ab"`, "truncated JSON"))
	add(p("body", "application/json", validItem+" x", "trailing data"))
	add(p("body", "application/json", validItem+validItem, "two values"))
	add(p("body", "application/json", `{"name":"ab","count":"3"}`, "wrong member type"))
	add(p("body", "application/json", `{"name":7,"count":3}`, "wrong member type"))
	add(p("body", "application/json", `{"name":"ab"}`, "missing required member"))
	add(p("body", "application/json", `{"count":3}`, "missing required member"))
	add(p("body", "application/json", `{}`, "missing required members"))
	add(p("body", "application/json", `{"name":"abcdef","count":3}`, "maxLength violated"))
	add(p("body", "application/json", `{"name":"","count":3}`, "minLength violated"))
	add(p("body", "application/json", `{"name":"ab","count":11}`, "maximum violated"))
	add(p("body", "application/json", `{"name":"ab","count":-1}`, "minimum violated"))
	add(p("body", "application/json", `{"name":"ab","count":3,"tags":["a","b","c"]}`, "maxItems violated"))
	add(p("body", "application/json", `{"name":"ab","count":3,"tags":["a","a"]}`, "uniqueItems violated"))
	add(p("body", "application/json", `{"name":"ab","count":3,"kind":"c"}`, "enum violated"))
	add(p("body", "application/json", `{"name":"ab","count":3,"extra":1}`, "additional property with additionalProperties: false"))
	add(p("body", "application/json", `null`, "null body"))
	add(p("body", "application/json", `[1]`, "array instead of object"))
	add(p("body", "application/json", `{"name":"ab","count":3.5}`, "fraction for integer"))
	add(p("body", "application/json", `{"name":"ab","count":null}`, "null for non-nullable"))
	add(p("body", "application/json", "{\"name\":\"a\xffb\",\"count\":3", "invalid UTF-8 and truncated"))
	// unclassified: the statement demands no particular answer
	add(p("unclassified", "application/json; charset=utf-8", validItem, "content type with parameter"))
	add(p("unclassified", "APPLICATION/JSON", validItem, "upper-case content type"))
	add(p("unclassified", "application/json", `{"name":"ab","name":"cd","count":1}`, "duplicate member"))
	add(p("unclassified", "application/json", `{"name":"ab","count":3,"count":4}`, "duplicate member"))
	add(p("unclassified", "application/json", `{"name":"ab","count":1e0}`, "exponent spelling of an integer"))
	add(p("unclassified", "application/json", `{"name":"`+strings.Repeat("a", 70000)+`","count":1}`, "oversized member"))
	add(p("unclassified", "application/json;", validItem, "malformed media type parameter"))
	r = p("param", "application/json", validItem, "bad path parameter with valid body")
	r.Path = "/items/x"
	add(r)
	r = p("unclassified", "application/json", validItem, "unknown content length")
	r.NoLength = true
	add(r)
	r = p("handler_fail", "application/json", validItem, "handler failure")
	r.Inject = true
	add(r)
	// postOpt: optional body
	o := func(cls, ct, body, note string) Req {
		q := p(cls, ct, body, note)
		q.Params, q.BodyKind, q.Path = false, "optional", "/opt"
		return q
	}
	add(o("valid", "application/json", validItem, "optional body present"))
	add(o("valid", "", "", "optional body absent"))
	add(o("wrong_ct", "text/plain", validItem, "wrong content type, optional body"))
	add(o("body", "application/json", `{"name":"ab"`, "truncated optional body"))
	add(o("body", "application/json", `{"name":"ab","count":77}`, "maximum violated, optional body"))
	add(o("unclassified", "application/json", "", "content type but empty optional body"))
	add(o("body", "", validItem, "optional body present without a content type"))
	add(o("body", "", `{"name":"ab"`, "truncated optional body without a content type"))
	add(o("body", "", "garbage", "garbage optional body without a content type"))
	add(o("unclassified", "text/plain", "", "wrong content type with an empty optional body"))
	// a scalar given twice is not a value of the parameter: refused at parameter decoding
	add(g("param", "/items/5", "q=ab&q=cd", hdr("X-Key", "k"), "required scalar query parameter given twice"))
	add(g("param", "/items/5", "q=ab&q=ab", hdr("X-Key", "k"), "required scalar query parameter given twice, same text"))
	// postForm: urlencoded body, optional query and cookie parameters
	f := func(cls, q, body, note string) Req {
		return Req{Cls: cls, Params: true, BodyKind: "required", Method: "POST", Path: "/form", RawQuery: q, Header: hdr("Content-Type", "application/x-www-form-urlencoded"), Payload: js(body), Note: note}
	}
	// postUpload: multipart body; what the URL query carries is no part of the body
	mp := func(cls, q, note string, fields ...string) Req {
		var b strings.Builder
		for i := 0; i+1 < len(fields); i += 2 {
			b.WriteString("--XbX\r\nContent-Disposition: form-data; name=\"" + fields[i] + "\"\r\n\r\n" + fields[i+1] + "\r\n")
		}
		b.WriteString("--XbX--\r\n")
		return Req{Cls: cls, Params: true, BodyKind: "required", Method: "POST", Path: "/upload", RawQuery: q, Header: hdr("Content-Type", "multipart/form-data; boundary=XbX"), Payload: js(b.String()), Note: note}
	}
	add(mp("valid", "", "valid multipart form", "owner", "alice", "note", "hi"))
	add(mp("valid", "n=4", "valid multipart form with an optional query parameter", "owner", "bob"))
	add(mp("valid", "note=fromquery", "valid multipart form; the query carries a pair named like an optional field", "owner", "bob"))
	add(mp("body", "", "multipart form without its required field", "note", "hi"))
	add(mp("body", "owner=mallory", "multipart form without its required field, the URL query carries a pair of that name", "note", "hi"))
	add(mp("body", "owner=mallory", "empty multipart form, the URL query carries the required field's name"))
	add(mp("body", "", "multipart field longer than maxLength", "owner", "abcdefghij"))
	add(f("valid", "", "user=alice&age=3", "valid form"))
	add(f("valid", "n=4", "user=a+b%21", "valid form with escapes and an optional query parameter"))
	add(f("body", "", "age=3", "form without its required field"))
	add(f("body", "", "user=alice&age=x", "form with an ill-typed field"))
	add(f("body", "", "user=&age=3", "form field shorter than minLength"))
	add(f("body", "", "user=alice&user=root", "scalar form field given twice"))
	add(f("body", "", "user=al%zzice", "form with a malformed escape in a required field"))
	add(f("param", "n=4&n=5", "user=alice", "optional scalar query parameter given twice"))
	add(f("param", "n=x", "user=alice", "ill-typed optional query parameter"))
	add(f("valid", "mp=a,1,b,2", "user=alice", "map-typed query parameter"))
	add(f("param", "mp=a,x", "user=alice", "map-typed query parameter with an ill-typed value"))
	add(f("unclassified", "mp=a", "user=alice", "map-typed query parameter with a name and no value"))
	add(f("unclassified", "mp=,", "user=alice", "map-typed query parameter made of separators"))
	r = f("valid", "", "user=alice", "map-typed header parameter")
	r.Header["X-Mp"] = []string{"a,1"}
	add(r)
	r = f("param", "", "user=alice", "map-typed header parameter with an ill-typed value")
	r.Header["X-Mp"] = []string{"a,b"}
	add(r)
	add(f("malformed_optional_pair", "n=%zz", "user=alice", "optional query parameter with a malformed escape"))
	add(f("malformed_optional_pair", "n=1;x=2", "user=alice", "optional query parameter in a pair containing ';'"))
	add(f("valid", "when=%7B%22a%22%3A1%7D", "user=alice", "JSON content parameter"))
	add(f("param", "when=%7B%22a%22%3A", "user=alice", "truncated JSON content parameter"))
	add(f("content_param_trailing", "when=%7B%22a%22%3A1%7Dgarbage", "user=alice", "JSON content parameter followed by garbage"))
	r = f("valid", "", "user=alice&age=3", "valid form of unknown length (chunked)")
	r.NoLength = true
	add(r)
	r = f("body", "", "age=3", "invalid form of unknown length (chunked)")
	r.NoLength = true
	add(r)
	r = f("param", "", "user=alice", "ill-typed cookie parameter")
	r.Header["Cookie"] = []string{"ck=zz"}
	add(r)
	r = f("valid", "", "user=alice", "valid cookie parameter")
	r.Header["Cookie"] = []string{"ck=7"}
	add(r)
	r = p("valid", "application/json", validItem, "valid JSON body of unknown length (chunked)")
	r.NoLength = true
	add(r)
	// putAvatar: a body declared with a media type mask
	av := func(cls, ct, note string) Req {
		return Req{Cls: cls, BodyKind: "required", Method: "PUT", Path: "/avatar", Header: hdr("Content-Type", ct), Payload: js("\x89PNG"), Note: note}
	}
	add(av("valid", "image/png", "type under the mask"))
	add(av("valid", "image/svg+xml", "type under the mask"))
	add(av("wrong_ct", "text/plain", "type outside the mask"))
	add(av("wrong_ct", "imagex/png", "type token that only starts with the mask's type"))
	add(av("wrong_ct", "images/png; charset=utf-8", "type token that only starts with the mask's type"))
	add(av("wrong_ct", "imagepng", "mask's type without the slash"))
	add(av("wrong_ct", "video/image", "mask's type as the subtype"))
	add(av("unclassified", "image", "bare type without a subtype"))
	add(av("unclassified", "image/", "empty subtype"))
	// getPlain
	add(Req{Cls: "valid", BodyKind: "none", Method: "GET", Path: "/plain", Header: hdr(), Note: "no stages"})
	add(Req{Cls: "wrong_method", BodyKind: "none", Method: "POST", Path: "/plain", Header: hdr(), Note: "undefined method"})
	add(Req{Cls: "wrong_method", BodyKind: "none", Method: "get", Path: "/plain", Header: hdr(), Note: "lower-case method"})
	add(Req{Cls: "unknown_path", BodyKind: "none", Method: "GET", Path: "/plain/", Header: hdr(), Note: "trailing slash"})
	add(Req{Cls: "unknown_path", BodyKind: "none", Method: "GET", Path: "", Header: hdr(), Note: "empty path"})
	add(Req{Cls: "unclassified", BodyKind: "none", Method: "GET", Path: "/plain", RawPath: "/pl%zzain", Header: hdr(), Note: "invalid RawPath"})
	add(Req{Cls: "unclassified", BodyKind: "none", Method: "GET", Path: "/plain", RawPath: "/%70lain", Header: hdr(), Note: "needless escape"})
	// malformed escapes after an escape that forces the rewriting path of the normaliser
	for _, rp := range []string{"/plain%41%4", "/pl%61in%", "/%70lain%zz", "/pla%69n%a", "/plain%2f%F", "/%50%", "/plain%7e%7", "/plain%2F%4"} {
		add(Req{Cls: "unclassified", BodyKind: "none", Method: "GET", Path: "/plain", RawPath: rp, Header: hdr(), Note: "malformed escape after a rewritable one"})
	}
	add(Req{Cls: "unclassified", Sec: true, Params: true, BodyKind: "none", Method: "GET", Path: "/items/5", RawPath: "/items/%35%2", RawQuery: "q=ab", Header: hdr("X-Key", "k"), Note: "malformed escape in a parameter"})
	return out
}

var junkBytes = []string{"/", "%", "%2", "%zz", "%2F", "%2f", "%41", "%6f", "%a", "{", "}", "?", "#", "..", "\x00", "\xff", " ", "items", "opt", "plain", "5", "-1", "a", "é", "\"", "\\", "&", "=", ";", ","}
var junkMethods = []string{"GET", "POST", "PUT", "DELETE", "PATCH", "HEAD", "OPTIONS", "TRACE", "", "get", "G\x00T"}
var junkCT = []string{"", "application/json", "text/plain", "application/x-www-form-urlencoded", "multipart/form-data; boundary=x", "multipart/form-data", "application/octet-stream", ";;", "application/json; charset", "*/*", "a/b/c"}

func junk(rng *rand.Rand, n int) string {
	var b strings.Builder
	for i := 0; i < n; i++ {
		b.WriteString(junkBytes[rng.IntN(len(junkBytes))])
	}
	return b.String()
}

// mutate applies one seeded byte-level mutation to a request (class becomes unclassified).
func mutate(rng *rand.Rand, r Req) Req {
	m := r
	m.Cls = "unclassified"
	m.Sec, m.Params, m.BodyKind = true, true, "optional" // permissive shape: only order/generic obligations
	m.Header = map[string][]string{}
	for k, v := range r.Header {
		m.Header[k] = append([]string{}, v...)
	}
	mutBytes := func(s string) string {
		b := []byte(s)
		switch rng.IntN(5) {
		case 0:
			if len(b) > 0 {
				b = b[:rng.IntN(len(b))]
			}
		case 1:
			if len(b) > 0 {
				b[rng.IntN(len(b))] = byte(rng.IntN(256))
			}
		case 2:
			i := rng.IntN(len(b) + 1)
			b = append(b[:i], append([]byte(junk(rng, 1)), b[i:]...)...)
		case 3:
			if len(b) > 1 {
				i := rng.IntN(len(b) - 1)
				b = append(b[:i], b[i+1:]...)
			}
		default:
			b = append(b, b...)
		}
		return string(b)
	}
	switch rng.IntN(7) {
	case 0:
		m.Path = mutBytes(r.Path)
	case 1:
		m.RawPath = mutBytes(r.Path)
	case 2:
		m.RawQuery = mutBytes(r.RawQuery)
	case 3:
		m.Payload = bx.Ints(mutBytes(bx.Str(r.Payload)))
	case 4:
		m.Method = junkMethods[rng.IntN(len(junkMethods))]
	case 5:
		m.Header["Content-Type"] = []string{junkCT[rng.IntN(len(junkCT))]}
	default:
		keys := []string{"X-Key", "X-H", "Content-Type", "Cookie", "Authorization", "Content-Length", "Transfer-Encoding"}
		k := keys[rng.IntN(len(keys))]
		switch rng.IntN(3) {
		case 0:
			delete(m.Header, k)
		case 1:
			m.Header[k] = []string{junk(rng, 1+rng.IntN(3))}
		default:
			m.Header[k] = append(m.Header[k], m.Header[k]...)
		}
	}
	return m
}

func randomReq(rng *rand.Rand, paths []string) Req {
	r := Req{Cls: "unclassified", Sec: true, Params: true, BodyKind: "optional", Header: map[string][]string{}}
	r.Method = junkMethods[rng.IntN(len(junkMethods))]
	if rng.IntN(2) == 0 && len(paths) > 0 {
		r.Path = paths[rng.IntN(len(paths))]
	} else {
		r.Path = "/" + junk(rng, rng.IntN(5))
	}
	if rng.IntN(3) == 0 {
		r.RawPath = junk(rng, 1+rng.IntN(4))
	}
	if rng.IntN(2) == 0 {
		r.RawQuery = junk(rng, rng.IntN(4))
	}
	if rng.IntN(2) == 0 {
		r.Header["Content-Type"] = []string{junkCT[rng.IntN(len(junkCT))]}
	}
	if rng.IntN(2) == 0 {
		r.Payload = bx.Ints(junk(rng, rng.IntN(8)))
	}
	return r
}

// glueFor synthesises the per-package registration from the generated sources' surface.
func glueFor(s *gencode.Surface) (string, error) {
	if !s.HasServer || !s.HasUnimplemented {
		return "", fmt.Errorf("package %s has no server or no UnimplementedHandler", s.Pkg)
	}
	var b strings.Builder
	fmt.Fprintf(&b, "package main\n\nimport (\n\t\"context\"\n\t\"net/http\"\n\n\t\"github.com/ogen-go/ogen/middleware\"\n\t\"github.com/ogen-go/ogen/ogenerrors\"\n\n\tapi \"vmod/%s\"\n)\n\nvar _ context.Context\n\n", s.Pkg)
	fmt.Fprintf(&b, "type h_%s struct{ api.UnimplementedHandler }\n\n", s.Pkg)
	if s.NewErrorType != "" {
		typ := strings.TrimPrefix(s.NewErrorType, "*")
		fmt.Fprintf(&b, "func (h_%s) NewError(ctx context.Context, err error) %s {\n\tr := &%s{}\n\tr.StatusCode = onError(err)\n\treturn r\n}\n\n", s.Pkg, s.NewErrorType, typ)
	}
	if s.HasSecurity {
		fmt.Fprintf(&b, "type sec_%s struct{}\n\n", s.Pkg)
		for _, m := range s.SecMethods {
			fmt.Fprintf(&b, "func (sec_%s) %s {\n\treturn a0, nil\n}\n\n", s.Pkg, m)
		}
	}
	fmt.Fprintf(&b, "func init() {\n\tregister(%q, func(mw middleware.Middleware, eh ogenerrors.ErrorHandler) (http.Handler, error) {\n", s.Pkg)
	if s.HasSecurity {
		fmt.Fprintf(&b, "\t\treturn api.NewServer(h_%[1]s{}, sec_%[1]s{}, api.WithMiddleware(mw), api.WithErrorHandler(eh))\n", s.Pkg)
	} else {
		fmt.Fprintf(&b, "\t\treturn api.NewServer(h_%s{}, api.WithMiddleware(mw), api.WithErrorHandler(eh))\n", s.Pkg)
	}
	b.WriteString("\t})\n}\n")
	return b.String(), nil
}

type job struct {
	Pkg  string `json:"pkg"`
	Reqs []Req  `json:"reqs"`
}

// Check is the C15 entry point.
func Check(r *core.Run) error {
	r.SetRule("spec/ServerPipeline.tla orders the stages of handlers.tmpl; TLC checks that every event sequence the stage machine can produce is accepted by the trace acceptor and satisfies the generic obligations " +
		"(exactly one response, a failing stage returns, handler only after every earlier stage passed, status class per failing stage). Conformance: servers are regenerated for two matrix specs (with and without convenient errors) " +
		"and for corpus specs; hand-built *http.Request values (bypassing net/http URL validation) of known classes (unknown path, wrong method, no credentials, dropped/malformed/out-of-bounds parameters, wrong/missing content type, " +
		"empty/truncated/trailing/ill-typed/bound-violating bodies, injected handler failure), seeded byte-level mutants of them and random requests are served; middleware, ErrorHandler, NewError, a counting ResponseWriter and recover() " +
		"emit events; TLC validates the concatenated trace, judging every request. Non-trivial = not a plain 404; distinct = (package, class, observed error kinds, status, handler flag).")
	nMut, nRand := 40, 1500
	if r.Thorough() {
		nMut, nRand = 600, 40000
	}
	res, err := tlc.Run(nil, tlc.Options{SpecDir: obs.SpecDir, Module: "ServerPipelineMC", Timeout: 5 * time.Minute, Scratch: r.Scratch, Workers: 4,
		Cfg: tlc.Cfg("INIT Init", "NEXT Next", "INVARIANTS GenericHolds HandlerLast OneResponse", "CHECK_DEADLOCK FALSE")})
	if err != nil {
		return err
	}
	if res.Violated != "" {
		return fmt.Errorf("%w: ServerPipelineMC violates %s\n%s", tlc.ErrInfra, res.Violated, tlc.Tail(res, 30))
	}
	r.AddStates(res.Distinct, res.Generated)
	r.Cov("mc_states", res.Distinct)

	mod, err := gencode.NewModule(r.Scratch, "mod")
	if err != nil {
		return err
	}
	rng := rand.New(rand.NewPCG(uint64(r.Seed), 0xC15))
	var jobs []job
	addPkg := func(name string, spec []byte) (*gencode.Generated, error) {
		opts := gencode.ServerOnly()
		opts.Generator.IgnoreNotImplemented = []string{"all"}
		g, err := mod.Generate(name, spec, opts)
		if err != nil {
			return nil, err
		}
		s, err := gencode.InspectDir(filepath.Join(mod.Dir, name), name)
		if err != nil {
			return nil, err
		}
		gl, err := glueFor(s)
		if err != nil {
			return nil, err
		}
		return g, mod.WriteFile("drv/glue_"+name+".go", []byte(gl))
	}
	for i, conv := range []bool{false, true} {
		name := fmt.Sprintf("m%d", i)
		if _, err := addPkg(name, []byte(matrixSpec(conv))); err != nil {
			return fmt.Errorf("matrix spec %s: %w", name, err)
		}
		base := matrixRequests()
		reqs := append([]Req{}, base...)
		for k := 0; k < nMut; k++ {
			for _, b := range base {
				if b.Cls == "valid" || k%4 == 0 {
					reqs = append(reqs, mutate(rng, b))
				}
			}
		}
		for k := 0; k < nRand; k++ {
			reqs = append(reqs, randomReq(rng, []string{"/items/5", "/opt", "/plain", "/items/"}))
		}
		jobs = append(jobs, job{Pkg: name, Reqs: reqs})
	}
	// corpus specs
	corpus := corpusFiles(r.Thorough())
	nCorpus := 0
	for i, f := range corpus {
		data, err := os.ReadFile(f)
		if err != nil || len(data) == 0 {
			continue
		}
		name := fmt.Sprintf("c%d", i)
		g, err := addPkg(name, data)
		if err != nil {
			os.RemoveAll(filepath.Join(mod.Dir, name))
			os.Remove(filepath.Join(mod.Dir, "drv", "glue_"+name+".go"))
			r.CovAdd("corpus_specs_not_generated", 1)
			continue
		}
		if out, err := mod.GoBuildPkgs(name); err != nil {
			return fmt.Errorf("corpus package %s (%s) does not build:\n%s", name, f, out)
		}
		nCorpus++
		base := corpusRequests(g, rng)
		reqs := append([]Req{}, base...)
		var paths []string
		for _, b := range base {
			paths = append(paths, b.Path)
		}
		for k := 0; k < nMut/4+3; k++ {
			for _, b := range base {
				reqs = append(reqs, mutate(rng, b))
			}
		}
		for k := 0; k < nRand/10; k++ {
			reqs = append(reqs, randomReq(rng, paths))
		}
		jobs = append(jobs, job{Pkg: name, Reqs: reqs})
	}
	r.Cov("corpus_specs_served", nCorpus)
	if err := mod.WriteFile("drv/main.go", []byte(driverMain)); err != nil {
		return err
	}
	bin, err := mod.Build("drv", "drv")
	if err != nil {
		return err
	}
	outFile := filepath.Join(r.Scratch, "drv-out.ndjson")
	jb, _ := json.Marshal(map[string]any{"jobs": jobs, "out": outFile})
	jobFile := filepath.Join(r.Scratch, "job.json")
	if err := os.WriteFile(jobFile, jb, 0o644); err != nil {
		return err
	}
	if out, err := gencode.Run(bin, nil, jobFile); err != nil {
		return fmt.Errorf("driver: %v\n%s", err, tailStr(out, 2000))
	}
	raw, err := os.ReadFile(outFile)
	if err != nil {
		return err
	}
	os.Remove(outFile)
	lines := obs.SplitLines(raw)

	// index: line -> (job, request) for messages; chunk at request boundaries
	type ref struct{ job, req int }
	refs := make([]ref, len(lines))
	var cur ref
	jobIdx := map[string]int{}
	for i, j := range jobs {
		jobIdx[j.Pkg] = i
	}
	var starts []int
	nReq := 0
	type sum struct {
		errs   []string
		ran    bool
		status int
	}
	var cs sum
	for i, l := range lines {
		var e struct {
			K      string `json:"k"`
			Pkg    string `json:"pkg"`
			I      int    `json:"i"`
			Kind   string `json:"kind"`
			Status int    `json:"status"`
		}
		if err := json.Unmarshal(l, &e); err != nil {
			return err
		}
		switch e.K {
		case "req":
			cur = ref{jobIdx[e.Pkg], e.I}
			starts = append(starts, i)
			nReq++
			cs = sum{}
		case "err":
			cs.errs = append(cs.errs, e.Kind)
		case "handler":
			cs.ran = true
		case "done":
			rq := jobs[cur.job].Reqs[cur.req]
			if e.Status != 404 {
				r.Nontrivial(fmt.Sprintf("%s|%s|%v|%d|%v", jobs[cur.job].Pkg, rq.Cls, cs.errs, e.Status, cs.ran))
			}
			if nReq%4000 == 3 {
				r.Sample(map[string]any{"package": jobs[cur.job].Pkg, "class": rq.Cls, "request": describe(rq), "errors": cs.errs, "handler": cs.ran, "status": e.Status})
			}
		}
		refs[i] = cur
	}
	r.AddEvals(int64(nReq))
	r.AddTraces(int64(nReq))
	r.Cov("requests", nReq)
	r.Cov("events", len(lines))
	// chunks aligned to request starts
	const target = 30000
	var chunks [][2]int
	lo := 0
	for _, s := range starts {
		if s-lo >= target {
			chunks = append(chunks, [2]int{lo, s})
			lo = s
		}
	}
	chunks = append(chunks, [2]int{lo, len(lines)})
	type result struct {
		vs  []obs.Verdict
		off int
		err error
	}
	resCh := make(chan result, len(chunks))
	sem := make(chan struct{}, 8)
	for _, c := range chunks {
		go func(c [2]int) {
			sem <- struct{}{}
			defer func() { <-sem }()
			vs, err := obs.Check(r, lines[c[0]:c[1]], obs.CheckOpts{Module: "ServerPipelineCheck", Cfg: obs.StdCfg("KnownDeviations = " + r.KnownSet()), ChunkSize: c[1] - c[0] + 1, Parallel: 1})
			resCh <- result{vs, c[0], err}
		}(c)
	}
	// binding self-test: three corrupted traces must each be rejected
	self := [][]string{
		{`{"k":"req","pkg":"self","i":0,"cls":"param","sec":true,"params":true,"body":"none","opt":false}`, `{"k":"handler"}`, `{"k":"err","kind":"params"}`, `{"k":"done","wh":1,"status":400,"bytes":1,"panic":false}`},
		{`{"k":"req","pkg":"self","i":0,"cls":"no_creds","sec":true,"params":true,"body":"none","opt":false}`, `{"k":"err","kind":"sec"}`, `{"k":"done","wh":1,"status":200,"bytes":1,"panic":false}`},
		{`{"k":"req","pkg":"self","i":0,"cls":"valid","sec":false,"params":false,"body":"none","opt":false}`, `{"k":"handler"}`, `{"k":"err","kind":"notimpl"}`, `{"k":"done","wh":2,"status":501,"bytes":1,"panic":false}`},
	}
	for i, tr := range self {
		var ls [][]byte
		for _, l := range tr {
			ls = append(ls, []byte(l))
		}
		vs, err := obs.Check(r, ls, obs.CheckOpts{Module: "ServerPipelineCheck", Cfg: obs.StdCfg("KnownDeviations = {}"), Parallel: 1})
		if err != nil {
			return err
		}
		if len(vs) == 0 {
			return fmt.Errorf("%w: binding self-test %d: corrupted trace accepted", tlc.ErrInfra, i)
		}
	}
	r.Cov("binding_selftest", "3 corrupted traces rejected (handler before params error; wrong status for a security failure; two WriteHeader calls)")
	seen := map[ref]bool{}
	for range chunks {
		rr := <-resCh
		if rr.err != nil {
			return rr.err
		}
		for _, v := range rr.vs {
			rf := refs[rr.off+v.Index]
			if seen[rf] {
				continue
			}
			seen[rf] = true
			rq := jobs[rf.job].Reqs[rf.req]
			if strings.HasPrefix(v.Kind, "known=") {
				r.KnownHit(strings.TrimPrefix(v.Kind, "known="), fmt.Sprintf("package %s, %s request (%s) %s", jobs[rf.job].Pkg, rq.Cls, rq.Note, describe(rq)))
				continue
			}
			r.Violate(fmt.Sprintf("package %s, %s request (%s) %s: trace rejected by spec/ServerPipeline.tla: %s", jobs[rf.job].Pkg, rq.Cls, rq.Note, describe(rq), v.Kind),
				map[string]any{"pkg": jobs[rf.job].Pkg, "request": rq, "verdict": v.Kind})
		}
	}
	return nil
}

func describe(rq Req) string {
	p := bx.Str(rq.Payload)
	if len(p) > 120 {
		p = p[:120] + "..."
	}
	return fmt.Sprintf("%q %q rawpath=%q query=%q headers=%v body=%q", rq.Method, rq.Path, rq.RawPath, rq.RawQuery, rq.Header, p)
}

func tailStr(s string, n int) string {
	if len(s) > n {
		return s[len(s)-n:]
	}
	return s
}

func corpusFiles(thorough bool) []string {
	var out []string
	pos, _ := filepath.Glob(filepath.Join(core.RepoDir, "_testdata/positive/*"))
	sort.Strings(pos)
	for _, f := range pos {
		if st, err := os.Stat(f); err == nil && !st.IsDir() {
			out = append(out, f)
		}
	}
	ex := []string{"petstore.yml", "petstore-expanded.yml", "firecracker.json", "manga.json", "tinkoff.json", "techempower.json"}
	if thorough {
		ex = append(ex, "2ch.yml", "ent.json", "pokemon-api.json", "swagger-petstore.yml", "petstore-oauth2.yml", "oauth2-scopes-and-or.yml", "superset.json", "gotd_bot_api.json")
	} else {
		if len(out) > 14 {
			out = out[:14]
		}
		ex = ex[:3]
	}
	for _, e := range ex {
		out = append(out, filepath.Join(core.RepoDir, "_testdata/examples", e))
	}
	return out
}

// corpusRequests builds plausible requests for every operation of a regenerated corpus
// package. The parsed API is used only to *produce inputs*; every request is
// unclassified, so no expectation is derived from it.
func corpusRequests(g *gencode.Generated, rng *rand.Rand) []Req {
	var out []Req
	for _, op := range g.Ops {
		if op.Spec == nil {
			continue
		}
		var path strings.Builder
		for _, part := range op.Spec.Path {
			if part.IsParam() {
				path.WriteString(sampleParam(part.Param))
			} else {
				path.WriteString(part.Raw)
			}
		}
		rq := Req{Cls: "unclassified", Sec: true, Params: true, BodyKind: "optional", Method: strings.ToUpper(op.Spec.HTTPMethod), Path: path.String(), Header: map[string][]string{}}
		var q []string
		for _, p := range op.Spec.Parameters {
			switch p.In {
			case openapi.LocationQuery:
				if p.Required || rng.IntN(2) == 0 {
					q = append(q, p.Name+"="+sampleParam(p))
				}
			case openapi.LocationHeader:
				if p.Required || rng.IntN(2) == 0 {
					rq.Header[httpCanon(p.Name)] = []string{sampleParam(p)}
				}
			case openapi.LocationCookie:
				rq.Header["Cookie"] = append(rq.Header["Cookie"], p.Name+"="+sampleParam(p))
			}
		}
		rq.RawQuery = strings.Join(q, "&")
		rq.Header["Authorization"] = []string{"Bearer t"}
		if rb := op.Spec.RequestBody; rb != nil {
			cts := make([]string, 0, len(rb.Content))
			for ct := range rb.Content {
				cts = append(cts, ct)
			}
			sort.Strings(cts)
			if len(cts) > 0 {
				ct := cts[rng.IntN(len(cts))]
				rq.Header["Content-Type"] = []string{ct}
				rq.Payload = bx.Ints(sampleBody(ct, rb.Content[ct]))
			}
		}
		out = append(out, rq)
	}
	return out
}

// Replay re-runs the check (requests are regenerated deterministically from the seed).
func Replay(r *core.Run, path string) error { return Check(r) }
