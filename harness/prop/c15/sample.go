package c15

import (
	"encoding/json"
	"fmt"
	"net/http"
	"net/url"
	"strings"

	"github.com/ogen-go/ogen/jsonschema"
	"github.com/ogen-go/ogen/openapi"
)

func httpCanon(s string) string { return http.CanonicalHeaderKey(s) }

// sampleValue produces one plausible instance of a schema (input generation only).
func sampleValue(s *jsonschema.Schema, depth int) any {
	if s == nil || depth > 6 {
		return "a"
	}
	if len(s.Enum) > 0 {
		return s.Enum[0]
	}
	if len(s.OneOf) > 0 {
		return sampleValue(s.OneOf[0], depth+1)
	}
	if len(s.AnyOf) > 0 {
		return sampleValue(s.AnyOf[0], depth+1)
	}
	if len(s.AllOf) > 0 && s.Type == jsonschema.Empty {
		m := map[string]any{}
		for _, a := range s.AllOf {
			if v, ok := sampleValue(a, depth+1).(map[string]any); ok {
				for k, x := range v {
					m[k] = x
				}
			}
		}
		return m
	}
	switch s.Type {
	case jsonschema.String:
		switch s.Format {
		case "uuid":
			return "123e4567-e89b-12d3-a456-426614174000"
		case "date-time":
			return "2020-01-02T03:04:05Z"
		case "date":
			return "2020-01-02"
		case "time":
			return "03:04:05"
		case "duration":
			return "1h"
		case "ipv4", "ip":
			return "1.2.3.4"
		case "ipv6":
			return "::1"
		case "uri":
			return "http://x/y"
		case "email":
			return "a@b.c"
		case "byte", "base64":
			return "YQ=="
		case "int32", "int64", "int", "int8", "int16", "uint", "uint8", "uint16", "uint32", "uint64":
			return "1"
		case "float32", "float64":
			return "1.5"
		case "unix", "unix-seconds", "unix-nano", "unix-micro", "unix-milli":
			return "1"
		case "binary":
			return "a"
		}
		n := 1
		if s.MinLength != nil && *s.MinLength > 1 {
			n = int(*s.MinLength)
		}
		if n > 64 {
			n = 64
		}
		return strings.Repeat("a", n)
	case jsonschema.Integer:
		if len(s.Minimum) > 0 {
			var v json.Number
			if json.Unmarshal(s.Minimum, &v) == nil {
				if i, err := v.Int64(); err == nil {
					if s.ExclusiveMinimum {
						i++
					}
					return i
				}
			}
		}
		return 1
	case jsonschema.Number:
		return 1.5
	case jsonschema.Boolean:
		return true
	case jsonschema.Null:
		return nil
	case jsonschema.Array:
		n := 1
		if s.MinItems != nil && *s.MinItems > 1 && *s.MinItems < 8 {
			n = int(*s.MinItems)
		}
		out := []any{}
		for i := 0; i < n; i++ {
			out = append(out, sampleValue(s.Item, depth+1))
		}
		return out
	case jsonschema.Object:
		m := map[string]any{}
		for _, p := range s.Properties {
			if p.Required {
				m[p.Name] = sampleValue(p.Schema, depth+1)
			}
		}
		return m
	}
	return "a"
}

func sampleParam(p *openapi.Parameter) string {
	if p == nil {
		return "a"
	}
	v := sampleValue(p.Schema, 0)
	switch x := v.(type) {
	case string:
		return url.PathEscape(x)
	case []any:
		var parts []string
		for _, e := range x {
			parts = append(parts, fmt.Sprint(e))
		}
		return strings.Join(parts, ",")
	case map[string]any:
		var parts []string
		for k, e := range x {
			parts = append(parts, k, fmt.Sprint(e))
		}
		return strings.Join(parts, ",")
	case nil:
		return ""
	}
	return fmt.Sprint(v)
}

func sampleBody(ct string, m *openapi.MediaType) string {
	var schema *jsonschema.Schema
	if m != nil {
		schema = m.Schema
	}
	v := sampleValue(schema, 0)
	switch {
	case strings.Contains(ct, "json"):
		b, err := json.Marshal(v)
		if err != nil {
			return "{}"
		}
		return string(b)
	case strings.Contains(ct, "x-www-form-urlencoded"):
		vals := url.Values{}
		if mm, ok := v.(map[string]any); ok {
			for k, e := range mm {
				vals.Set(k, fmt.Sprint(e))
			}
		}
		return vals.Encode()
	case strings.Contains(ct, "multipart"):
		return "--x\r\nContent-Disposition: form-data; name=\"a\"\r\n\r\nb\r\n--x--\r\n"
	}
	return fmt.Sprint(v)
}
