// Package c02 decides C02 (everything the generator writes compiles) — spec/GenPipeline*.tla.
// The Go type checker (go build / go vet) is the observation instrument for "compiles".
package c02

import (
	"bytes"
	"encoding/json"
	"errors"
	"fmt"
	"os"
	"os/exec"
	"path/filepath"
	"regexp"
	"sort"
	"strings"
	"sync"
	"time"

	"github.com/ogen-go/ogen/gen"

	"verif/internal/bx"
	"verif/internal/core"
	"verif/internal/gencode"
	"verif/internal/obs"
	"verif/internal/tlc"
)

type shape struct {
	name  string
	spec  string
	flags map[string]bool
	// ignoreNI: generated with `ignore_not_implemented: [all]` (operations that need something
	// ogen does not implement are skipped; what is written must still compile)
	ignoreNI bool
}

func fl(on ...string) map[string]bool {
	m := map[string]bool{"params": false, "uriobj": false, "json": false, "interfaces": false, "validators": false, "servers": false, "defaults": false, "securities": false, "ops": false, "webhooks": false}
	for _, k := range on {
		m[k] = true
	}
	return m
}

var shapes = []shape{
	{"recursive_types", `openapi: 3.0.3
info: {title: t, version: "1"}
paths:
  /branch:
    post:
      operationId: postBranch
      requestBody: {required: true, content: {application/json: {schema: {$ref: "#/components/schemas/Branch"}}}}
      responses:
        "200": {description: ok, content: {application/json: {schema: {$ref: "#/components/schemas/Branch"}}}}
  /others:
    get:
      operationId: getOthers
      responses:
        "200": {description: ok, content: {application/json: {schema: {$ref: "#/components/schemas/Holder"}}}}
components:
  schemas:
    # a cycle through a sum held by value, entered at the struct (not at the sum)
    Branch: {type: object, required: [label], properties: {label: {type: string}, child: {$ref: "#/components/schemas/Tree"}}}
    Leaf: {type: object, required: [value], properties: {value: {type: integer}}}
    Tree:
      oneOf:
        - {$ref: "#/components/schemas/Leaf"}
        - {$ref: "#/components/schemas/Branch"}
    Holder:
      type: object
      properties:
        viaArray: {$ref: "#/components/schemas/ListNode"}
        viaMap: {$ref: "#/components/schemas/MapNode"}
        viaNullable: {$ref: "#/components/schemas/NullNode"}
        viaAllOf: {$ref: "#/components/schemas/AllNode"}
        viaAnyOf: {$ref: "#/components/schemas/AnyNode"}
        mutual: {$ref: "#/components/schemas/Ping"}
    ListNode: {type: object, properties: {items: {type: array, items: {$ref: "#/components/schemas/ListNode"}}}}
    MapNode: {type: object, properties: {name: {type: string}}, additionalProperties: {$ref: "#/components/schemas/MapNode"}}
    NullNode: {type: object, required: [next], properties: {id: {type: integer}, next: {nullable: true, allOf: [{$ref: "#/components/schemas/NullNode"}]}}}
    AllNode: {allOf: [{type: object, properties: {a: {type: string}}}, {type: object, properties: {more: {$ref: "#/components/schemas/AllNode"}}}]}
    AnyNode: {type: object, required: [k], properties: {k: {type: string}, alt: {$ref: "#/components/schemas/AnyAlt"}}}
    AnyAlt:
      anyOf:
        - {type: string}
        - {$ref: "#/components/schemas/AnyNode"}
    Ping: {type: object, properties: {pong: {$ref: "#/components/schemas/Pong"}}}
    Pong: {type: object, required: [n], properties: {n: {type: integer}, ping: {$ref: "#/components/schemas/Ping"}}}
`, fl("ops", "json"), false},
	{"skipped_operations", `openapi: 3.0.3
info: {title: t, version: "1"}
components:
  securitySchemes:
    key: {type: apiKey, in: header, name: X-Key}
    be: {type: http, scheme: bearer}
  schemas:
    Only: {type: object, properties: {a: {type: string}, m: {type: object, additionalProperties: {type: integer}}}}
    Shared: {type: object, required: [id], properties: {id: {type: integer, minimum: 1}, o: {$ref: "#/components/schemas/Only"}}}
  responses:
    Err: {description: e, headers: {X-E: {schema: {type: string}}}, content: {application/json: {schema: {$ref: "#/components/schemas/Shared"}}}}
  parameters:
    P: {name: p, in: query, schema: {type: string, enum: [x, z]}}
paths:
  /a:
    post:
      operationId: aXmlBody
      security: [{key: []}]
      parameters: [{$ref: "#/components/parameters/P"}]
      requestBody: {required: true, content: {application/xml: {schema: {$ref: "#/components/schemas/Only"}}}}
      responses: {"200": {description: ok, content: {application/json: {schema: {$ref: "#/components/schemas/Only"}}}}, "400": {$ref: "#/components/responses/Err"}}
  /b:
    get:
      operationId: bOk
      security: [{key: []}, {be: []}]
      parameters: [{$ref: "#/components/parameters/P"}]
      responses: {"200": {description: ok, content: {application/json: {schema: {$ref: "#/components/schemas/Shared"}}}}, "400": {$ref: "#/components/responses/Err"}}
  /c:
    get:
      operationId: cXmlResponse
      security: [{be: []}]
      responses: {"200": {description: ok, content: {application/xml: {schema: {type: string}}}}, "400": {$ref: "#/components/responses/Err"}}
  /d:
    get:
      operationId: dOk
      security: [{be: []}]
      responses: {"200": {description: ok}, "400": {$ref: "#/components/responses/Err"}}
  /e:
    post:
      operationId: eXmlBodyLast
      security: [{key: [], be: []}]
      requestBody: {required: true, content: {application/xml: {schema: {$ref: "#/components/schemas/Shared"}}}}
      responses: {"204": {description: none}}
`, fl("ops", "params", "json", "securities", "validators", "interfaces"), true},
	{"maps_of_collections", `openapi: 3.0.3
info: {title: t, version: "1"}
paths:
  /a:
    post:
      operationId: postA
      requestBody: {required: true, content: {application/json: {schema: {$ref: "#/components/schemas/M"}}}}
      responses:
        "200": {description: ok, content: {application/json: {schema: {$ref: "#/components/schemas/M"}}}}
components:
  schemas:
    M:
      type: object
      properties:
        tags: {type: object, additionalProperties: {type: array, items: {type: string}}}
        grid: {type: object, additionalProperties: {type: array, items: {type: array, items: {type: integer}}}}
        nest: {type: object, additionalProperties: {type: object, additionalProperties: {type: array, items: {type: number}}}}
        pat: {type: object, patternProperties: {"^x-": {type: array, items: {type: string}}}}
        both: {type: object, properties: {k: {type: string}}, additionalProperties: {type: array, items: {type: boolean}}}
        nul: {type: object, additionalProperties: {type: array, nullable: true, items: {type: string, nullable: true}}}
        objs: {type: array, items: {type: object, additionalProperties: {type: array, minItems: 1, items: {type: string, minLength: 1}}}}
        sums: {type: object, additionalProperties: {oneOf: [{type: string}, {type: array, items: {type: integer}}]}}
`, fl("ops", "json", "validators"), false},
	{"minimal", `openapi: 3.0.3
info: {title: t, version: "1"}
paths:
  /a: {get: {operationId: getA, responses: {"200": {description: ok}}}}
`, fl("ops"), false},
	{"params", `openapi: 3.0.3
info: {title: t, version: "1"}
servers:
  - {url: "https://{region}.example.com/{base}", variables: {region: {default: eu, enum: [eu, us]}, base: {default: v1}}}
  - {url: "http://localhost"}
paths:
  /p/{id}/{m}:
    get:
      operationId: getP
      parameters:
        - {name: id, in: path, required: true, schema: {type: integer, minimum: 1}}
        - {name: m, in: path, required: true, style: matrix, explode: true, schema: {type: array, items: {type: string}}}
        - {name: q, in: query, schema: {type: string, default: dflt, maxLength: 9}}
        - {name: deep, in: query, style: deepObject, explode: true, schema: {type: object, properties: {a: {type: string}, b: {type: integer}}}}
        - {name: pipe, in: query, style: pipeDelimited, explode: false, schema: {type: array, items: {type: integer}}}
        - {name: X-H, in: header, schema: {type: array, items: {type: number}}}
        - {name: ck, in: cookie, schema: {type: string, format: uuid}}
        - {name: when, in: query, schema: {type: string, format: date-time}}
        - {name: en, in: query, schema: {type: string, enum: [a, b, "c d"]}}
      responses:
        "200": {description: ok}
`, fl("ops", "params", "uriobj", "validators"), false},
	{"bodies", `openapi: 3.0.3
info: {title: s, version: "1"}
paths:
  /b:
    post:
      operationId: postB
      requestBody:
        required: true
        content:
          application/json: {schema: {$ref: "#/components/schemas/U"}}
          text/plain: {schema: {type: string}}
          application/octet-stream: {schema: {type: string, format: binary}}
          application/x-www-form-urlencoded: {schema: {type: object, properties: {f: {type: string}, e: {type: integer}}}}
          multipart/form-data: {schema: {type: object, required: [file], properties: {file: {type: string, format: binary}, note: {type: string}}}}
      responses:
        "200": {description: ok, headers: {X-Z: {schema: {type: string}}, X-Y: {required: true, schema: {type: integer}}}, content: {application/json: {schema: {$ref: "#/components/schemas/U"}}}}
        "201": {description: ok, content: {application/json: {schema: {$ref: "#/components/schemas/V"}}, text/plain: {schema: {type: string}}}}
        "204": {description: none}
        4XX: {description: e, content: {application/json: {schema: {type: string}}}}
        default: {description: e, content: {application/json: {schema: {$ref: "#/components/schemas/E"}}}}
  /c:
    get:
      operationId: getC
      responses:
        "200": {description: ok, content: {application/json: {schema: {$ref: "#/components/schemas/W"}}}}
        default: {description: e, content: {application/json: {schema: {$ref: "#/components/schemas/E"}}}}
components:
  schemas:
    E: {type: object, required: [m], properties: {m: {type: string}}}
    U:
      oneOf:
        - {$ref: "#/components/schemas/V"}
        - {$ref: "#/components/schemas/W"}
    X:
      oneOf:
        - {type: string}
        - {type: array, items: {type: integer}}
        - {type: boolean}
    V: {type: object, required: [v], properties: {v: {type: string, pattern: "^a+$"}, zz: {type: number, multipleOf: 0.5}, aa: {type: string, enum: [q, p, r]}, d: {type: string, default: x}, n: {type: integer, nullable: true}}}
    W: {type: object, required: [w], properties: {w: {type: integer}, m: {type: object, additionalProperties: {type: string}}, n: {$ref: "#/components/schemas/W"}, x: {$ref: "#/components/schemas/X"}, any: {}, arr: {type: array, minItems: 1, uniqueItems: true, items: {type: string}}}}
`, fl("ops", "json", "interfaces", "validators", "defaults"), false},
	{"security", `openapi: 3.0.3
info: {title: t, version: "1"}
security: [{key: []}]
components:
  securitySchemes:
    key: {type: apiKey, in: header, name: X-Key}
    qk: {type: apiKey, in: query, name: k}
    ck: {type: apiKey, in: cookie, name: sid}
    ba: {type: http, scheme: basic}
    be: {type: http, scheme: bearer}
    oa: {type: oauth2, flows: {clientCredentials: {tokenUrl: "https://x/t", scopes: {read: r, write: w}}}}
paths:
  /a: {get: {operationId: getA, responses: {"200": {description: ok}}}}
  /b: {get: {operationId: getB, security: [{qk: [], ck: []}, {ba: []}], responses: {"200": {description: ok}}}}
  /c: {get: {operationId: getC, security: [{be: []}, {oa: [read, write]}, {}], responses: {"200": {description: ok}}}}
  /d: {get: {operationId: getD, security: [], responses: {"200": {description: ok}}}}
`, fl("ops", "securities"), false},
	{"webhooks", `openapi: 3.1.0
info: {title: t, version: "1"}
paths:
  /a: {get: {operationId: getA, responses: {"200": {description: ok}}}}
webhooks:
  ev:
    post:
      operationId: onEv
      parameters: [{name: X-Sig, in: header, required: true, schema: {type: string}}]
      requestBody: {required: true, content: {application/json: {schema: {type: object, required: [id], properties: {id: {type: string}, n: {type: integer, maximum: 5}}}}}}
      responses: {"200": {description: ok}, "4XX": {description: e, content: {application/json: {schema: {type: string}}}}}
`, fl("ops", "webhooks", "params", "json", "validators", "interfaces"), false},
	{"convenient_security", `openapi: 3.0.3
info: {title: t, version: "1"}
security: [{key: []}]
components:
  securitySchemes: {key: {type: apiKey, in: header, name: X-Key}}
  schemas:
    Error: {type: object, required: [code, message], properties: {code: {type: integer}, message: {type: string}}}
paths:
  /a:
    get:
      operationId: getA
      parameters: [{name: q, in: query, schema: {type: string}}]
      responses:
        "200": {description: ok, content: {application/json: {schema: {type: string}}}}
        default: {description: e, content: {application/json: {schema: {$ref: "#/components/schemas/Error"}}}}
  /b:
    post:
      operationId: postB
      requestBody: {required: true, content: {application/json: {schema: {type: object, properties: {x: {type: integer}}}}}}
      responses:
        "204": {description: none}
        default: {description: e, content: {application/json: {schema: {$ref: "#/components/schemas/Error"}}}}
`, fl("ops", "params", "json", "securities"), false},
	{"shared_responses", `openapi: 3.0.3
info: {title: t, version: "1"}
paths:
  /pet:
    delete:
      operationId: deletePet
      responses:
        "204": {description: done}
        "401": {$ref: "#/components/responses/Denied"}
        "403": {$ref: "#/components/responses/Denied"}
        "404": {$ref: "#/components/responses/Problem"}
        "409": {$ref: "#/components/responses/Problem"}
    get:
      operationId: getPet
      responses:
        "200": {description: ok, content: {application/json: {schema: {type: string}}}}
        "201": {description: ok, content: {application/json: {schema: {type: string}}}}
        "401": {$ref: "#/components/responses/Denied"}
components:
  responses:
    Denied: {description: denied}
    Problem: {description: problem, content: {application/json: {schema: {type: object, properties: {title: {type: string}}}}}}
`, fl("ops", "json", "interfaces"), false},
	{"webhook_security", `openapi: 3.1.0
info: {title: t, version: "1"}
components:
  securitySchemes: {be: {type: http, scheme: bearer}}
paths:
  /a: {get: {operationId: getA, responses: {"200": {description: ok}}}}
webhooks:
  ev:
    post:
      operationId: onEv
      security: [{be: []}]
      requestBody: {required: true, content: {application/json: {schema: {type: object, properties: {id: {type: string}}}}}}
      responses: {"200": {description: ok}}
`, fl("ops", "webhooks", "json", "securities"), false},
	{"pattern_responses_same_schema", `openapi: 3.0.3
info: {title: t, version: "1"}
paths:
  /a:
    get:
      operationId: getA
      responses:
        "200": {description: ok}
        4XX: {description: e, content: {application/json: {schema: {$ref: "#/components/schemas/Error"}}}}
        5XX: {description: e, content: {application/json: {schema: {$ref: "#/components/schemas/Error"}}}}
components:
  schemas:
    Error: {type: object, required: [message], properties: {message: {type: string}}}
`, fl("ops", "json", "interfaces"), false},
	{"recursive_optional_nullable", `openapi: 3.0.3
info: {title: t, version: "1"}
paths:
  /a:
    get:
      operationId: getA
      responses:
        "200": {description: ok, content: {application/json: {schema: {$ref: "#/components/schemas/Node"}}}}
components:
  schemas:
    Node:
      type: object
      required: [id]
      properties:
        id: {type: integer}
        next: {nullable: true, allOf: [{$ref: "#/components/schemas/Node"}]}
`, fl("ops", "json"), false},
	{"default_not_representable", `openapi: 3.0.3
info: {title: t, version: "1"}
paths:
  /a:
    get:
      operationId: getA
      parameters:
        - {name: q, in: query, schema: {type: number, format: int64, default: 1.5}}
      responses:
        "200": {description: ok, content: {application/json: {schema: {$ref: "#/components/schemas/O"}}}}
components:
  schemas:
    O:
      type: object
      properties:
        n: {type: integer, format: int32, default: 3000000000}
`, fl("ops", "params", "json", "defaults"), false},
	{"form_empty_object", `openapi: 3.0.3
info: {title: t, version: "1"}
paths:
  /a:
    post:
      operationId: postA
      requestBody: {required: true, content: {application/x-www-form-urlencoded: {schema: {type: object}}}}
      responses: {"200": {description: ok}}
`, fl("ops"), false},
	{"enum_constant_vs_schema", `openapi: 3.0.3
info: {title: t, version: "1"}
paths:
  /a:
    get:
      operationId: getA
      responses:
        "200": {description: ok, content: {application/json: {schema: {$ref: "#/components/schemas/Obj"}}}}
components:
  schemas:
    Color: {type: string, enum: [red, green]}
    ColorRed: {type: object, properties: {x: {type: integer}}}
    Obj: {type: object, properties: {c: {$ref: "#/components/schemas/Color"}, r: {$ref: "#/components/schemas/ColorRed"}}}
`, fl("ops", "json", "validators"), false},
	{"getter_vs_property", `openapi: 3.0.3
info: {title: t, version: "1"}
paths:
  /a:
    get:
      operationId: getA
      responses:
        "200": {description: ok, content: {application/json: {schema: {$ref: "#/components/schemas/Obj"}}}}
components:
  schemas:
    Obj: {type: object, properties: {foo: {type: string}, get_foo: {type: string}}}
`, fl("ops", "json"), false},
	{"validate_property", `openapi: 3.0.3
info: {title: t, version: "1"}
paths:
  /a:
    get:
      operationId: getA
      responses:
        "200": {description: ok, content: {application/json: {schema: {$ref: "#/components/schemas/Obj"}}}}
components:
  schemas:
    Obj: {type: object, properties: {validate: {type: string, minLength: 3}}}
`, fl("ops", "json", "validators"), false},
	{"webhooks_only", `openapi: 3.1.0
info: {title: t, version: "1"}
webhooks:
  ev:
    post:
      operationId: onEv
      requestBody: {required: true, content: {application/json: {schema: {type: object, properties: {id: {type: string}}}}}}
      responses: {"200": {description: ok}}
`, fl("webhooks", "json"), false},
}

// ---- hostile names ----------------------------------------------------------------

var keywords = []string{"type", "func", "package", "error", "string", "nil", "true", "int", "map", "chan", "select", "default", "range", "interface", "go", "_", "init", "main", "len", "any", "Context", "Decode", "Encode", "Validate", "String", "Error", "OperationName", "Server", "Client", "Handler", "Route", "Opt", "err", "ctx", "r", "w", "s", "e", "d"}

var scopes = []string{"schema", "property", "query", "header", "enum", "operationId", "security", "respheader", "pathparam", "deepfield"}

func jsonStr(s string) string { b, _ := json.Marshal(s); return string(b) }

// nameSpec places the given names in one scope of an otherwise plain document (JSON).
func nameSpec(scope string, names []string) []byte {
	type M = map[string]any
	ok := M{"200": M{"description": "ok"}}
	doc := M{"openapi": "3.0.3", "info": M{"title": "t", "version": "1"}}
	paths := M{}
	switch scope {
	case "schema":
		schemas := M{}
		props := M{}
		for i, n := range names {
			schemas[n] = M{"type": "object", "properties": M{"x": M{"type": "integer"}}}
			props[fmt.Sprintf("p%d", i)] = M{"$ref": "#/components/schemas/" + strings.NewReplacer("~", "~0", "/", "~1").Replace(n)}
		}
		doc["components"] = M{"schemas": schemas}
		paths["/a"] = M{"get": M{"operationId": "getA", "responses": M{"200": M{"description": "ok", "content": M{"application/json": M{"schema": M{"type": "object", "properties": props}}}}}}}
	case "property":
		props := M{}
		for _, n := range names {
			props[n] = M{"type": "string"}
		}
		paths["/a"] = M{"post": M{"operationId": "postA", "requestBody": M{"content": M{"application/json": M{"schema": M{"type": "object", "properties": props, "required": names[:len(names)/2]}}}}, "responses": ok}}
	case "query", "header":
		var ps []any
		for _, n := range names {
			ps = append(ps, M{"name": n, "in": scope, "schema": M{"type": "string"}})
		}
		paths["/a"] = M{"get": M{"operationId": "getA", "parameters": ps, "responses": ok}}
	case "enum":
		var vals []any
		for _, n := range names {
			vals = append(vals, n)
		}
		paths["/a"] = M{"get": M{"operationId": "getA", "parameters": []any{M{"name": "e", "in": "query", "schema": M{"type": "string", "enum": vals}}}, "responses": ok}}
	case "operationId":
		for i, n := range names {
			paths[fmt.Sprintf("/o%d", i)] = M{"get": M{"operationId": n, "responses": ok}}
		}
	case "security":
		sch := M{}
		var reqs []any
		for _, n := range names {
			sch[n] = M{"type": "apiKey", "in": "header", "name": "X-K"}
			reqs = append(reqs, M{n: []any{}})
		}
		doc["components"] = M{"securitySchemes": sch}
		paths["/a"] = M{"get": M{"operationId": "getA", "security": reqs, "responses": ok}}
	case "respheader":
		hs := M{}
		for _, n := range names {
			hs[n] = M{"schema": M{"type": "string"}}
		}
		paths["/a"] = M{"get": M{"operationId": "getA", "responses": M{"200": M{"description": "ok", "headers": hs}}}}
	case "pathparam":
		for i, n := range names {
			if strings.ContainsAny(n, "{}/?#") {
				continue
			}
			paths[fmt.Sprintf("/o%d/{%s}", i, n)] = M{"get": M{"operationId": fmt.Sprintf("get%d", i), "parameters": []any{M{"name": n, "in": "path", "required": true, "schema": M{"type": "string"}}}, "responses": ok}}
		}
	case "deepfield":
		props := M{}
		for _, n := range names {
			props[n] = M{"type": "string"}
		}
		paths["/a"] = M{"get": M{"operationId": "getA", "parameters": []any{M{"name": "deep", "in": "query", "style": "deepObject", "explode": true, "schema": M{"type": "object", "properties": props}}}, "responses": ok}}
	}
	doc["paths"] = paths
	b, _ := json.Marshal(doc)
	return b
}

func classify(err error) string {
	if err == nil {
		return "ok"
	}
	var ge *gencode.GenError
	if errors.As(err, &ge) && ge.Stage == "panic" {
		return "panic"
	}
	var gf *gen.ErrGoFormat
	if errors.As(err, &gf) {
		return "goformat"
	}
	var ni *gen.ErrNotImplemented
	if errors.As(err, &ni) {
		return "notimpl"
	}
	if strings.Contains(err.Error(), "not implemented") || strings.Contains(err.Error(), "unsupported content types") {
		return "notimpl"
	}
	return "diag"
}

type genCase struct {
	pkg   string
	what  string
	set   []string
	shape *shape
	spec  []byte
	gen   string
	err   string
	build string
	berr  string
	files []string
	names []string
	scope string
}

var reHdr = regexp.MustCompile(`^# vmod/(\w+)`)

// buildAll compiles every generated package and type-checks test files where present.
func buildAll(mod *gencode.Module, withTests map[string]bool) (map[string]string, error) {
	failed := map[string]string{}
	run := func(args ...string) error {
		cmd := exec.Command("go", args...)
		cmd.Dir = mod.Dir
		cmd.Env = append(os.Environ(), "GOFLAGS=-mod=mod", "GOPROXY=off", "GOSUMDB=off", "GOTOOLCHAIN=local")
		var buf bytes.Buffer
		cmd.Stdout, cmd.Stderr = &buf, &buf
		err := cmd.Run()
		cur := ""
		for _, line := range strings.Split(buf.String(), "\n") {
			if m := reHdr.FindStringSubmatch(line); m != nil {
				cur = m[1]
				continue
			}
			if cur != "" && strings.TrimSpace(line) != "" && len(failed[cur]) < 600 {
				failed[cur] += line + " | "
			}
		}
		if err != nil && len(failed) == 0 {
			return fmt.Errorf("go %v: %v\n%s", args[:2], err, buf.String())
		}
		return nil
	}
	if err := run("build", "-gcflags=-e", "./..."); err != nil {
		return nil, err
	}
	var tests []string
	for p := range withTests {
		if _, bad := failed[p]; !bad {
			tests = append(tests, "./"+p)
		}
	}
	sort.Strings(tests)
	if len(tests) > 0 {
		if err := run(append([]string{"vet"}, tests...)...); err != nil {
			return nil, err
		}
	}
	return failed, nil
}

// Check is the C02 entry point.
func Check(r *core.Run) error {
	r.SetRule("spec/GenPipeline.tla fixes the admissible end states of a generation (ok+builds, or a spec-level / not-implemented diagnostic; never ErrGoFormat, a panic or a package that does not compile), FeatureOptions.Build and the template enable table. " +
		"TLC enumerates (a) 512 feature configurations over three feature names and one unknown name (Build semantics, judged on the real FeatureOptions.Build), (b) feature sets (none, all, default, every singleton, every all-but-one; thorough: every pair) crossed with six IR shapes " +
		"(minimal, every parameter location/style, bodies of every media type with sum types/patterns/defaults, six security scheme kinds, webhooks, webhooks only), (c) hostile names of length <= MaxName over {a A 1 _ - . space \" \\\\ e-acute + / $ { * : `} plus Go keywords, " +
		"predeclared and generated identifiers, placed in ten naming scopes in batches (collisions after normalisation included). Every package is regenerated from /repo and compiled with go build -gcflags=-e (go vet where example tests are generated); TLC judges every generation. " +
		"Non-trivial = every generation; distinct = (shape or scope, feature set or batch class, gen outcome, build outcome).")
	maxName, batch, pairs := 2, 8, "FALSE"
	if r.Thorough() {
		maxName, batch, pairs = 2, 3, "TRUE"
	}
	emit := func(mode string) ([][]byte, error) {
		return obs.Emit(r, "GenPipelineEmit", tlc.Cfg("CONSTANTS", ` Mode = "`+mode+`"`, " Pairs = "+pairs, fmt.Sprintf(" MaxName = %d", maxName), "INIT Init", "NEXT Next"), 10*time.Minute)
	}
	var lines [][]byte
	var desc []string
	// (a) Build semantics
	cl, err := emit("cfgs")
	if err != nil {
		return err
	}
	for _, l := range cl {
		var c struct {
			DisableAll bool     `json:"disableAll"`
			Disable    []string `json:"disable"`
			Enable     []string `json:"enable"`
		}
		if err := json.Unmarshal(l, &c); err != nil {
			return err
		}
		fo := &gen.FeatureOptions{DisableAll: c.DisableAll, Disable: gen.FeatureSet{}, Enable: gen.FeatureSet{}}
		for _, n := range c.Disable {
			fo.Disable[n] = struct{}{}
		}
		for _, n := range c.Enable {
			fo.Enable[n] = struct{}{}
		}
		set, berr := fo.Build()
		names := []string{}
		for n := range set {
			names = append(names, n)
		}
		sort.Strings(names)
		b, _ := json.Marshal(map[string]any{"k": "build", "disableAll": c.DisableAll, "disable": c.Disable, "enable": c.Enable, "set": names, "err": berr != nil})
		lines = append(lines, b)
		desc = append(desc, fmt.Sprintf("FeatureOptions{DisableAll:%v Disable:%v Enable:%v}.Build() = %v, err=%v", c.DisableAll, c.Disable, c.Enable, names, berr))
	}
	r.Cov("feature_configurations", len(cl))
	// (b) feature sets x shapes, (c) names
	sl, err := emit("sets")
	if err != nil {
		return err
	}
	var sets [][]string
	for _, l := range sl {
		var v struct {
			Set []string `json:"set"`
		}
		if err := json.Unmarshal(l, &v); err != nil {
			return err
		}
		sort.Strings(v.Set)
		sets = append(sets, v.Set)
	}
	nl, err := emit("names")
	if err != nil {
		return err
	}
	var names []string
	for _, l := range nl {
		var v struct {
			Name []int `json:"name"`
		}
		if err := json.Unmarshal(l, &v); err != nil {
			return err
		}
		var rs []rune
		for _, c := range v.Name {
			rs = append(rs, rune(c))
		}
		names = append(names, string(rs))
	}
	names = append(names, keywords...)
	sort.Strings(names)
	r.Cov("feature_sets", len(sets))
	r.Cov("hostile_names", len(names))
	r.SetExhaustive(true)
	mod, err := gencode.NewModule(r.Scratch, "mod")
	if err != nil {
		return err
	}
	var cases []*genCase
	for si := range shapes {
		for fi, set := range sets {
			cases = append(cases, &genCase{pkg: fmt.Sprintf("f%d_%d", si, fi), what: fmt.Sprintf("shape %s, features %v", shapes[si].name, set), set: set, shape: &shapes[si], spec: []byte(shapes[si].spec)})
		}
	}
	defaultSet := []string{"ogen/otel", "ogen/unimplemented", "paths/client", "paths/server", "webhooks/client", "webhooks/server"}
	for _, sc := range scopes {
		for i := 0; i < len(names); i += batch {
			j := min(i+batch, len(names))
			set := defaultSet
			if (i/batch)%3 == 1 {
				set = append(append([]string{}, defaultSet...), "debug/example_tests", "client/request/validation", "server/response/validation")
				sort.Strings(set)
			}
			cases = append(cases, &genCase{pkg: fmt.Sprintf("n_%s_%d", sc, i/batch), what: fmt.Sprintf("names %q in scope %s", names[i:j], sc), set: set, spec: nameSpec(sc, names[i:j]), names: names[i:j], scope: sc})
		}
	}
	// names whose Go identifiers coincide, side by side in every scope (both tiers)
	for _, sc := range scopes {
		pair := []string{"a+", "a-"}
		cases = append(cases, &genCase{pkg: fmt.Sprintf("n_%s_sib", sc), what: fmt.Sprintf("names %q in scope %s", pair, sc), set: defaultSet, spec: nameSpec(sc, pair), names: pair, scope: sc})
	}
	var wg sync.WaitGroup
	sem := make(chan struct{}, 12)
	var generate func(c *genCase)
	generate = func(c *genCase) {
		func(c *genCase) {
			defer wg.Done()
			sem <- struct{}{}
			defer func() { <-sem }()
			opts := gen.Options{}
			fs := gen.FeatureSet{}
			for _, n := range c.set {
				fs[n] = struct{}{}
			}
			opts.Generator.Features = &gen.FeatureOptions{DisableAll: true, Enable: fs}
			if c.shape != nil && c.shape.ignoreNI {
				opts.Generator.IgnoreNotImplemented = []string{"all"}
			}
			g, err := mod.Generate(c.pkg, c.spec, opts)
			c.gen = classify(err)
			if err != nil {
				c.err = firstLine(err.Error())
				os.RemoveAll(filepath.Join(mod.Dir, c.pkg))
				return
			}
			for _, f := range g.Files {
				n := strings.TrimSuffix(strings.TrimSuffix(strings.TrimPrefix(f, "oas_"), "_gen.go"), "_gen_test.go")
				c.files = append(c.files, n)
			}
			sort.Strings(c.files)
		}(c)
	}
	for _, c := range cases {
		wg.Add(1)
		go generate(c)
	}
	wg.Wait()
	// a rejected batch hides its other names: every name of a rejected batch is retried alone
	var singles []*genCase
	for _, c := range cases {
		if c.shape == nil && c.gen != "ok" && len(c.names) > 1 {
			for k, n := range c.names {
				singles = append(singles, &genCase{pkg: fmt.Sprintf("%s_s%d", c.pkg, k), what: fmt.Sprintf("name %q alone in scope %s", n, c.scope), set: c.set, spec: nameSpec(c.scope, []string{n}), names: []string{n}, scope: c.scope})
			}
		}
	}
	for _, c := range singles {
		wg.Add(1)
		go generate(c)
	}
	wg.Wait()
	cases = append(cases, singles...)
	withTests := map[string]bool{}
	for _, c := range cases {
		if c.gen == "ok" {
			for _, f := range c.files {
				if f == "test_examples" {
					withTests[c.pkg] = true
				}
			}
		}
	}
	t0 := time.Now()
	failed, err := buildAll(mod, withTests)
	if err != nil {
		return err
	}
	r.Cov("build_s", time.Since(t0).Seconds())
	// a batch that does not compile is bisected the same way: every name alone, second build pass
	var again []*genCase
	for _, c := range cases {
		if _, bad := failed[c.pkg]; bad && c.shape == nil && len(c.names) > 1 {
			for k, n := range c.names {
				again = append(again, &genCase{pkg: fmt.Sprintf("%s_b%d", c.pkg, k), what: fmt.Sprintf("name %q alone in scope %s", n, c.scope), set: c.set, spec: nameSpec(c.scope, []string{n}), names: []string{n}, scope: c.scope})
			}
		}
	}
	if len(again) > 0 {
		for _, c := range again {
			wg.Add(1)
			go generate(c)
		}
		wg.Wait()
		// packages of the first pass that failed are removed so that the second pass reports only new ones
		for p := range failed {
			os.RemoveAll(filepath.Join(mod.Dir, p))
		}
		failed2, err := buildAll(mod, map[string]bool{})
		if err != nil {
			return err
		}
		for p, m := range failed2 {
			failed[p] = m
		}
		cases = append(cases, again...)
	}
	nOK := 0
	refusedShapes := map[string]string{}
	for _, c := range cases {
		if c.shape != nil && c.gen != "ok" {
			refusedShapes[c.shape.name+": "+c.gen] = c.err
		}
	}
	// every fixed shape is a document the generator takes at the recorded tree: a refusal of one
	// is reported in the evidence (a shape that stops being generated exercises nothing)
	r.Cov("shapes_refused_by_generator", refusedShapes)
	for _, c := range cases {
		c.build = "na"
		if c.gen == "ok" {
			c.build = "ok"
			nOK++
			if msg, bad := failed[c.pkg]; bad {
				c.build, c.berr = "fail", msg
			}
		}
		set := c.set
		if set == nil {
			set = []string{}
		}
		files := c.files
		if files == nil {
			files = []string{}
		}
		shapeFlags := fl()
		shapeName := ""
		if c.shape != nil {
			shapeFlags = c.shape.flags
			shapeName = c.shape.name
		}
		nm := c.names
		if nm == nil {
			nm = []string{}
		}
		// a batch whose every name generates and compiles alone
		aloneOK := false
		if c.shape == nil && len(c.names) > 1 && c.build == "fail" {
			aloneOK = true
			found := 0
			for _, d := range cases {
				if strings.HasPrefix(d.pkg, c.pkg+"_b") {
					found++
					if _, bad := failed[d.pkg]; bad || d.gen != "ok" {
						aloneOK = false
					}
				}
			}
			aloneOK = aloneOK && found == len(c.names)
		}
		b, _ := json.Marshal(map[string]any{"k": "gen", "set": set, "shape": shapeFlags, "flagsKnown": c.shape != nil, "gen": c.gen, "build": c.build, "files": files, "names": nm, "scope": c.scope, "shapeName": shapeName, "aloneOK": aloneOK})
		lines = append(lines, b)
		desc = append(desc, fmt.Sprintf("%s -> generation %s %s, build %s %s", c.what, c.gen, c.err, c.build, c.berr))
		cls := "names"
		if c.shape != nil {
			cls = c.shape.name
		}
		r.Nontrivial(fmt.Sprintf("%s|%s|%s|%d", cls, c.gen, c.build, len(c.set)))
		if len(desc)%60 == 0 {
			r.Sample(desc[len(desc)-1])
		}
	}
	r.Cov("generations", len(cases))
	r.Cov("generations_ok_and_compiled", nOK)
	r.AddEvals(int64(len(lines)))
	vs, err := obs.Check(r, lines, obs.CheckOpts{Module: "GenPipelineCheck", Cfg: obs.StdCfg("KnownDeviations = " + r.KnownSet()), ChunkSize: 4000})
	if err != nil {
		return err
	}
	for _, v := range vs {
		switch {
		case strings.HasPrefix(v.Kind, "known="):
			r.KnownHit(strings.TrimPrefix(v.Kind, "known="), firstLine(desc[v.Index]))
		case v.Kind == "drift":
			r.Drift(desc[v.Index] + " (file set differs from the model's template table): " + string(lines[v.Index]))
		default:
			r.Violate(desc[v.Index]+": "+v.Kind, map[string]any{"line": string(lines[v.Index])})
		}
	}
	_ = bx.Bool
	return nil
}

func firstLine(s string) string {
	if i := strings.IndexByte(s, '\n'); i >= 0 {
		s = s[:i]
	}
	if len(s) > 300 {
		s = s[:300]
	}
	return s
}

// Replay re-runs the check.
func Replay(r *core.Run, path string) error { return Check(r) }
