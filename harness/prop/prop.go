// Package prop is the registry of property checks.
package prop

import (
	"verif/internal/core"
	"verif/prop/c01"
	"verif/prop/c02"
	"verif/prop/c03"
	"verif/prop/c04"
	"verif/prop/c05"
	"verif/prop/c06"
	"verif/prop/c07"
	"verif/prop/c08"
	"verif/prop/c09"
	"verif/prop/c10"
	"verif/prop/c11"
	"verif/prop/c12"
	"verif/prop/c15"
	"verif/prop/c16"
	"verif/prop/c17"
	"verif/prop/c18"
	"verif/prop/c19"
	"verif/prop/c20"
)

// Prop is one decidable property.
type Prop struct {
	Level  string
	Check  func(*core.Run) error
	Replay func(*core.Run, string) error
}

// All maps property id to its check.
var All = map[string]Prop{
	"C01": {Level: "model_checking", Check: c01.Check, Replay: c01.Replay},
	"C02": {Level: "model_checking", Check: c02.Check, Replay: c02.Replay},
	"C03": {Level: "model_checking", Check: c03.Check, Replay: c03.Replay},
	"C04": {Level: "model_checking", Check: c04.Check, Replay: c04.Replay},
	"C05": {Level: "model_checking", Check: c05.Check, Replay: c05.Replay},
	"C06": {Level: "model_checking", Check: c06.Check, Replay: c06.Replay},
	"C07": {Level: "model_checking", Check: c07.Check, Replay: c07.Replay},
	"C08": {Level: "model_checking", Check: c08.Check, Replay: c08.Replay},
	"C09": {Level: "model_checking", Check: c09.Check, Replay: c09.Replay},
	"C10": {Level: "model_checking", Check: c10.Check, Replay: c10.Replay},
	"C11": {Level: "fault_enumeration", Check: c11.Check, Replay: c11.Replay},
	"C12": {Level: "model_checking", Check: c12.Check, Replay: c12.Replay},
	"C15": {Level: "model_checking", Check: c15.Check, Replay: c15.Replay},
	"C16": {Level: "model_checking", Check: c16.Check, Replay: c16.Replay},
	"C17": {Level: "exploration", Check: c17.Check, Replay: c17.Replay},
	"C18": {Level: "model_checking", Check: c18.Check, Replay: c18.Replay},
	"C19": {Level: "exploration", Check: c19.Check, Replay: c19.Replay},
	"C20": {Level: "fault_enumeration", Check: c20.Check, Replay: c20.Replay},
}
