// Package c19 decides C19 (generated clients and servers are safe under concurrent use)
// — spec/Isolation*.tla. The calls of the C01 exchange document (plus validated and
// streamed bodies) run alone first and then from many goroutines on one client/server
// pair built with the race detector; the trace of call boundaries is validated by TLC.
package c19

import (
	"bufio"
	"bytes"
	"encoding/json"
	"errors"
	"fmt"
	"io"
	"os"
	"os/exec"
	"path/filepath"
	"strings"
	"sync"
	"time"

	ht "github.com/ogen-go/ogen/http"

	"verif/internal/core"
	"verif/internal/gencode"
	"verif/internal/obs"
	"verif/internal/tlc"
	"verif/prop/c01"
)

type event struct {
	E string `json:"e"`
	I int    `json:"i"`
	G int    `json:"g"`
	N int    `json:"n"`
	H string `json:"h"`
}

func mc(r *core.Run, mistakes string) (*tlc.Result, error) {
	return tlc.Run(nil, tlc.Options{SpecDir: obs.SpecDir, Module: "IsolationMC", Timeout: 10 * time.Minute, Scratch: r.Scratch, Workers: 4,
		Cfg: tlc.Cfg("CONSTANTS", " Calls = {1, 2, 3}", " PoolSize = 2", " Mistakes = "+mistakes, "INIT Init", "NEXT Next", "INVARIANTS Exclusive Isolated", "CHECK_DEADLOCK FALSE")})
}

// Check is the C19 entry point.
func Check(r *core.Run) error {
	r.SetRule("spec/Isolation.tla: the outcome of every call equals its outcome when run alone under every interleaving, pooled buffers have one owner between Get and Put, no data race. " +
		"TLC checks the pool design exhaustively for 3 calls over a pool of 2 (and, as negative controls, that a Put without reset and a use after Put are found). " +
		"Conformance (call boundaries only; pool steps inside generated code and jx cannot be hooked): every call of the C01 exchange document plus pattern/multipleOf-validated bodies (valid and refused) and streamed bodies runs alone once (Seq fixes F), then all calls run from 32 goroutines on one generated client/server pair built with -race, under GOMAXPROCS 1/2/4/16 and seeded shuffles; TLC validates the trace: Return(i, h) needs h = F(i), a race report or a call that never returns is inadmissible. " +
		"Non-trivial = every Return; distinct = (GOMAXPROCS, outcome class). The schedule space is sampled, not enumerated (level: exploration).")
	res, err := mc(r, "{}")
	if err != nil {
		return err
	}
	if res.Violated != "" {
		return fmt.Errorf("%w: IsolationMC violates %s", tlc.ErrInfra, res.Violated)
	}
	r.AddStates(res.Distinct, res.Generated)
	for _, m := range []string{`{"Dirty"}`, `{"Shared"}`} {
		neg, err := mc(r, m)
		if err != nil {
			return err
		}
		if neg.Violated == "" {
			return fmt.Errorf("%w: IsolationMC does not find the mistake %s (the model lost its teeth)", tlc.ErrInfra, m)
		}
	}
	// the streamed-body design: Close joins the writer (and always returns); without the join TLC
	// finds Close returned while the callback runs (negative control)
	bw := func(mistakes string, props ...string) (*tlc.Result, error) {
		lines := append([]string{"SPECIFICATION Spec", "CONSTANTS", " Chunks = 3", " Mistakes = " + mistakes, "INVARIANT Joined"}, props...)
		return tlc.Run(nil, tlc.Options{SpecDir: obs.SpecDir, Module: "BodyWriterMC", Timeout: 5 * time.Minute, Scratch: r.Scratch, Workers: 2,
			Cfg: tlc.Cfg(append(lines, "CHECK_DEADLOCK FALSE")...)})
	}
	if res, err := bw("{}", "PROPERTY CloseTerminates"); err != nil {
		return err
	} else if res.Violated != "" {
		return fmt.Errorf("%w: BodyWriterMC violates %s", tlc.ErrInfra, res.Violated)
	} else {
		r.AddStates(res.Distinct, res.Generated)
	}
	if neg, err := bw(`{"NoJoin"}`); err != nil {
		return err
	} else if neg.Violated == "" {
		return fmt.Errorf("%w: BodyWriterMC does not find the mistake NoJoin (the model lost its teeth)", tlc.ErrInfra)
	}
	pp, err := c01.Prepare(r, true, true)
	if err != nil {
		return err
	}
	if out, err := exec.Command("go", "version", "-m", pp.Bin).CombinedOutput(); err != nil || !strings.Contains(string(out), "-race=true") {
		return fmt.Errorf("%w: the driver was not built with the race detector", tlc.ErrInfra)
	}
	rounds, procs, storm := 2, []int{1, 4, 16}, 2
	if r.Thorough() {
		rounds, procs, storm = 8, []int{1, 2, 4, 8, 16}, 12
	}
	out := filepath.Join(r.Scratch, "events.ndjson")
	job, _ := json.Marshal(map[string]any{"calls": pp.Calls, "out": out, "mode": "conc", "goroutines": 32, "rounds": rounds, "procs": procs, "seed": r.Seed, "storm": storm})
	jf := filepath.Join(r.Scratch, "conc.job")
	os.WriteFile(jf, job, 0o644)
	raceLog := filepath.Join(r.Scratch, "race")
	o, err := gencode.Run(pp.Bin, []string{"GORACE=halt_on_error=0 exitcode=0 log_path=" + raceLog}, jf)
	if err != nil {
		return fmt.Errorf("%w: driver: %v\n%s", tlc.ErrInfra, err, o)
	}
	raceText := ""
	if ms, _ := filepath.Glob(raceLog + "*"); len(ms) > 0 {
		for _, m := range ms {
			b, _ := os.ReadFile(m)
			raceText += string(b)
		}
	}
	if strings.Contains(o, "DATA RACE") {
		raceText += o
	}
	f, err := os.Open(out)
	if err != nil {
		return err
	}
	defer f.Close()
	var seq, cur [][]byte
	var phases [][][]byte
	nRet := 0
	sc := bufio.NewScanner(f)
	sc.Buffer(make([]byte, 1<<20), 1<<24)
	for sc.Scan() {
		line := append([]byte{}, sc.Bytes()...)
		var e event
		if err := json.Unmarshal(line, &e); err != nil {
			return err
		}
		switch e.E {
		case "Seq":
			seq = append(seq, line)
		case "Barrier":
			cur = append(cur, line)
			phases = append(phases, cur)
			cur = nil
		default:
			if e.E == "Return" {
				nRet++
				r.Nontrivial(fmt.Sprintf("phase%d|%s", len(phases)/rounds, e.H[:2]))
			}
			cur = append(cur, line)
		}
	}
	if len(cur) > 0 {
		phases = append(phases, cur)
	}
	// cold starts: fresh processes whose first calls are the concurrent ones (state that is
	// built on first use is built under contention); the calls made alone by the process
	// above are the reference
	nCold := 3
	if r.Thorough() {
		nCold = 10
	}
	var expect []string
	for _, l := range seq {
		var e event
		json.Unmarshal(l, &e)
		expect = append(expect, e.H)
	}
	for c := 0; c < nCold; c++ {
		cout := filepath.Join(r.Scratch, fmt.Sprintf("cold%d.ndjson", c))
		cjob, _ := json.Marshal(map[string]any{"calls": pp.Calls, "out": cout, "mode": "cold", "goroutines": 32, "seed": uint64(r.Seed) + uint64(c), "expect": expect})
		cjf := filepath.Join(r.Scratch, fmt.Sprintf("cold%d.job", c))
		os.WriteFile(cjf, cjob, 0o644)
		clog := filepath.Join(r.Scratch, fmt.Sprintf("racecold%d", c))
		o, err := gencode.Run(pp.Bin, []string{"GORACE=halt_on_error=0 exitcode=0 log_path=" + clog}, cjf)
		if err != nil {
			return fmt.Errorf("%w: driver (cold start): %v\n%s", tlc.ErrInfra, err, o)
		}
		if ms, _ := filepath.Glob(clog + "*"); len(ms) > 0 {
			for _, m := range ms {
				b, _ := os.ReadFile(m)
				raceText += "(cold start) " + string(b)
			}
		}
		if strings.Contains(o, "DATA RACE") {
			raceText += "(cold start) " + o
		}
		cf, err := os.ReadFile(cout)
		if err != nil {
			return err
		}
		var ph [][]byte
		for _, line := range bytes.Split(bytes.TrimSpace(cf), []byte("\n")) {
			var e event
			if err := json.Unmarshal(line, &e); err != nil {
				return err
			}
			if e.E == "Seq" {
				continue
			}
			if e.E == "Return" {
				nRet++
				r.Nontrivial("cold|" + e.H[:2])
			}
			ph = append(ph, append([]byte{}, line...))
		}
		phases = append(phases, ph)
	}
	r.Cov("cold_start_processes", nCold)
	if raceText != "" {
		keep := filepath.Join(core.VerifDir, "evidence", "replays", "C19-race-report.txt")
		os.MkdirAll(filepath.Dir(keep), 0o755)
		os.WriteFile(keep, []byte(raceText), 0o644)
		b, _ := json.Marshal(event{E: "Race"})
		phases = append(phases, [][]byte{b})
	}
	// binding self-tests: (1) the race detector of this toolchain reports a deliberate race with
	// the same build flags and GORACE settings; (2) TLC rejects a trace with one corrupted Return
	if err := raceSelfTest(r); err != nil {
		return err
	}
	if len(phases) > 0 && raceText == "" {
		bad := append(append([][]byte{}, seq...), phases[0]...)
		for k := len(bad) - 1; k >= 0; k-- {
			var e event
			json.Unmarshal(bad[k], &e)
			if e.E == "Return" {
				e.H = "0000000000000000"
				bad[k], _ = json.Marshal(e)
				break
			}
		}
		vs, err := obs.Check(r, bad, obs.CheckOpts{Module: "IsolationCheck", Cfg: obs.StdCfg(), ChunkSize: len(bad) + 1, Parallel: 1, Timeout: 30 * time.Minute, Heap: "6g"})
		if err != nil {
			return err
		}
		if len(vs) == 0 {
			return fmt.Errorf("%w: binding self-test: a corrupted Return was accepted", tlc.ErrInfra)
		}
		r.Cov("binding_selftest", "corrupted Return rejected: "+vs[0].Kind)
	}
	if err := bodyWriterJoined(r); err != nil {
		return err
	}
	r.Cov("calls", len(pp.Calls))
	r.Cov("concurrent_phases", len(phases))
	r.Cov("returns_validated", nRet)
	r.Cov("gomaxprocs", procs)
	r.AddEvals(int64(nRet))
	r.AddTraces(int64(len(phases)))
	for pi, ph := range phases {
		lines := append(append([][]byte{}, seq...), ph...)
		vs, err := obs.Check(r, lines, obs.CheckOpts{Module: "IsolationCheck", Cfg: obs.StdCfg(), ChunkSize: len(lines) + 1, Parallel: 1, Timeout: 30 * time.Minute, Heap: "6g"})
		if err != nil {
			return err
		}
		for _, v := range vs {
			var e event
			json.Unmarshal(lines[v.Index], &e)
			what := fmt.Sprintf("phase %d event %s call %d goroutine %d: %s", pi, e.E, e.I, e.G, v.Kind)
			if e.E == "Race" {
				what += ": " + firstLines(raceText, 12)
			} else if e.I < len(pp.Calls) {
				cb, _ := json.Marshal(pp.Calls[e.I])
				what += " call=" + string(bytes.TrimSpace(cb))
			}
			r.Violate(what, map[string]any{"event": e, "verdict": v.Kind})
		}
	}
	return nil
}

// bodyWriterJoined drives ht.CreateBodyWriter (the streamed request bodies of generated
// clients: multipart, JSON streaming, base64 streams) as the transport does: the writer callback
// runs in its own goroutine, the reader takes some chunks and closes the body -- before, at or
// after the end. Events BwStart / BwExit (the callback returned; it keeps working for a moment
// after a failed write, like a generated encoder that looks at errors at the end) / BwClosed
// (Close returned) are validated by the acceptor of spec/Isolation.tla.
func bodyWriterJoined(r *core.Run) error {
	var mu sync.Mutex
	var lines [][]byte
	emit := func(e string, i int) {
		mu.Lock()
		b, _ := json.Marshal(event{E: e, I: i, H: ""})
		lines = append(lines, b)
		mu.Unlock()
	}
	chunk := bytes.Repeat([]byte("x"), 1024)
	id := 0
	var what []string
	for _, nChunks := range []int{0, 1, 3, 8} {
		for read := 0; read <= nChunks+1; read++ {
			for _, cbErr := range []bool{false, true} {
				i := id
				id++
				what = append(what, fmt.Sprintf("body of %d chunks, %d read before Close, callback error=%v", nChunks, read, cbErr))
				body := ht.CreateBodyWriter(func(w io.Writer) error {
					emit("BwStart", i)
					defer emit("BwExit", i)
					var werr error
					for c := 0; c < nChunks; c++ {
						if _, err := w.Write(chunk); err != nil && werr == nil {
							werr = err
						}
					}
					if werr != nil {
						time.Sleep(3 * time.Millisecond)
						return werr
					}
					if cbErr {
						return errors.New("encode failed")
					}
					return nil
				})
				buf := make([]byte, len(chunk))
				for k := 0; k < read; k++ {
					if _, err := io.ReadFull(body, buf); err != nil {
						break
					}
				}
				body.Close()
				emit("BwClosed", i)
				time.Sleep(8 * time.Millisecond) // a writer that was not joined gets to finish: the trace is complete
			}
		}
	}
	mu.Lock()
	defer mu.Unlock()
	r.Cov("streamed_body_scenarios", id)
	r.AddEvals(int64(len(lines)))
	vs, err := obs.Check(r, lines, obs.CheckOpts{Module: "IsolationCheck", Cfg: obs.StdCfg(), ChunkSize: len(lines) + 1, Parallel: 1, Timeout: 10 * time.Minute})
	if err != nil {
		return err
	}
	for _, v := range vs {
		var e event
		json.Unmarshal(lines[v.Index], &e)
		d := ""
		if e.I < len(what) {
			d = what[e.I]
		}
		r.Violate(fmt.Sprintf("ht.CreateBodyWriter, %s: event %s: %s", d, e.E, v.Kind), map[string]any{"event": e, "verdict": v.Kind})
	}
	return nil
}

func raceSelfTest(r *core.Run) error {
	dir := filepath.Join(r.Scratch, "raceself")
	os.MkdirAll(dir, 0o755)
	os.WriteFile(filepath.Join(dir, "go.mod"), []byte("module raceself\n\ngo 1.23\n"), 0o644)
	os.WriteFile(filepath.Join(dir, "main.go"), []byte("package main\n\nimport \"sync\"\n\nvar x int\n\nfunc main() {\n\tvar wg sync.WaitGroup\n\tfor i := 0; i < 4; i++ {\n\t\twg.Add(1)\n\t\tgo func() { defer wg.Done(); for k := 0; k < 1000; k++ { x++ } }()\n\t}\n\twg.Wait()\n}\n"), 0o644)
	bin := filepath.Join(dir, "raceself")
	cmd := exec.Command("go", "build", "-race", "-o", bin, ".")
	cmd.Dir = dir
	cmd.Env = append(os.Environ(), "GOFLAGS=-mod=mod", "GOPROXY=off", "GOTOOLCHAIN=local", "CGO_ENABLED=1")
	if out, err := cmd.CombinedOutput(); err != nil {
		return fmt.Errorf("%w: race self-test does not build: %v\n%s", tlc.ErrInfra, err, out)
	}
	log := filepath.Join(dir, "log")
	gencode.Run(bin, []string{"GORACE=halt_on_error=0 exitcode=0 log_path=" + log})
	if ms, _ := filepath.Glob(log + "*"); len(ms) == 0 {
		return fmt.Errorf("%w: race self-test: the race detector did not report a deliberate race", tlc.ErrInfra)
	}
	r.Cov("race_detector_selftest", "deliberate race reported")
	return nil
}

func firstLines(s string, n int) string {
	l := strings.Split(s, "\n")
	if len(l) > n {
		l = l[:n]
	}
	return strings.Join(l, " | ")
}

// Replay re-runs the check.
func Replay(r *core.Run, path string) error { return Check(r) }
