// Package c08 decides C08 (converted regular expressions match what ECMA-262 matches) —
// spec/Regex*.tla.
package c08

import (
	"bytes"
	"encoding/json"
	"fmt"
	"math/rand/v2"
	"os"
	"path/filepath"
	"strings"
	"time"

	"github.com/dlclark/regexp2"

	"github.com/ogen-go/ogen/ogenregex"

	"verif/internal/core"
	"verif/internal/obs"
	"verif/internal/tlc"
)

// concrete character of each abstract symbol
var concrete = map[string]string{"a": "a", "A": "A", "_": "_", "7": "7", "dol": "$", "sp": " ", "nl": "\n", "vt": "\v", "ls": "\u2028", "bom": "\ufeff",
	"ee": "é", "as": "\U0001F600", "hi": "\U0002070E", "nul": "\x00", "bs": "\x08", "cr": "\r", "dle": "\x10", "hy": "-"}

func patternText(tokens []string) string {
	var b strings.Builder
	for _, t := range tokens {
		if strings.HasPrefix(t, "L:") {
			b.WriteString(concrete[strings.TrimPrefix(t, "L:")])
		} else {
			b.WriteString(t)
		}
	}
	return b.String()
}

func subjectText(syms []string) string {
	var b strings.Builder
	for _, s := range syms {
		b.WriteString(concrete[s])
	}
	return b.String()
}

type patVec struct {
	AST json.RawMessage `json:"ast"`
	Pat []string        `json:"pat"`
}

type line struct {
	AST    json.RawMessage `json:"ast"`
	Engine string          `json:"engine"`
	StrOK  bool            `json:"strok"`
	Got    []int           `json:"got"`
	Guard  []int           `json:"guard"`
}

func b2i(ok bool, err error) int {
	switch {
	case err != nil:
		return 2
	case ok:
		return 1
	}
	return 0
}

func observe(p patVec, subjects []string) (l line, text string) {
	text = patternText(p.Pat)
	l = line{AST: p.AST, Got: make([]int, len(subjects)), Guard: make([]int, len(subjects))}
	defer func() {
		if e := recover(); e != nil {
			l.Engine = "err"
		}
	}()
	re, err := ogenregex.Compile(text)
	if err != nil {
		l.Engine = "err"
		return l, text
	}
	if strings.Contains(fmt.Sprintf("%T", re), "goRegexp") {
		l.Engine = "re2"
	} else {
		l.Engine = "fallback"
	}
	l.StrOK = re.String() == text
	guard, gerr := regexp2.Compile(text, regexp2.ECMAScript|regexp2.Unicode)
	if gerr == nil {
		guard.MatchTimeout = 5 * time.Second
	}
	for i, s := range subjects {
		l.Got[i] = b2i(re.MatchString(s))
		if gerr != nil {
			l.Guard[i] = 2
		} else {
			l.Guard[i] = b2i(guard.MatchString(s))
		}
	}
	return l, text
}

// Check is the C08 entry point.
func Check(r *core.Run) error {
	r.SetRule("spec/Regex.tla gives the ECMA-262 end-position semantics M(ast, s, i) over an 18-symbol class-witness alphabet (word chars, $, space, LF, VT, U+2028, U+FEFF, U+00E9, two astral characters one above U+1FFFF, NUL, BS) and renders each AST to pattern text. " +
		"TLC checks algebraic laws of M on every (AST, subject) and enumerates all ASTs of the chosen tiers (atoms incl. \\x \\u \\u{} \\c \\0 identity escapes and bracket expressions; quantifiers greedy/lazy/{n,m}; groups; alternation/concatenation; look-around and back-references as must-fall-back constructs) " +
		"and all subjects up to the length bound. Each pattern is compiled by ogenregex.Compile; engine (%T), String() and MatchString on every subject are logged next to regexp2 ECMAScript|Unicode (guard); TLC recomputes Search(ast, s) and alarms only when its verdict and the guard agree against ogen. " +
		"Non-trivial = pattern with at least one escape, class or constructor; distinct = (root constructor, atom kind, engine, any-mismatch).")
	tier, maxLen, mcLen := 3, 2, 2
	if r.Thorough() {
		tier, maxLen, mcLen = 4, 3, 2
	}
	res, err := tlc.Run(nil, tlc.Options{SpecDir: obs.SpecDir, Module: "RegexMC", Timeout: 20 * time.Minute, Scratch: r.Scratch, Workers: 8, Heap: "8g",
		Cfg: tlc.Cfg(fmt.Sprintf("CONSTANT MaxLen = %d", mcLen), "INIT Init", "NEXT Next", "INVARIANT Laws", "CHECK_DEADLOCK FALSE")})
	if err != nil {
		return err
	}
	if res.Violated != "" {
		return fmt.Errorf("%w: RegexMC violates %s\n%s", tlc.ErrInfra, res.Violated, tlc.Tail(res, 30))
	}
	r.AddStates(res.Distinct, res.Generated)
	r.Cov("mc_states", res.Distinct)
	emit := func(mode string) ([][]byte, error) {
		return obs.Emit(r, "RegexEmit", tlc.Cfg("CONSTANTS", ` Mode = "`+mode+`"`, fmt.Sprintf(" MaxLen = %d", maxLen), fmt.Sprintf(" Tier = %d", tier), "INIT Init", "NEXT Next"), 20*time.Minute)
	}
	sl, err := emit("subs")
	if err != nil {
		return err
	}
	aux := filepath.Join(r.Scratch, "subjects.ndjson")
	if err := os.WriteFile(aux, append(bytes.Join(sl, []byte("\n")), '\n'), 0o644); err != nil {
		return err
	}
	var subjects []string
	for _, l := range sl {
		var v struct {
			S []string `json:"s"`
		}
		if err := json.Unmarshal(l, &v); err != nil {
			return err
		}
		subjects = append(subjects, subjectText(v.S))
	}
	pl, err := emit("pats")
	if err != nil {
		return err
	}
	r.Cov("patterns", len(pl))
	r.Cov("subjects", len(subjects))
	r.Cov("bounds", map[string]int{"ast_tier": tier, "subject_len": maxLen})
	r.SetExhaustive(true)
	rng := rand.New(rand.NewPCG(uint64(r.Seed), 0xC08))
	lines := make([][]byte, len(pl))
	texts := make([]string, len(pl))
	all := make([]line, len(pl))
	for i, raw := range pl {
		var p patVec
		if err := json.Unmarshal(raw, &p); err != nil {
			return err
		}
		l, text := observe(p, subjects)
		all[i], texts[i] = l, text
		lines[i], _ = json.Marshal(l)
		var probe struct {
			T string `json:"t"`
		}
		json.Unmarshal(p.AST, &probe)
		r.Nontrivial(fmt.Sprintf("%s|%s|%d", probe.T, l.Engine, len(p.Pat)))
		if rng.IntN(len(pl)/8+1) == 0 {
			k := rng.IntN(len(subjects))
			r.Sample(map[string]any{"pattern": text, "engine": l.Engine, "subject": subjects[k], "ogen": l.Got[k], "regexp2": l.Guard[k]})
		}
	}
	r.AddEvals(int64(len(pl)) * int64(len(subjects)))
	vs, err := obs.Check(r, lines, obs.CheckOpts{Module: "RegexCheck", Cfg: obs.StdCfg(fmt.Sprintf("MaxLen = %d", maxLen)), ChunkSize: 600, Parallel: 12, Timeout: 40 * time.Minute, Heap: "3g", Env: map[string]string{"VERIF_AUX": aux}})
	if err != nil {
		return err
	}
	disputes := 0
	for _, v := range vs {
		l, text := all[v.Index], texts[v.Index]
		subj := ""
		var k int
		if i := strings.LastIndex(v.Kind, "-"); i >= 0 {
			if _, err := fmt.Sscanf(v.Kind[i+1:], "%d", &k); err == nil && k >= 1 && k <= len(subjects) {
				subj = fmt.Sprintf(" on subject %q: ogen=%d regexp2=%d", subjects[k-1], l.Got[k-1], l.Guard[k-1])
			}
		}
		what := fmt.Sprintf("pattern %q (engine %s, String() ok=%v)%s: %s", text, l.Engine, l.StrOK, subj, v.Kind)
		switch {
		case strings.HasPrefix(v.Kind, "dispute"):
			disputes++
			if disputes <= 5 {
				fmt.Printf("DISPUTE property=C08 %s (the two oracles disagree: excluded from the verdict)\n", what)
			}
		case strings.HasPrefix(v.Kind, "known="):
			r.KnownHit(strings.TrimPrefix(v.Kind, "known="), what)
		default:
			r.Violate(what, map[string]any{"pattern": text, "ast": l.AST, "verdict": v.Kind})
		}
	}
	r.Cov("oracle_disputes", disputes)
	return nil
}

// Replay re-runs the check.
func Replay(r *core.Run, path string) error {
	_, err := os.Stat(path)
	if err != nil {
		return err
	}
	return Check(r)
}
