// Package c04 decides C04 (JSON encoding of generated types round-trips and conforms to
// the schema) — spec/RoundTrip*.tla over the schema and instance domain of
// spec/SchemaValid.tla.
package c04

import (
	"bytes"
	_ "embed"
	"encoding/json"
	"fmt"
	"io"
	"math/big"
	"os"
	"path/filepath"
	"strconv"
	"strings"
	"time"

	"verif/internal/core"
	"verif/internal/gencode"
	"verif/internal/obs"
	"verif/internal/tlc"
	"verif/prop/c03"
)

//go:embed driver_main.go.txt
var driverMain string

type M = c03.M

// tagged turns JSON text into the tagged value representation of spec/SchemaValid.tla,
// keeping member order and repeated members; ok=false when the text is not one JSON
// value or holds a number the domain (exact tenths, 32-bit) cannot represent.
func tagged(text []byte) (M, bool) {
	d := json.NewDecoder(bytes.NewReader(text))
	d.UseNumber()
	v, ok := taggedValue(d)
	if !ok {
		return nil, false
	}
	if _, err := d.Token(); err != io.EOF {
		return nil, false
	}
	return v, true
}

func taggedValue(d *json.Decoder) (M, bool) {
	tok, err := d.Token()
	if err != nil {
		return nil, false
	}
	switch t := tok.(type) {
	case nil:
		return M{"t": "null"}, true
	case bool:
		return M{"t": "bool", "b": t}, true
	case json.Number:
		r, ok := new(big.Rat).SetString(t.String())
		if !ok {
			return nil, false
		}
		r.Mul(r, big.NewRat(10, 1))
		if !r.IsInt() || !r.Num().IsInt64() || r.Num().Int64() > 1<<30 || r.Num().Int64() < -(1<<30) {
			return nil, false
		}
		return M{"t": "num", "n": r.Num().Int64()}, true
	case string:
		return M{"t": "str", "s": c03.SymbolsOf(t)}, true
	case json.Delim:
		switch t {
		case '[':
			items := []any{}
			for d.More() {
				x, ok := taggedValue(d)
				if !ok {
					return nil, false
				}
				items = append(items, x)
			}
			if _, err := d.Token(); err != nil {
				return nil, false
			}
			return M{"t": "arr", "v": items}, true
		case '{':
			members := []any{}
			for d.More() {
				k, err := d.Token()
				if err != nil {
					return nil, false
				}
				ks, ok := k.(string)
				if !ok {
					return nil, false
				}
				x, ok := taggedValue(d)
				if !ok {
					return nil, false
				}
				members = append(members, []any{ks, x})
			}
			if _, err := d.Token(); err != nil {
				return nil, false
			}
			return M{"t": "obj", "m": members}, true
		}
	}
	return nil, false
}

type result struct {
	Code   int        `json:"code"`
	Out    string     `json:"out"`
	Eq     bool       `json:"eq"`
	Again  bool       `json:"again"`
	Direct int        `json:"direct"`
	Note   string     `json:"note"`
	Built  []builtRes `json:"built"`
}

// builtRes mirrors the driver's record of one value built by a type-directed change.
type builtRes struct {
	What  string `json:"what"`
	Site  string `json:"site"`
	Valid string `json:"valid"`
	Code  int    `json:"code"`
	Out   string `json:"out"`
	Dec   bool   `json:"dec"`
	Eq    bool   `json:"eq"`
	Note  string `json:"note"`
}

// classify turns the text written for a built value into what TLC judges: the tagged
// value when the domain of spec/SchemaValid.tla can hold it, [t |-> "opaque"] when it is
// JSON outside that domain (then only well-formedness, re-acceptance and equality are
// judged), [t |-> "malformed"] when it is not JSON.
func classify(text []byte, openFloatText bool) M {
	if !json.Valid(text) {
		return M{"t": "malformed"}
	}
	v, ok := tagged(text)
	if !ok || !inDomain(v) {
		return M{"t": "opaque"}
	}
	// a number written as text (`type: string, format: float64`) exists in the domain only as
	// the listed symbols: the text of any other number cannot be judged against the format
	if openFloatText && holdsUnlistedNumberText(text) {
		return M{"t": "opaque"}
	}
	return v
}

func holdsUnlistedNumberText(text []byte) bool {
	var v any
	d := json.NewDecoder(strings.NewReader(string(text)))
	d.UseNumber()
	if d.Decode(&v) != nil {
		return false
	}
	listed := map[string]bool{}
	for _, t := range c03.Symbols {
		listed[t] = true
	}
	var walk func(x any) bool
	walk = func(x any) bool {
		switch y := x.(type) {
		case string:
			_, err := strconv.ParseFloat(y, 64)
			return err == nil && !listed[y]
		case []any:
			for _, z := range y {
				if walk(z) {
					return true
				}
			}
		case map[string]any:
			for _, z := range y {
				if walk(z) {
					return true
				}
			}
		}
		return false
	}
	return walk(v)
}

func inDomain(v M) bool { return true } // any character is a one-character symbol; numbers are checked by tagged

// Check is the C04 entry point.
func Check(r *core.Run) error {
	r.SetRule("spec/RoundTrip.tla: for every schema S and every instance v valid against S (Valid of spec/SchemaValid.tla), the text the regenerated server writes after reading v is well-formed JSON without repeated members, valid against S and the same JSON value as v (objects as name->value maps); this carries absent/null/present, nil-versus-empty arrays and the sum variant. " +
		"The implementation layer is the box table of gen/generics.go (plain/Opt/Nil/OptNil/nil-slice semantics) with Dec/Enc, checked by TLC to be adequate for every (required, nullable, array, state). " +
		"Conformance: every schema of the TLC-emitted domain (plus seeded random schemas) becomes the request and the response schema of one operation of a server regenerated from /repo whose middleware answers with the decoded request value; every instance is posted, the echo is posted again, and TLC judges (schema, instance, echo, Go-level equality of the two decoded values, second echo). " +
		"Non-trivial = an echoed valid instance; distinct = (schema kind, instance kind).")
	res, err := tlc.Run(nil, tlc.Options{SpecDir: obs.SpecDir, Module: "RoundTripMC", Timeout: 20 * time.Minute, Scratch: r.Scratch, Workers: 8, Heap: "8g",
		Cfg: tlc.Cfg("INIT Init", "NEXT Next", "INVARIANTS Adequate CanonLaws", "CHECK_DEADLOCK FALSE")})
	if err != nil {
		return err
	}
	if res.Violated != "" {
		return fmt.Errorf("%w: RoundTripMC violates %s\n%s", tlc.ErrInfra, res.Violated, tlc.Tail(res, 30))
	}
	r.AddStates(res.Distinct, res.Generated)
	schemas, insts, aux, err := c03.Load(r)
	if err != nil {
		return err
	}
	nRand, nBuild := 60, 2
	if r.Thorough() {
		nRand, nBuild = 900, 6
	}
	base := len(schemas)
	schemas = c03.AddRandom(schemas, nRand, uint64(r.Seed)+0x04)
	r.Cov("schemas", len(schemas))
	r.Cov("random_schemas", len(schemas)-base)
	r.Cov("instances", len(insts))
	r.SetExhaustive(true)
	bodies := make([]string, len(insts))
	for i, v := range insts {
		b, err := json.Marshal(c03.RenderValue(v))
		if err != nil {
			return err
		}
		bodies[i] = string(b)
	}
	mod, err := gencode.NewModule(r.Scratch, "mod")
	if err != nil {
		return err
	}
	pkgs, refused, err := c03.GenPackages(mod, schemas, driverMain)
	if err != nil {
		return err
	}
	r.Cov("schemas_refused_by_generator", len(refused))
	bin, err := mod.Build("drv", "drv")
	if err != nil {
		return err
	}
	type rq struct {
		Path string `json:"path"`
		Body string `json:"body"`
	}
	got := make([][]result, len(schemas))
	for _, p := range pkgs {
		var reqs []rq
		for i := p.Lo; i < p.Hi; i++ {
			for _, b := range bodies {
				reqs = append(reqs, rq{Path: fmt.Sprintf("/s%d", i), Body: b})
			}
		}
		out := filepath.Join(r.Scratch, p.Name+".out")
		job, _ := json.Marshal(M{"pkg": p.Name, "reqs": reqs, "out": out, "build": nBuild, "seed": uint64(r.Seed)})
		jf := filepath.Join(r.Scratch, p.Name+".job")
		os.WriteFile(jf, job, 0o644)
		if o, err := gencode.Run(bin, nil, jf); err != nil {
			return fmt.Errorf("driver %s: %v\n%s", p.Name, err, o)
		}
		raw, err := os.ReadFile(out)
		if err != nil {
			return err
		}
		var res []result
		if err := json.Unmarshal(raw, &res); err != nil {
			return err
		}
		n := 0
		for i := p.Lo; i < p.Hi; i++ {
			got[i] = res[n : n+len(bodies)]
			n += len(bodies)
		}
	}
	var lines [][]byte
	var idx []int
	nEcho, nSkipType, nDirect := 0, 0, 0
	none := M{"t": "none"}
	for i := range schemas {
		if got[i] == nil {
			continue
		}
		codes := make([]int, len(bodies))
		outs := make([]any, len(bodies))
		eqs := make([]bool, len(bodies))
		agains := make([]bool, len(bodies))
		directs := make([]int, len(bodies))
		for k, g := range got[i] {
			codes[k], eqs[k], agains[k], outs[k], directs[k] = g.Code, g.Eq, g.Again, none, g.Direct
			if g.Code == 1 && g.Direct != 1 {
				nDirect++
			}
			switch g.Code {
			case 1:
				nEcho++
				r.Nontrivial(fmt.Sprintf("%v|%v", schemas[i]["k"], insts[k]["t"]))
				if v, ok := tagged([]byte(g.Out)); ok {
					outs[k] = v
				} else {
					outs[k] = M{"t": "malformed"}
				}
			case 3:
				nSkipType++
			}
		}
		b, _ := json.Marshal(M{"schema": schemas[i], "got": codes, "out": outs, "eq": eqs, "again": agains, "direct": directs})
		lines = append(lines, b)
		idx = append(idx, i)
		if i%9 == 0 {
			sb, _ := json.Marshal(c03.RenderSchema(schemas[i], "S"))
			k := (i * 7) % len(bodies)
			r.Sample(M{"schema": string(sb), "instance": bodies[k], "code": got[i][k].Code, "echo": got[i][k].Out})
		}
	}
	r.Cov("echoes_judged", nEcho)
	r.Cov("pairs_without_common_go_type", nSkipType)
	r.Cov("echoes_decoded_again_from_a_buffer_overwritten_afterwards", nDirect)
	r.AddEvals(int64(len(lines) * len(bodies)))
	vs, err := obs.Check(r, lines, obs.CheckOpts{Module: "RoundTripCheck", Cfg: obs.StdCfg("KnownDeviations = " + r.KnownSet()), ChunkSize: 8, Parallel: 10, Env: map[string]string{"VERIF_AUX": aux}})
	if err != nil {
		return err
	}
	for _, v := range vs {
		i := idx[v.Index]
		sb, _ := json.Marshal(c03.RenderSchema(schemas[i], fmt.Sprintf("S%d", i)))
		var k int
		inst := ""
		if j := strings.LastIndex(v.Kind, "-"); j >= 0 {
			if _, err := fmt.Sscanf(v.Kind[j+1:], "%d", &k); err == nil && k >= 1 && k <= len(bodies) {
				g := got[i][k-1]
				inst = fmt.Sprintf(" instance %s -> code %d echo %s eq=%v again=%v %s", bodies[k-1], g.Code, g.Out, g.Eq, g.Again, g.Note)
			}
		}
		what := fmt.Sprintf("schema %s%s: %s", sb, inst, v.Kind)
		switch {
		case strings.HasPrefix(v.Kind, "known="):
			dev := strings.TrimPrefix(v.Kind, "known=")
			if j := strings.LastIndex(dev, "-"); j >= 0 {
				dev = dev[:j]
			}
			r.KnownHit(dev, what)
		default:
			r.Violate(what, M{"schema": schemas[i], "verdict": v.Kind})
		}
	}
	// values built in the driver by a type-directed change of a decoded value
	var blines [][]byte
	var bdesc []string
	var bschema []int
	seenB := map[string]bool{}
	nBuilt, nBuiltValid, nBuiltUnknown := 0, 0, 0
	for i := range schemas {
		for k, g := range got[i] {
			for _, b := range g.Built {
				nBuilt++
				if b.Valid != "yes" {
					if b.Valid == "unknown" {
						nBuiltUnknown++
					}
					continue
				}
				nBuiltValid++
				out := M{"t": "none"}
				if b.Code == 1 {
					sj, _ := json.Marshal(c03.RenderSchema(schemas[i], "S"))
					out = classify([]byte(b.Out), strings.Contains(string(sj), `"format":"float64"`))
				}
				es, sa := shapeFlags(c03.RenderSchema(schemas[i], "S"))
				line, _ := json.Marshal(M{"k": "built", "schema": schemas[i], "what": b.What, "code": b.Code, "out": out, "dec": b.Dec, "eq": b.Eq, "emptyStruct": es, "sharedArray": sa})
				if seenB[string(line)] {
					continue
				}
				seenB[string(line)] = true
				r.Nontrivial("built|" + b.What)
				blines = append(blines, line)
				bschema = append(bschema, i)
				bdesc = append(bdesc, fmt.Sprintf("value decoded from %s, then %s at %s -> status class %d text %s re-accepted=%v equal=%v %s", bodies[k], b.What, b.Site, b.Code, firstN(b.Out, 300), b.Dec, b.Eq, b.Note))
			}
		}
	}
	r.Cov("built_values", nBuilt)
	r.Cov("built_values_passing_validate", nBuiltValid)
	r.Cov("built_values_of_types_without_own_validation_skipped", nBuiltUnknown)
	r.Cov("built_values_judged_distinct", len(blines))
	r.AddEvals(int64(nBuiltValid))
	bvs, err := obs.Check(r, blines, obs.CheckOpts{Module: "RoundTripCheck", Cfg: obs.StdCfg("KnownDeviations = " + r.KnownSet()), ChunkSize: 400, Parallel: 10, Env: map[string]string{"VERIF_AUX": aux}})
	if err != nil {
		return err
	}
	if f := os.Getenv("VERIF_C04_DUMP"); f != "" {
		os.WriteFile(f, bytes.Join(blines, []byte("\n")), 0o644)
	}
	if os.Getenv("VERIF_C04_STATS") != "" {
		cnt := map[string]int{}
		first := map[string]string{}
		for _, v := range bvs {
			var l struct{ What string }
			json.Unmarshal(blines[v.Index], &l)
			k := l.What + " " + v.Kind
			cnt[k]++
			if first[k] == "" {
				sb, _ := json.Marshal(c03.RenderSchema(schemas[bschema[v.Index]], "S"))
				first[k] = string(sb) + " :: " + bdesc[v.Index]
			}
		}
		for k, n := range cnt {
			fmt.Fprintf(os.Stderr, "BUILT-STATS %5d %s\n      e.g. %s\n", n, k, firstN(first[k], 700))
		}
	}
	for _, v := range bvs {
		i := bschema[v.Index]
		sb, _ := json.Marshal(c03.RenderSchema(schemas[i], fmt.Sprintf("S%d", i)))
		what := fmt.Sprintf("schema %s: %s: %s", sb, bdesc[v.Index], v.Kind)
		if strings.HasPrefix(v.Kind, "known=") {
			r.KnownHit(strings.TrimPrefix(v.Kind, "known="), what)
			continue
		}
		r.Violate(what, M{"schema": schemas[i], "verdict": v.Kind, "built": bdesc[v.Index]})
	}
	return nil
}

// shapeFlags describes the schema for two recorded findings: whether it has an object
// schema without declared properties (boxed as a pointer to an empty struct) and whether
// an array component of the shared definitions (used by several referrers with different nil meanings) is referred to.
func shapeFlags(schema any) (emptyStruct, sharedArray bool) {
	var walk func(x any)
	walk = func(x any) {
		switch t := x.(type) {
		case map[string]any:
			if t["type"] == "object" {
				if p, ok := t["properties"].(map[string]any); !ok || len(p) == 0 {
					emptyStruct = true
				}
			}
			if ref, ok := t["$ref"].(string); ok && strings.Contains(ref, "/DArr") {
				sharedArray = true
			}
			for _, v := range t {
				walk(v)
			}
		case []any:
			for _, v := range t {
				walk(v)
			}
		}
	}
	b, _ := json.Marshal(schema)
	var v any
	json.Unmarshal(b, &v)
	walk(v)
	return
}

func firstN(s string, n int) string {
	if len(s) > n {
		return s[:n]
	}
	return s
}

// Replay re-runs the check.
func Replay(r *core.Run, path string) error { return Check(r) }
