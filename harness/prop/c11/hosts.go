package c11

import "strings"

// hostAll is a compact document that has every kind of node the fault operators look
// for in every context the parser and generator treat differently; the operators are
// applied at every eligible node of it in both tiers.
const hostAll = `openapi: 3.0.3
info:
  title: host
  version: "1"
servers:
  - url: https://{env}.example.com/v1
    variables:
      env:
        default: prod
        enum: [prod, dev]
security:
  - key: []
paths:
  /items/{id}:
    parameters:
      - $ref: '#/components/parameters/Id'
    get:
      operationId: getItem
      parameters:
        - name: q
          in: query
          schema:
            $ref: '#/components/schemas/Filter'
        - name: tags
          in: query
          style: form
          explode: false
          schema:
            type: array
            items:
              type: string
              minLength: 1
        - name: X-Trace
          in: header
          required: true
          schema:
            type: string
            pattern: '^[a-f0-9]+$'
        - name: deep
          in: query
          style: deepObject
          explode: true
          schema:
            type: object
            properties:
              a:
                type: integer
        - name: c
          in: cookie
          schema:
            type: number
            minimum: 0.5
            maximum: 10
      responses:
        '200':
          description: ok
          headers:
            X-Rate:
              $ref: '#/components/headers/Rate'
          content:
            application/json:
              schema:
                $ref: '#/components/schemas/Item'
        '4XX':
          $ref: '#/components/responses/Err'
        default:
          $ref: '#/components/responses/Err'
    put:
      operationId: putItem
      requestBody:
        $ref: '#/components/requestBodies/ItemBody'
      responses:
        '204':
          description: done
  /upload%20file:
    post:
      operationId: upload
      security: []
      requestBody:
        required: true
        content:
          multipart/form-data:
            schema:
              type: object
              required: [file]
              properties:
                file:
                  type: string
                  format: binary
                note:
                  type: string
                  default: none
                more:
                  type: array
                  items:
                    type: string
          application/x-www-form-urlencoded:
            schema:
              type: object
              properties:
                k:
                  type: integer
                  format: int32
          application/octet-stream:
            schema:
              type: string
              format: binary
      responses:
        '200':
          description: ok
          content:
            text/plain:
              schema:
                type: string
              example: hello
            application/json:
              schema:
                type: array
                items:
                  - type: string
                  - type: integer
              examples:
                one:
                  summary: a pair
                  value: [a, 1]
                two:
                  $ref: '#/components/examples/Pair'
components:
  securitySchemes:
    key:
      type: apiKey
      in: header
      name: X-Key
  examples:
    Pair:
      value: [b, 2]
  parameters:
    Id:
      name: id
      in: path
      required: true
      schema:
        type: integer
        format: int64
        minimum: 1
  headers:
    Rate:
      schema:
        type: integer
  requestBodies:
    ItemBody:
      required: true
      content:
        application/json:
          schema:
            $ref: '#/components/schemas/Item'
  responses:
    Err:
      description: error
      content:
        application/json:
          schema:
            $ref: '#/components/schemas/Error'
  schemas:
    Filter:
      type: string
      enum: [new, old]
      default: new
    Error:
      type: object
      required: [code]
      properties:
        code:
          type: integer
          multipleOf: 1
        message:
          type: string
          nullable: true
    Item:
      type: object
      required: [id, kind]
      additionalProperties: false
      properties:
        id:
          type: integer
          format: int64
        kind:
          $ref: '#/components/schemas/Kind'
        price:
          type: number
          exclusiveMinimum: true
          minimum: 0
          maximum: 1e6
        tags:
          type: array
          uniqueItems: true
          maxItems: 8
          items:
            type: string
        attrs:
          type: object
          additionalProperties:
            type: string
          maxProperties: 4
        pat:
          type: object
          patternProperties:
            '^x-':
              type: integer
        parent:
          $ref: '#/components/schemas/Item'
        when:
          type: string
          format: date-time
        pet:
          $ref: '#/components/schemas/Pet'
        any:
          anyOf:
            - type: string
            - type: integer
        one:
          allOf:
            - $ref: '#/components/schemas/Error'
        both:
          allOf:
            - $ref: '#/components/schemas/Error'
            - type: object
              properties:
                extra:
                  type: boolean
    Kind:
      type: string
      enum: [a, b, c]
    Pet:
      oneOf:
        - $ref: '#/components/schemas/Cat'
        - $ref: '#/components/schemas/Dog'
      discriminator:
        propertyName: type
        mapping:
          cat: '#/components/schemas/Cat'
          dog: '#/components/schemas/Dog'
    Cat:
      type: object
      required: [type]
      properties:
        type:
          type: string
        lives:
          type: integer
          default: 9
    Dog:
      type: object
      required: [type]
      properties:
        type:
          type: string
        bark:
          type: boolean
`

// hostRoot / hostExt: a two-file document set. Every node of ext.yml sits on a line
// (YAML) or column (JSON) beyond the end of root, so a diagnostic that names the wrong
// file names a position that does not exist in it.
const hostRoot = `openapi: 3.0.3
info: {title: root, version: "1"}
paths:
  /a/{id}:
    get:
      operationId: getA
      parameters: [{$ref: 'ext.yml#/components/parameters/Id'}, {name: f, in: query, schema: {$ref: 'ext.yml#/components/schemas/Filter'}}]
      responses: {'200': {$ref: 'ext.yml#/components/responses/Ok'}, default: {description: err, headers: {X-H: {$ref: 'ext.yml#/components/headers/H'}}}}
    post:
      operationId: postA
      parameters: [{$ref: 'ext.yml#/components/parameters/Id'}]
      requestBody: {$ref: 'ext.yml#/components/requestBodies/Body'}
      responses: {'200': {description: ok, content: {application/json: {schema: {$ref: 'ext.yml#/components/schemas/Thing'}}}}}
`

var hostExt = "x-pad:\n" + strings.Repeat("  - pad\n", 40) + `components:
  parameters:
    Id:
      name: id
      in: path
      required: true
      schema:
        type: integer
        minimum: 1
  headers:
    H:
      schema:
        type: string
  requestBodies:
    Body:
      required: true
      content:
        application/json:
          schema:
            $ref: '#/components/schemas/Thing'
  responses:
    Ok:
      description: ok
      content:
        application/json:
          schema:
            $ref: '#/components/schemas/Thing'
  schemas:
    Filter:
      type: string
      enum: [p, q]
    Thing:
      type: object
      required: [n]
      properties:
        n:
          type: integer
          default: 10
        s:
          type: string
          maxLength: 5
        list:
          type: array
          items:
            $ref: '#/components/schemas/Leaf'
        self:
          $ref: '#/components/schemas/Thing'
        sum:
          oneOf:
            - type: string
            - $ref: '#/components/schemas/Leaf'
    Leaf:
      type: object
      properties:
        v:
          type: number
          multipleOf: 0.5
`

// hostMore: valid shapes that earlier rounds found to break the generator on their own:
// structurally equal recursive default responses under different names (the
// convenient-errors comparison), a custom oauth2 scheme used by two operations, enums
// with a null before other values and with a value that starts with U+FFFD.
const hostMore = `openapi: 3.0.3
info:
  title: more
  version: "1"
paths:
  /foo:
    get:
      operationId: foo
      security:
        - oa: [read]
      responses:
        "200":
          description: ok
          content:
            application/json:
              schema:
                $ref: '#/components/schemas/Holder'
        default:
          description: err
          content:
            application/json:
              schema:
                $ref: '#/components/schemas/ErrA'
  /bar:
    get:
      operationId: bar
      security:
        - oa: [write]
      responses:
        "200":
          description: ok
        default:
          description: err
          content:
            application/json:
              schema:
                $ref: '#/components/schemas/ErrB'
components:
  securitySchemes:
    oa:
      type: oauth2
      x-ogen-custom-security: true
      flows:
        implicit:
          authorizationUrl: https://example.com/auth
          scopes:
            read: r
            write: w
  schemas:
    Holder:
      type: object
      properties:
        state:
          type: string
          nullable: true
          enum: [null, "on", "off"]
        level:
          type: integer
          enum: [null, 1, 2]
        odd:
          type: string
          enum: ["\uFFFDa", "b"]
    ErrA:
      type: object
      properties:
        cause:
          $ref: '#/components/schemas/ErrA'
    ErrB:
      type: object
      properties:
        cause:
          $ref: '#/components/schemas/ErrB'
`

// hostEcho: scalar values spell the names of keys of the same mapping (a parameter named
// "style", a schema described as "type", ...): a position looked up by key name must not
// land on a value.
const hostEcho = `openapi: 3.0.3
info:
  title: echo
  version: "1"
paths:
  /e/{required}:
    get:
      operationId: echo
      parameters:
        - name: style
          in: query
          style: form
          explode: true
          schema:
            description: enum
            type: string
            enum: [enum, type]
        - name: required
          in: path
          required: true
          schema:
            description: type
            type: string
        - name: schema
          in: header
          schema:
            $ref: '#/components/schemas/kind'
        - name: content
          in: query
          content:
            application/json:
              schema:
                description: properties
                type: object
                properties:
                  name:
                    description: type
                    type: string
      security:
        - flows: []
      responses:
        "200":
          description: content
          headers:
            X-Description:
              description: schema
              schema:
                description: format
                type: string
                format: uuid
          content:
            application/json:
              schema:
                $ref: '#/components/schemas/holder'
        default:
          description: $ref
          content:
            application/json:
              schema:
                $ref: '#/components/schemas/kind'
components:
  securitySchemes:
    flows:
      description: name
      type: apiKey
      name: in
      in: header
  schemas:
    kind:
      description: type
      type: string
      enum: [type, format, items]
    holder:
      description: properties
      type: object
      required: [items]
      properties:
        items:
          description: items
          type: array
          items:
            $ref: '#/components/schemas/kind'
        enum:
          description: default
          type: string
          default: enum
          enum: [enum, default]
        oneOf:
          description: discriminator
          oneOf:
            - $ref: '#/components/schemas/left'
            - $ref: '#/components/schemas/right'
          discriminator:
            propertyName: mapping
            mapping:
              left: '#/components/schemas/left'
              right: '#/components/schemas/right'
    left:
      description: required
      type: object
      required: [mapping, minimum]
      properties:
        mapping:
          type: string
        minimum:
          description: maximum
          type: integer
          minimum: 1
          maximum: 9
    right:
      description: required
      type: object
      required: [mapping, pattern]
      properties:
        mapping:
          type: string
        pattern:
          description: pattern
          type: string
          pattern: ^pattern$
`
