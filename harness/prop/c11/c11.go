// Package c11 decides C11 (the generator is total) — spec/GenOutcome*.tla. Structural
// faults are placed at nodes of corpus documents; every mutated document runs through
// ogen.Parse -> gen.NewGenerator -> WriteSource in a child process under a watchdog and
// an address-space limit.
package c11

import (
	"bufio"
	"bytes"
	"encoding/json"
	"errors"
	"fmt"
	"math/rand/v2"
	"os"
	"os/exec"
	"path/filepath"
	"runtime"
	"sort"
	"strconv"
	"strings"
	"syscall"
	"time"

	"github.com/go-faster/yaml"

	"github.com/ogen-go/ogen"
	"github.com/ogen-go/ogen/gen"
	"github.com/ogen-go/ogen/location"

	"verif/internal/core"
	"verif/internal/obs"
	"verif/internal/tlc"
)

type outcome struct {
	Kind    string `json:"kind"`
	Located bool   `json:"located"`
	Line    int    `json:"line"`
	Col     int    `json:"col"`
	NLines  int    `json:"nlines"`
	LineLen int    `json:"linelen"`
	Msg     string `json:"msg"`
	// every location.Error of the chain, each against the file it names
	Locs []locRec `json:"locs"`
	// OnPath: some named position is the start of a node on the way from the root to the
	// place of the fault or below it (computed by the parent process, which knows the place)
	OnPath bool `json:"onpath"`
	// OnPathIn: the innermost position of the chain (the most specific one) is on the way to the
	// mutated node or below it
	OnPathIn bool `json:"onpathin"`
}

// locRec is one position a diagnostic names: whether the named file belongs to the
// document set, the extent of that file's line, and whether a node starts there.
type locRec struct {
	File      string `json:"file"`
	Known     bool   `json:"known"`
	Line      int    `json:"line"`
	Col       int    `json:"col"`
	NLines    int    `json:"nlines"`
	LineLen   int    `json:"linelen"`
	NodeStart bool   `json:"nodestart"`
}

func nodeStarts(data []byte) map[[2]int]bool {
	out := map[[2]int]bool{}
	var n yaml.Node
	if yaml.Unmarshal(data, &n) != nil {
		return nil
	}
	var walk func(*yaml.Node)
	walk = func(n *yaml.Node) {
		out[[2]int{n.Line, n.Column}] = true
		for _, c := range n.Content {
			walk(c)
		}
	}
	walk(&n)
	return out
}

// collectLocs walks the error chain.
func collectLocs(err error, files map[string][]byte) (out []locRec) {
	starts := map[string]map[[2]int]bool{}
	for e := err; e != nil; e = errors.Unwrap(e) {
		le, ok := e.(*location.Error)
		if !ok {
			continue
		}
		// a location.Error with line 0 is printed as "at <file>:0": a reported position that
		// exists in no file; it is judged like any other
		rec := locRec{File: le.File.HumanName(), Line: le.Pos.Line, Col: le.Pos.Column}
		var data []byte
		if len(files) == 1 {
			for _, d := range files {
				data, rec.Known = d, true
			}
		} else {
			for _, cand := range []string{le.File.Source, le.File.Name} {
				if d, ok := files[filepath.Base(cand)]; ok && cand != "" {
					data, rec.Known = d, true
					break
				}
			}
		}
		if rec.Known {
			lines := bytes.Split(data, []byte("\n"))
			rec.NLines = len(lines)
			if rec.Line >= 1 && rec.Line <= len(lines) {
				rec.LineLen = len(lines[rec.Line-1])
			}
			key := string(data[:min(len(data), 64)]) + strconv.Itoa(len(data))
			if starts[key] == nil {
				starts[key] = nodeStarts(data)
			}
			// a document the YAML reader cannot parse has no nodes to compare with
			rec.NodeStart = starts[key] == nil || starts[key][[2]int{rec.Line, rec.Col}]
		}
		out = append(out, rec)
	}
	return out
}

type memFS struct{}

func (memFS) WriteFile(string, []byte) error { return nil }

// runOne is executed inside the worker process.
func runOne(data []byte) outcome {
	return runDoc(data, map[string][]byte{"spec": data}, func(opts *gen.Options) {
		opts.Parser.File = location.NewFile("spec", "spec", data)
	})
}

// runMulti runs a document set: dir/root.(yml|json) referring to its sibling files.
func runMulti(dir string) outcome {
	files := map[string][]byte{}
	ents, _ := os.ReadDir(dir)
	root := ""
	for _, e := range ents {
		d, err := os.ReadFile(filepath.Join(dir, e.Name()))
		if err != nil {
			continue
		}
		files[e.Name()] = d
		if strings.HasPrefix(e.Name(), "root.") {
			root = e.Name()
		}
	}
	if root == "" {
		return outcome{Kind: "crash", Msg: "no root document in " + dir}
	}
	return runDoc(files[root], files, func(opts *gen.Options) {
		if _, err := opts.Parser.SetLocation(filepath.Join(dir, root), gen.RemoteOptions{}); err != nil {
			panic("harness: " + err.Error())
		}
		opts.Parser.AllowRemote = true
	})
}

func runDoc(data []byte, files map[string][]byte, setup func(*gen.Options)) (o outcome) {
	lines := bytes.Split(data, []byte("\n"))
	o.NLines = len(lines)
	defer func() {
		if e := recover(); e != nil {
			o.Kind, o.Msg = "panic", firstLine(fmt.Sprint(e))+" @ "+panicSite()
			if os.Getenv("VERIF_STACK") != "" {
				buf := make([]byte, 1<<18)
				os.Stderr.Write(buf[:runtime.Stack(buf, false)])
			}
		}
		if o.Located && len(o.Locs) == 0 && o.Line >= 1 && o.Line <= len(lines) {
			o.LineLen = len(lines[o.Line-1])
		}
		if o.Locs == nil {
			o.Locs = []locRec{}
		}
	}()
	fail := func(err error) outcome {
		o.Kind, o.Msg = "err", firstLine(err.Error())
		o.Locs = collectLocs(err, files)
		if len(o.Locs) > 0 {
			o.Located, o.Line, o.Col = true, o.Locs[0].Line, o.Locs[0].Col
			o.NLines, o.LineLen = o.Locs[0].NLines, o.Locs[0].LineLen
			return o
		}
		var se *yaml.SyntaxError
		if errors.As(err, &se) && se.Line != 0 {
			o.Located, o.Line, o.Col = true, se.Line, 1
		}
		return o
	}
	spec, err := ogen.Parse(data)
	if err != nil {
		return fail(err)
	}
	opts := gen.Options{}
	setup(&opts)
	opts.Generator.IgnoreNotImplemented = []string{"all"}
	g, err := gen.NewGenerator(spec, opts)
	if err != nil {
		return fail(err)
	}
	if err := g.WriteSource(memFS{}, "api"); err != nil {
		return fail(err)
	}
	o.Kind = "ok"
	return o
}

// panicSite names the innermost ogen frame of the current panic.
func panicSite() string {
	buf := make([]byte, 1<<18)
	buf = buf[:runtime.Stack(buf, false)]
	lines := strings.Split(string(buf), "\n")
	// deferred handlers that re-panic sit above the original panic: start below the last one
	from := 0
	for i, l := range lines {
		if strings.HasPrefix(l, "panic(") || strings.HasPrefix(l, "runtime.sigpanic") || strings.HasPrefix(l, "runtime.goPanic") || strings.HasPrefix(l, "runtime.panic") {
			from = i
		}
	}
	for i := from; i < len(lines); i++ {
		l := lines[i]
		if strings.Contains(l, "github.com/ogen-go/ogen") && !strings.Contains(l, "verif/") && i+1 < len(lines) {
			return strings.TrimSpace(l) + " " + strings.TrimSpace(lines[i+1])
		}
	}
	return ""
}

// Worker is the child-process entry point: case files from argv, one result line each.
func Worker(args []string) {
	// address-space cap: a runaway allocation kills this process, not the machine
	lim := syscall.Rlimit{Cur: 12 << 30, Max: 12 << 30}
	syscall.Setrlimit(syscall.RLIMIT_AS, &lim)
	w := bufio.NewWriter(os.Stdout)
	for _, f := range args {
		var o outcome
		if st, err := os.Stat(f); err == nil && st.IsDir() {
			o = runMulti(f)
		} else {
			data, err := os.ReadFile(f)
			if err != nil {
				fmt.Fprintln(w, `{"kind":"crash"}`)
				w.Flush()
				continue
			}
			o = runOne(data)
		}
		b, _ := json.Marshal(o)
		w.Write(b)
		w.WriteByte('\n')
		w.Flush()
	}
}

// runBatch runs the files through worker processes; a case that kills or stalls its
// worker is reported as crash / timeout and the batch continues behind it.
func runBatch(files []string, perCase time.Duration) []outcome {
	out := make([]outcome, len(files))
	i := 0
	for i < len(files) {
		chunk := files[i:]
		if len(chunk) > 400 {
			chunk = chunk[:400]
		}
		self, err := os.Executable()
		if err != nil {
			self = os.Args[0]
		}
		cmd := exec.Command(self, append([]string{"-worker", "C11"}, chunk...)...)
		cmd.Dir = filepath.Dir(files[0]) // WriteSource dumps <file>.dump into the cwd on formatting errors
		stdout, _ := cmd.StdoutPipe()
		cmd.Stderr = nil
		if err := cmd.Start(); err != nil {
			for k := range chunk {
				out[i+k] = outcome{Kind: "infra", Msg: err.Error()}
			}
			i += len(chunk)
			continue
		}
		results := make(chan string, len(chunk))
		go func() {
			sc := bufio.NewScanner(stdout)
			sc.Buffer(make([]byte, 1<<20), 1<<24)
			for sc.Scan() {
				results <- sc.Text()
			}
			close(results)
		}()
		done := 0
		killed := ""
	loop:
		for done < len(chunk) {
			select {
			case line, ok := <-results:
				if !ok {
					break loop
				}
				var o outcome
				if json.Unmarshal([]byte(line), &o) != nil {
					o = outcome{Kind: "crash", Msg: "bad worker line"}
				}
				out[i+done] = o
				done++
			case <-time.After(perCase):
				killed = "timeout"
				cmd.Process.Kill()
				break loop
			}
		}
		cmd.Process.Kill()
		cmd.Wait()
		if done < len(chunk) {
			if killed == "" {
				killed = "crash"
			}
			out[i+done] = outcome{Kind: killed}
			done++
		}
		i += done
	}
	return out
}

// ---- mutation of yaml.Node trees --------------------------------------------------------

type site struct {
	parent *yaml.Node
	idx    int // index of the value in parent.Content (mapping: the value slot; sequence: the item)
	kind   string
	path   string
	segs   []string
}

func kindOf(n *yaml.Node) string {
	switch n.Kind {
	case yaml.MappingNode:
		return "map"
	case yaml.SequenceNode:
		return "seq"
	case yaml.ScalarNode:
		switch n.Tag {
		case "!!int", "!!float":
			return "number"
		case "!!bool":
			return "bool"
		case "!!null":
			return "null"
		}
		return "string"
	}
	return "other"
}

func collect(n *yaml.Node, path string, out *[]site) { collectSegs(n, path, nil, out) }

func collectSegs(n *yaml.Node, path string, segs []string, out *[]site) {
	ext := func(s string) []string { return append(append([]string{}, segs...), s) }
	switch n.Kind {
	case yaml.DocumentNode:
		for _, c := range n.Content {
			collectSegs(c, path, segs, out)
		}
	case yaml.MappingNode:
		for i := 0; i+1 < len(n.Content); i += 2 {
			p := path + "/" + n.Content[i].Value
			*out = append(*out, site{n, i + 1, kindOf(n.Content[i+1]), p, ext(n.Content[i].Value)})
			collectSegs(n.Content[i+1], p, ext(n.Content[i].Value), out)
		}
	case yaml.SequenceNode:
		for i, c := range n.Content {
			p := path + "/" + strconv.Itoa(i)
			*out = append(*out, site{n, i, kindOf(c), p, ext(strconv.Itoa(i))})
			collectSegs(c, p, ext(strconv.Itoa(i)), out)
		}
	}
}

// focusPositions lists the starts of the nodes on the way from the root of the document
// to the node segs leads to (keys and values) and of every node below it; when the way
// ends early (the node was deleted or an enclosing node changed kind) the deepest node
// reached stands for it. ok=false when the text cannot be walked (aliases, not YAML).
func focusPositions(data []byte, segs []string) (map[[2]int]bool, bool) {
	var doc yaml.Node
	if yaml.Unmarshal(data, &doc) != nil || doc.Kind != yaml.DocumentNode || len(doc.Content) != 1 {
		return nil, false
	}
	out := map[[2]int]bool{}
	cur := doc.Content[0]
	out[[2]int{cur.Line, cur.Column}] = true
walk:
	for _, sg := range segs {
		switch cur.Kind {
		case yaml.MappingNode:
			for i := 0; i+1 < len(cur.Content); i += 2 {
				if cur.Content[i].Value == sg {
					out[[2]int{cur.Content[i].Line, cur.Content[i].Column}] = true
					cur = cur.Content[i+1]
					out[[2]int{cur.Line, cur.Column}] = true
					continue walk
				}
			}
			break walk
		case yaml.SequenceNode:
			i, err := strconv.Atoi(sg)
			if err != nil || i < 0 || i >= len(cur.Content) {
				break walk
			}
			cur = cur.Content[i]
			out[[2]int{cur.Line, cur.Column}] = true
		case yaml.AliasNode:
			return nil, false
		default:
			break walk
		}
	}
	var below func(n *yaml.Node) bool
	below = func(n *yaml.Node) bool {
		if n.Kind == yaml.AliasNode {
			return false
		}
		out[[2]int{n.Line, n.Column}] = true
		for _, c := range n.Content {
			if !below(c) {
				return false
			}
		}
		return true
	}
	if !below(cur) {
		return nil, false
	}
	return out, true
}

func scalar(tag, v string) *yaml.Node { return &yaml.Node{Kind: yaml.ScalarNode, Tag: tag, Value: v} }

func deepNest(depth int) *yaml.Node {
	leaf := &yaml.Node{Kind: yaml.MappingNode, Tag: "!!map", Content: []*yaml.Node{scalar("!!str", "type"), scalar("!!str", "string")}}
	cur := leaf
	for i := 0; i < depth; i++ {
		cur = &yaml.Node{Kind: yaml.MappingNode, Tag: "!!map", Style: yaml.FlowStyle, Content: []*yaml.Node{scalar("!!str", "type"), scalar("!!str", "array"), scalar("!!str", "items"), cur}}
	}
	return cur
}

// apply performs op at s (on a freshly parsed tree) and reports whether it was applicable.
func apply(op string, s site, root *yaml.Node) bool {
	p := s.parent
	isMap := p.Kind == yaml.MappingNode
	set := func(n *yaml.Node) { p.Content[s.idx] = n }
	cur := p.Content[s.idx]
	switch op {
	case "delete":
		if isMap {
			p.Content = append(p.Content[:s.idx-1], p.Content[s.idx+1:]...)
		} else {
			p.Content = append(p.Content[:s.idx], p.Content[s.idx+1:]...)
		}
	case "retype_scalar":
		if cur.Kind == yaml.ScalarNode {
			if cur.Tag == "!!str" {
				set(scalar("!!int", "42"))
			} else {
				set(scalar("!!str", "forty-two"))
			}
		} else {
			set(scalar("!!int", "42"))
		}
	case "retype_map":
		if cur.Kind == yaml.MappingNode {
			return false
		}
		set(&yaml.Node{Kind: yaml.MappingNode, Tag: "!!map", Content: []*yaml.Node{scalar("!!str", "zz"), scalar("!!int", "1")}})
	case "retype_seq":
		if cur.Kind == yaml.SequenceNode {
			return false
		}
		set(&yaml.Node{Kind: yaml.SequenceNode, Tag: "!!seq", Content: []*yaml.Node{scalar("!!int", "1")}})
	case "null":
		set(scalar("!!null", "null"))
	case "break_escape":
		if !isMap || !strings.HasPrefix(p.Content[s.idx-1].Value, "/") {
			return false
		}
		k := *p.Content[s.idx-1]
		k.Value += []string{"%zz", "%4", "%", "%41%", "%2f%4", "%2f/x%", "%61%g0", "%7e%c"}[(len(k.Value)+len(s.path))%8]
		p.Content[s.idx-1] = &k
	case "dangling_ref":
		if !isMap || p.Content[s.idx-1].Value != "$ref" {
			return false
		}
		set(scalar("!!str", "#/components/schemas/NoSuchThing/deeper"))
	case "cyclic_ref":
		// make a component refer to itself
		if !isMap || !strings.Contains(s.path, "/components/") || strings.Count(s.path, "/") != 3 {
			return false
		}
		set(&yaml.Node{Kind: yaml.MappingNode, Tag: "!!map", Content: []*yaml.Node{scalar("!!str", "$ref"), scalar("!!str", "#"+s.path)}})
	case "duplicate_key":
		if !isMap {
			return false
		}
		p.Content = append(p.Content, p.Content[s.idx-1], p.Content[s.idx])
	case "big_number":
		if s.kind != "number" {
			return false
		}
		set(scalar("!!float", []string{"1e400", "99999999999999999999999", "1e-400", "1.7976931348623157e309"}[len(s.path)%4]))
	case "negative_number":
		if s.kind != "number" {
			return false
		}
		set(scalar("!!int", "-1"))
	case "nest_deep":
		if !isMap || p.Content[s.idx-1].Value != "schema" && p.Content[s.idx-1].Value != "items" {
			return false
		}
		set(deepNest(1000))
	case "cyclic_oneof", "cyclic_anyof", "cyclic_allof", "cyclic_items", "cyclic_required", "cyclic_addl", "cyclic_pair", "cyclic_two_oneof_anyof", "cyclic_two_allof_anyof", "cyclic_two_allof_oneof":
		// a schema position now refers to a component that contains itself
		if !isMap || !(p.Content[s.idx-1].Value == "schema" || p.Content[s.idx-1].Value == "items" ||
			strings.HasSuffix(s.path[:strings.LastIndex(s.path, "/")], "/components/schemas")) {
			return false
		}
		self := refTo("VerifCyc")
		str := mapping("type", scalar("!!str", "string"))
		var body *yaml.Node
		switch op {
		case "cyclic_oneof":
			body = mapping("oneOf", seq(self, str))
		case "cyclic_anyof":
			body = mapping("anyOf", seq(self, mapping("type", scalar("!!str", "integer"))))
		case "cyclic_allof":
			body = mapping("allOf", seq(self, mapping("type", scalar("!!str", "object"))))
		// two composition keywords in one schema, the cycle running through the second
		case "cyclic_two_oneof_anyof":
			body = mapping("oneOf", seq(str, mapping("type", scalar("!!str", "integer"))), "anyOf", seq(self, mapping("type", scalar("!!str", "boolean"))))
		case "cyclic_two_allof_anyof":
			body = mapping("allOf", seq(mapping("type", scalar("!!str", "object"))), "anyOf", seq(self, str))
		case "cyclic_two_allof_oneof":
			body = mapping("allOf", seq(mapping("type", scalar("!!str", "object"))), "oneOf", seq(self, str))
		case "cyclic_items":
			body = mapping("type", scalar("!!str", "array"), "items", self)
		case "cyclic_required":
			body = mapping("type", scalar("!!str", "object"), "required", seq(scalar("!!str", "x")), "properties", mapping("x", self))
		case "cyclic_addl":
			body = mapping("type", scalar("!!str", "object"), "additionalProperties", self)
		default:
			body = refTo("VerifCyc2")
			if !addSchema(root, "VerifCyc2", self) {
				return false
			}
		}
		if !addSchema(root, "VerifCyc", body) {
			return false
		}
		set(refTo("VerifCyc"))
	case "unknown_name":
		// a place that refers to a declared thing by its name now names an undeclared one
		n := len(s.segs)
		switch {
		case isMap && n >= 3 && s.segs[n-3] == "security" && cur.Kind == yaml.SequenceNode:
			// a security requirement: {scheme: [scopes]}
			k := *p.Content[s.idx-1]
			k.Value += "Undeclared"
			p.Content[s.idx-1] = &k
			s.segs[n-1] = k.Value
		case isMap && n >= 3 && s.segs[n-3] == "links" && s.segs[n-1] == "operationId" && cur.Kind == yaml.ScalarNode:
			set(scalar("!!str", cur.Value+"Undeclared"))
		case isMap && n >= 3 && s.segs[n-2] == "mapping" && s.segs[n-3] == "discriminator" && cur.Kind == yaml.ScalarNode:
			set(scalar("!!str", cur.Value+"Undeclared"))
		default:
			return false
		}
	case "wrong_enum_value":
		// an element of an enum becomes a value of another type
		n := len(s.segs)
		if isMap || n < 2 || s.segs[n-2] != "enum" || cur.Kind != yaml.ScalarNode || cur.Tag == "!!null" {
			return false
		}
		if cur.Tag == "!!str" {
			set(scalar("!!int", "42"))
		} else {
			set(scalar("!!str", "forty-two"))
		}
	case "odd_string":
		// a string value becomes a string that names are rarely made of
		if cur.Kind != yaml.ScalarNode || cur.Tag != "!!str" {
			return false
		}
		odd := []string{"\uFFFDa", "", "a b", "-", "\u00e9", "0", "a/b", "%", "\u2028x", "type"}
		set(&yaml.Node{Kind: yaml.ScalarNode, Tag: "!!str", Style: yaml.DoubleQuotedStyle, Value: odd[(len(s.path)+len(cur.Value))%len(odd)]})
	case "tuple_null", "tuple_scalar":
		if !isMap || p.Content[s.idx-1].Value != "items" {
			return false
		}
		if op == "tuple_null" {
			set(seq(scalar("!!null", "null"), mapping("type", scalar("!!str", "string"))))
		} else {
			set(seq(mapping("type", scalar("!!str", "string")), scalar("!!int", "42")))
		}
	default:
		return false
	}
	return true
}

func mapping(kv ...any) *yaml.Node {
	n := &yaml.Node{Kind: yaml.MappingNode, Tag: "!!map"}
	for i := 0; i+1 < len(kv); i += 2 {
		n.Content = append(n.Content, scalar("!!str", kv[i].(string)), kv[i+1].(*yaml.Node))
	}
	return n
}

func seq(items ...*yaml.Node) *yaml.Node {
	return &yaml.Node{Kind: yaml.SequenceNode, Tag: "!!seq", Content: items}
}

func refTo(name string) *yaml.Node {
	return mapping("$ref", scalar("!!str", "#/components/schemas/"+name))
}

func child(m *yaml.Node, key string, create bool) *yaml.Node {
	if m == nil || m.Kind != yaml.MappingNode {
		return nil
	}
	for i := 0; i+1 < len(m.Content); i += 2 {
		if m.Content[i].Value == key {
			return m.Content[i+1]
		}
	}
	if !create {
		return nil
	}
	c := mapping()
	m.Content = append(m.Content, scalar("!!str", key), c)
	return c
}

// addSchema adds components.schemas.<name> to the document.
func addSchema(root *yaml.Node, name string, body *yaml.Node) bool {
	doc := root
	if doc.Kind == yaml.DocumentNode && len(doc.Content) == 1 {
		doc = doc.Content[0]
	}
	schemas := child(child(doc, "components", true), "schemas", true)
	if schemas == nil || schemas.Kind != yaml.MappingNode {
		return false
	}
	schemas.Content = append(schemas.Content, scalar("!!str", name), body)
	return true
}

var ops = []string{"delete", "retype_scalar", "retype_map", "retype_seq", "null", "break_escape", "dangling_ref", "cyclic_ref", "duplicate_key", "big_number", "negative_number", "nest_deep",
	"cyclic_oneof", "cyclic_anyof", "cyclic_allof", "cyclic_items", "cyclic_required", "cyclic_addl", "cyclic_pair", "tuple_null", "tuple_scalar", "unknown_name", "wrong_enum_value", "odd_string",
	"cyclic_two_oneof_anyof", "cyclic_two_allof_anyof", "cyclic_two_allof_oneof"}

// toJSON spells a node tree as JSON text; ok=false when it has no JSON spelling.
func toJSON(n *yaml.Node, b *strings.Builder, depth int) bool {
	if depth > 3000 {
		return false
	}
	switch n.Kind {
	case yaml.DocumentNode:
		return len(n.Content) == 1 && toJSON(n.Content[0], b, depth)
	case yaml.MappingNode:
		seen := map[string]bool{}
		b.WriteByte('{')
		for i := 0; i+1 < len(n.Content); i += 2 {
			k := n.Content[i]
			if k.Kind != yaml.ScalarNode || seen[k.Value] {
				return false
			}
			seen[k.Value] = true
			if i > 0 {
				b.WriteByte(',')
			}
			kb, _ := json.Marshal(k.Value)
			b.Write(kb)
			b.WriteByte(':')
			if !toJSON(n.Content[i+1], b, depth+1) {
				return false
			}
		}
		b.WriteByte('}')
	case yaml.SequenceNode:
		b.WriteByte('[')
		for i, c := range n.Content {
			if i > 0 {
				b.WriteByte(',')
			}
			if !toJSON(c, b, depth+1) {
				return false
			}
		}
		b.WriteByte(']')
	case yaml.ScalarNode:
		switch n.Tag {
		case "!!null":
			b.WriteString("null")
		case "!!bool":
			if strings.EqualFold(n.Value, "true") {
				b.WriteString("true")
			} else {
				b.WriteString("false")
			}
		case "!!int", "!!float":
			if json.Valid([]byte(n.Value)) {
				b.WriteString(n.Value)
			} else {
				return false
			}
		default:
			sb, _ := json.Marshal(n.Value)
			b.Write(sb)
		}
	default:
		return false
	}
	return true
}

type fcase struct {
	spec, op, kind, path string
	yamlFile, jsonFile   string
	segs                 []string // the way to the place of the fault in the mutated document
}

func corpusFiles() []string {
	var out []string
	for _, g := range []string{"_testdata/positive/*", "_testdata/examples/*"} {
		m, _ := filepath.Glob(filepath.Join(core.RepoDir, g))
		sort.Strings(m)
		for _, f := range m {
			st, err := os.Stat(f)
			if err != nil || st.IsDir() || st.Size() == 0 || st.Size() > 60<<10 {
				continue
			}
			out = append(out, f)
		}
	}
	return out
}

// Check is the C11 entry point.
func Check(r *core.Run) error {
	r.SetRule("spec/GenOutcome.tla admits only ok / error as terminal outcomes (no Panic, Hang, StackOverflow or OutOfMemory transition exists), demands that every position a diagnostic names is in a file of the document set, exists in it and is the start of one of its nodes, that for faults which make the node itself name something undeclared (dangling $ref, broken escape in a path key, undeclared security scheme / link operation / discriminator target) some named position lies on the way from the root to that node or below it, that the unmutated control documents are accepted, and that YAML and JSON spellings of the same data end alike. " +
		"Fault enumeration: 24 structural operators (delete, retype to scalar/map/seq, null, broken escapes in a path key, dangling $ref, self-referring component, component containing itself through oneOf/anyOf/allOf/items/required property/additionalProperties/two-component ring placed at schema positions, tuple items with null/scalar element, undeclared names at referring places, enum elements of another type, unusual strings, duplicate key, out-of-range and negative numbers, 1000-deep nesting) are applied at eligible nodes of every small corpus document " +
		"(quick: a seeded sample per operator and document; thorough: every eligible node), at every eligible node of a host document and of the referenced file of a two-file set (both tiers), plus seeded byte-level mutations; each mutated document is spelled as YAML and, where expressible, JSON and run through ogen.Parse -> gen.NewGenerator -> WriteSource in a child process under a per-case watchdog and an address-space limit; TLC judges every case. " +
		"Non-trivial = the fault changed the outcome or produced a diagnostic; distinct = (operator, node kind, outcome class, located).")
	perOp, nBytes := 3, 6
	if r.Thorough() {
		perOp, nBytes = 1<<30, 150
	}
	res, err := tlc.Run(nil, tlc.Options{SpecDir: obs.SpecDir, Module: "GenOutcomeMC", Timeout: 5 * time.Minute, Scratch: r.Scratch, Workers: 2,
		Cfg: tlc.Cfg("CONSTANTS NLines = 3", " LineLen = 3", "INIT Init", "NEXT Next", "INVARIANTS Total Control Attrib", "CHECK_DEADLOCK FALSE")})
	if err != nil {
		return err
	}
	if res.Violated != "" {
		return fmt.Errorf("%w: GenOutcomeMC violates %s", tlc.ErrInfra, res.Violated)
	}
	r.AddStates(res.Distinct, res.Generated)
	dir := filepath.Join(r.Scratch, "cases")
	os.MkdirAll(dir, 0o755)
	rng := rand.New(rand.NewPCG(uint64(r.Seed), 0xC11))
	var cases []fcase
	add := func(c fcase, y []byte, j []byte) {
		n := len(cases)
		c.yamlFile = filepath.Join(dir, fmt.Sprintf("c%d.yml", n))
		os.WriteFile(c.yamlFile, y, 0o644)
		if j != nil {
			c.jsonFile = filepath.Join(dir, fmt.Sprintf("c%d.json", n))
			os.WriteFile(c.jsonFile, j, 0o644)
		}
		cases = append(cases, c)
	}
	nDeepDocs, maxDeepDocs := 0, 1
	if r.Thorough() {
		maxDeepDocs = 20
	}
	// enumerate applies every operator at up to perOp eligible nodes of the document
	enumerate := func(name string, data []byte, perOp int, emit func(c fcase, root *yaml.Node) bool) {
		var probe yaml.Node
		if yaml.Unmarshal(data, &probe) != nil {
			return
		}
		var sites []site
		collect(&probe, "", &sites)
		for _, op := range ops {
			idxs := rng.Perm(len(sites))
			applied := 0
			limit := perOp
			if op == "nest_deep" {
				// each deep-nesting case costs tens of seconds of generator time (see the recorded
				// finding): a few documents, one or two sites each
				limit = 0
				if nDeepDocs < maxDeepDocs {
					limit = 1
					if r.Thorough() {
						limit = 2
					}
					nDeepDocs++
				}
			}
			for _, si := range idxs {
				if applied >= limit {
					break
				}
				var root yaml.Node
				if yaml.Unmarshal(data, &root) != nil {
					break
				}
				var fresh []site
				collect(&root, "", &fresh)
				if si >= len(fresh) || !apply(op, fresh[si], &root) {
					continue
				}
				segs := fresh[si].segs
				if op == "break_escape" && len(segs) > 0 {
					segs = segs[:len(segs)-1] // the key itself changed: its mapping stands for it
				}
				if emit(fcase{spec: name, op: op, kind: fresh[si].kind, path: fresh[si].path, segs: segs}, &root) {
					applied++
				}
			}
		}
	}
	files := corpusFiles()
	r.Cov("corpus_documents", len(files))
	for _, f := range files {
		data, err := os.ReadFile(f)
		if err != nil {
			continue
		}
		var probe yaml.Node
		if yaml.Unmarshal(data, &probe) != nil {
			continue
		}
		// control: the unmutated document in both spellings
		{
			y, err := yaml.Marshal(&probe)
			if err == nil {
				var jb strings.Builder
				var j []byte
				if toJSON(&probe, &jb, 0) {
					j = []byte(jb.String())
				}
				if runOne(y).Kind != "ok" {
					r.CovAdd("corpus_documents_not_self_contained", 1)
					continue // needs other files or is refused as is: not a valid starting point
				}
				add(fcase{spec: filepath.Base(f), op: "none", kind: "doc"}, y, j)
			}
		}
		enumerate(filepath.Base(f), data, perOp, func(c fcase, root *yaml.Node) bool {
			y, err := yaml.Marshal(root)
			if err != nil {
				return false
			}
			var jb strings.Builder
			var j []byte
			if toJSON(root, &jb, 0) {
				j = []byte(jb.String())
			}
			add(c, y, j)
			return true
		})
		for k := 0; k < nBytes; k++ {
			b := append([]byte{}, data...)
			for m := 0; m < 1+rng.IntN(3); m++ {
				switch rng.IntN(4) {
				case 0:
					if len(b) > 1 {
						i := rng.IntN(len(b))
						b = append(b[:i], b[i+1:]...)
					}
				case 1:
					b[rng.IntN(len(b))] = byte(rng.IntN(256))
				case 2:
					i := rng.IntN(len(b))
					b = append(b[:i], append([]byte([]string{"{", "[", ":", "- ", "\"", "'", "&a ", "*a", "!!binary ", "\t", "%", "$ref", "\x00", "\xff", "|", ">"}[rng.IntN(16)]), b[i:]...)...)
				default:
					i := rng.IntN(len(b))
					j := i + rng.IntN(len(b)-i)
					b = append(b[:i], b[j:]...)
				}
			}
			add(fcase{spec: filepath.Base(f), op: "bytes", kind: "doc"}, b, nil)
		}
	}
	// the host documents: every operator at every eligible node, in both tiers
	nCorpusCases := len(cases)
	{
		if o := runOne([]byte(hostAll)); o.Kind != "ok" {
			return fmt.Errorf("%w: host document refused: %s", tlc.ErrInfra, o.Msg)
		}
		add(fcase{spec: "host-all", op: "none", kind: "doc"}, []byte(hostAll), nil)
		nDeepDocs = maxDeepDocs - 1
		enumerate("host-all", []byte(hostAll), 1<<30, func(c fcase, root *yaml.Node) bool {
			y, err := yaml.Marshal(root)
			if err != nil {
				return false
			}
			var jb strings.Builder
			var j []byte
			if toJSON(root, &jb, 0) {
				j = []byte(jb.String())
			}
			add(c, y, j)
			return true
		})
		add(fcase{spec: "host-more", op: "none", kind: "doc"}, []byte(hostMore), nil)
		nDeepDocs = maxDeepDocs
		enumerate("host-more", []byte(hostMore), 1<<30, func(c fcase, root *yaml.Node) bool {
			y, err := yaml.Marshal(root)
			if err != nil {
				return false
			}
			var jb strings.Builder
			var j []byte
			if toJSON(root, &jb, 0) {
				j = []byte(jb.String())
			}
			add(c, y, j)
			return true
		})
		// a document whose scalar values spell the names of the keys next to them
		if o := runOne([]byte(hostEcho)); o.Kind != "ok" {
			return fmt.Errorf("%w: host document (echo) refused: %s", tlc.ErrInfra, o.Msg)
		}
		add(fcase{spec: "host-echo", op: "none", kind: "doc"}, []byte(hostEcho), nil)
		enumerate("host-echo", []byte(hostEcho), 1<<30, func(c fcase, root *yaml.Node) bool {
			y, err := yaml.Marshal(root)
			if err != nil {
				return false
			}
			var jb strings.Builder
			var j []byte
			if toJSON(root, &jb, 0) {
				j = []byte(jb.String())
			}
			add(c, y, j)
			return true
		})
		// the two-file set: faults are placed in ext, root stays as it is
		var rootNode yaml.Node
		if err := yaml.Unmarshal([]byte(strings.ReplaceAll(hostRoot, "ext.yml", "ext.json")), &rootNode); err != nil {
			return err
		}
		var rj strings.Builder
		if !toJSON(&rootNode, &rj, 0) {
			return fmt.Errorf("%w: root host has no JSON spelling", tlc.ErrInfra)
		}
		addMulti := func(c fcase, extY, extJ []byte) {
			n := len(cases)
			c.yamlFile = filepath.Join(dir, fmt.Sprintf("m%d.y", n))
			os.MkdirAll(c.yamlFile, 0o755)
			os.WriteFile(filepath.Join(c.yamlFile, "root.yml"), []byte(hostRoot), 0o644)
			os.WriteFile(filepath.Join(c.yamlFile, "ext.yml"), extY, 0o644)
			if extJ != nil {
				c.jsonFile = filepath.Join(dir, fmt.Sprintf("m%d.j", n))
				os.MkdirAll(c.jsonFile, 0o755)
				os.WriteFile(filepath.Join(c.jsonFile, "root.json"), []byte(rj.String()), 0o644)
				os.WriteFile(filepath.Join(c.jsonFile, "ext.json"), extJ, 0o644)
			}
			cases = append(cases, c)
		}
		spell := func(root *yaml.Node) (y, j []byte, ok bool) {
			y, err := yaml.Marshal(root)
			if err != nil {
				return nil, nil, false
			}
			var jb strings.Builder
			if toJSON(root, &jb, 0) {
				j = []byte(jb.String())
			}
			return y, j, true
		}
		var extNode yaml.Node
		if err := yaml.Unmarshal([]byte(hostExt), &extNode); err != nil {
			return err
		}
		y0, j0, _ := spell(&extNode)
		addMulti(fcase{spec: "host-multi", op: "none", kind: "doc"}, y0, j0)
		nDeepDocs = maxDeepDocs // no deep nesting here
		enumerate("host-multi", []byte(hostExt), 1<<30, func(c fcase, root *yaml.Node) bool {
			if strings.HasPrefix(c.path, "/x-pad") {
				return false
			}
			y, j, ok := spell(root)
			if !ok {
				return false
			}
			addMulti(c, y, j)
			return true
		})
	}
	r.Cov("host_document_cases", len(cases)-nCorpusCases)
	r.Cov("fault_cases", len(cases))
	var yfiles, jfiles []string
	var jIdx []int
	for i, c := range cases {
		yfiles = append(yfiles, c.yamlFile)
		if c.jsonFile != "" {
			jfiles = append(jfiles, c.jsonFile)
			jIdx = append(jIdx, i)
		}
	}
	// run in parallel slices
	par := 12
	runAll := func(fs []string) []outcome {
		// round-robin distribution: slow cases do not pile up in one worker
		out := make([]outcome, len(fs))
		ch := make(chan int, par)
		for w := 0; w < par; w++ {
			go func(w int) {
				var mine []string
				var idx []int
				for i := w; i < len(fs); i += par {
					mine = append(mine, fs[i])
					idx = append(idx, i)
				}
				if len(mine) > 0 {
					for k, o := range runBatch(mine, 60*time.Second) {
						out[idx[k]] = o
					}
				}
				ch <- w
			}(w)
		}
		for w := 0; w < par; w++ {
			<-ch
		}
		return out
	}
	// the witness of the recorded deep-nesting finding runs beside the batches with its own watchdog
	witness := make(chan outcome, 1)
	go func() {
		var b strings.Builder
		b.WriteString(`{"openapi":"3.0.3","info":{"title":"t","version":"1"},"paths":{"/a":{"get":{"responses":{"200":{"description":"ok","content":{"application/json":{"schema":{"$ref":"#/components/schemas/S"}}}}}}}},"components":{"schemas":{"S":`)
		b.WriteString(strings.Repeat(`{"type":"array","items":`, 1000) + `{"type":"string"}` + strings.Repeat("}", 1000))
		b.WriteString("}}}")
		f := filepath.Join(dir, "witness-deep.json")
		os.WriteFile(f, []byte(b.String()), 0o644)
		witness <- runBatch([]string{f}, 25*time.Second)[0]
	}()
	yo := runAll(yfiles)
	jo := runAll(jfiles)
	wo := <-witness
	cases = append(cases, fcase{spec: "witness", op: "nest_deep", kind: "map", path: "/components/schemas/S (1000 nested arrays)"})
	yo = append(yo, wo)
	jout := make([]*outcome, len(cases))
	for k, i := range jIdx {
		jout[i] = &jo[k]
	}
	var lines [][]byte
	var desc []string
	nLocs, nExtLocs := 0, 0
	// onPath relates the named positions to the place of the fault
	onPath := func(c fcase, file string, o *outcome) {
		o.OnPath, o.OnPathIn = true, true
		if c.segs == nil || o.Kind != "err" || len(o.Locs) == 0 {
			return
		}
		var data []byte
		extOnly := false
		if st, err := os.Stat(file); err == nil && st.IsDir() {
			extOnly = true
			for _, n := range []string{"ext.yml", "ext.json"} {
				if d, err := os.ReadFile(filepath.Join(file, n)); err == nil {
					data = d
				}
			}
		} else {
			data, _ = os.ReadFile(file)
		}
		pos, ok := focusPositions(data, c.segs)
		if !ok {
			return
		}
		o.OnPath = false
		for _, x := range o.Locs {
			if extOnly && !strings.HasPrefix(filepath.Base(x.File), "ext.") {
				continue
			}
			if pos[[2]int{x.Line, x.Col}] {
				o.OnPath = true
			}
		}
		if in := o.Locs[len(o.Locs)-1]; !extOnly || strings.HasPrefix(filepath.Base(in.File), "ext.") {
			o.OnPathIn = pos[[2]int{in.Line, in.Col}]
		}
	}
	offPath := map[string][2]int{}
	for i, c := range cases {
		y := yo[i]
		j := outcome{Kind: "na", Locs: []locRec{}, OnPath: true, OnPathIn: true}
		if jout[i] != nil {
			j = *jout[i]
			onPath(c, c.jsonFile, &j)
		}
		onPath(c, c.yamlFile, &y)
		if os.Getenv("VERIF_C11_ONPATH_STATS") != "" && (y.Kind == "err" && !y.Located || j.Kind == "err" && !j.Located) {
			fmt.Fprintf(os.Stderr, "UNLOCATED %s %s %s y=%s/%v j=%s/%v %s || %s\n", c.spec, c.op, c.path, y.Kind, y.Located, j.Kind, j.Located, y.Msg, j.Msg)
		}
		if os.Getenv("VERIF_C11_ONPATH_STATS") != "" && y.Kind == "err" && len(y.Locs) > 0 {
			st := offPath[c.op]
			st[0]++
			if !y.OnPathIn || !j.OnPathIn {
				fmt.Fprintf(os.Stderr, "OFFPATH-INNERMOST %s %s %s y=%v j=%v %s\n", c.spec, c.op, c.path, y.OnPathIn, j.OnPathIn, y.Msg)
			}
			if !y.OnPath || !j.OnPath {
				st[1]++
				fmt.Fprintf(os.Stderr, "OFFPATH %s %s %s y=%v %d:%d j=%v %d:%d %s\n", c.spec, c.op, c.path, y.OnPath, y.Line, y.Col, j.OnPath, j.Line, j.Col, y.Msg)
			}
			offPath[c.op] = st
		}
		nLocs += len(y.Locs) + len(j.Locs)
		for _, x := range append(append([]locRec{}, y.Locs...), j.Locs...) {
			if strings.HasPrefix(x.File, "ext.") || strings.Contains(x.File, "/ext.") {
				nExtLocs++
			}
		}
		if y.Locs == nil {
			y.Locs = []locRec{}
		}
		if j.Locs == nil {
			j.Locs = []locRec{}
		}
		b, _ := json.Marshal(map[string]any{"op": c.op, "node": c.kind, "y": y, "j": j, "hasJson": jout[i] != nil})
		lines = append(lines, b)
		desc = append(desc, fmt.Sprintf("%s: %s at %s (%s node) -> YAML: %s located=%v %d:%d %s | JSON: %s located=%v %d:%d %s", c.spec, c.op, c.path, c.kind, y.Kind, y.Located, y.Line, y.Col, y.Msg, j.Kind, j.Located, j.Line, j.Col, j.Msg))
		if y.Kind != "ok" || c.op == "none" {
			r.Nontrivial(fmt.Sprintf("%s|%s|%s|%v", c.op, c.kind, y.Kind, y.Located))
		}
		if i%400 == 7 {
			r.Sample(desc[len(desc)-1])
		}
	}
	if os.Getenv("VERIF_C11_ONPATH_STATS") != "" {
		for op, st := range offPath {
			fmt.Fprintf(os.Stderr, "OFFPATH-STATS %s located=%d offpath=%d\n", op, st[0], st[1])
		}
	}
	r.Cov("diagnostic_positions_judged", nLocs)
	r.Cov("diagnostic_positions_in_referenced_file", nExtLocs)
	r.AddEvals(int64(len(yfiles) + len(jfiles)))
	r.AddTraces(int64(len(cases)))
	vs, err := obs.Check(r, lines, obs.CheckOpts{Module: "GenOutcomeCheck", Cfg: obs.StdCfg("KnownDeviations = " + r.KnownSet()), ChunkSize: 8000})
	if err != nil {
		return err
	}
	for _, v := range vs {
		if strings.HasPrefix(v.Kind, "known=") {
			r.KnownHit(strings.TrimPrefix(v.Kind, "known="), firstLine(desc[v.Index]))
			continue
		}
		if strings.HasPrefix(v.Kind, "harness") || strings.HasSuffix(v.Kind, "-infra") {
			r.Infra("%s: %s", v.Kind, desc[v.Index])
			continue
		}
		c := cases[v.Index]
		keep := filepath.Join(core.VerifDir, "evidence", "replays", fmt.Sprintf("C11-case-%d.yml", v.Index))
		os.MkdirAll(filepath.Dir(keep), 0o755)
		if st, err := os.Stat(c.yamlFile); err == nil && st.IsDir() && r.NumViolations() < 20 {
			// a document set: keep the directory
			keep = strings.TrimSuffix(keep, ".yml")
			os.MkdirAll(keep, 0o755)
			ents, _ := os.ReadDir(c.yamlFile)
			for _, e := range ents {
				if data, err := os.ReadFile(filepath.Join(c.yamlFile, e.Name())); err == nil {
					os.WriteFile(filepath.Join(keep, e.Name()), data, 0o644)
				}
			}
		} else if data, err := os.ReadFile(c.yamlFile); err == nil && r.NumViolations() < 20 {
			os.WriteFile(keep, data, 0o644)
		}
		r.Violate(desc[v.Index]+": "+v.Kind, map[string]any{"spec": c.spec, "op": c.op, "path": c.path, "document": keep})
	}
	return nil
}

func firstLine(s string) string {
	if i := strings.IndexByte(s, '\n'); i >= 0 {
		s = s[:i]
	}
	if len(s) > 200 {
		s = s[:200]
	}
	return s
}

// Replay runs the stored document of a replay file through the worker path.
func Replay(r *core.Run, path string) error {
	b, err := os.ReadFile(path)
	if err != nil {
		return err
	}
	var f struct {
		Case struct {
			Document string `json:"document"`
		} `json:"case"`
	}
	if err := json.Unmarshal(b, &f); err != nil {
		return err
	}
	r.SetRule("replay of one stored document")
	o := runBatch([]string{f.Case.Document}, 60*time.Second)[0]
	if o.Locs == nil {
		o.Locs = []locRec{}
	}
	r.AddEvals(1)
	r.Sample(o)
	r.Nontrivial("replay|" + o.Kind)
	r.Nontrivial("replay")
	o.OnPath = true
	line, _ := json.Marshal(map[string]any{"op": "bytes", "node": "doc", "y": o, "j": outcome{Kind: "na", Locs: []locRec{}, OnPath: true}, "hasJson": false})
	vs, err := obs.Check(r, [][]byte{line}, obs.CheckOpts{Module: "GenOutcomeCheck", Cfg: obs.StdCfg("KnownDeviations = " + r.KnownSet())})
	if err != nil {
		return err
	}
	for _, v := range vs {
		r.Violate(fmt.Sprintf("%s -> %s %s: %s", f.Case.Document, o.Kind, o.Msg, v.Kind), f.Case)
	}
	return nil
}
