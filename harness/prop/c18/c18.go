// Package c18 decides C18 (json.Equal is semantic equality) — spec/JSONEqual*.tla.
package c18

import (
	stdjson "encoding/json"
	"fmt"
	"math/rand/v2"
	"os"
	"strconv"
	"strings"
	"time"

	"github.com/ogen-go/ogen"
	"github.com/ogen-go/ogen/gen"
	ogenjson "github.com/ogen-go/ogen/json"
	"github.com/ogen-go/ogen/jsonpointer"
	"github.com/ogen-go/ogen/jsonschema"
	"github.com/ogen-go/ogen/openapi/parser"

	"verif/internal/bx"
	"verif/internal/core"
	"verif/internal/obs"
	"verif/internal/tlc"
)

// sp is a spelling as defined in spec/JSONEqual.tla.
type sp map[string]any

type observation struct {
	Sa   stdjson.RawMessage `json:"sa"`
	Sb   stdjson.RawMessage `json:"sb"`
	Ta   []int              `json:"ta"`
	Tb   []int              `json:"tb"`
	AB   string             `json:"ab"`
	BA   string             `json:"ba"`
	AA   string             `json:"aa"`
	Mal  bool               `json:"mal"`
	Enum string             `json:"enum"`
	// Red: for two number texts, whether the generator's default-response reduction
	// (gen/reduce.go compareNum) took two responses that differ only in this bound for
	// the same one: "folded" | "kept" | "err" | "na"
	Red string `json:"red"`
	// Doc: outcome of the same enum written in a JSON document that goes through the
	// loader (ogen.Parse) and the OpenAPI parser: "dup" | "ok" | "err" | "na"; F64: both
	// texts are numbers that round to the same float64
	Doc string `json:"doc"`
	F64 bool   `json:"f64"`
	// Sm, Tm, Enum3: a third value (taken from another vector, placed between the two; its text
	// sorts between theirs when such a vector is near) and the outcome of the enum [a, m, b]:
	// a repeated value has to be found wherever it stands
	Sm    stdjson.RawMessage `json:"sm"`
	Tm    []int              `json:"tm"`
	Enum3 string             `json:"enum3"`
}

func equal(a, b string) (res string) {
	defer func() {
		if e := recover(); e != nil {
			res = "panic"
		}
	}()
	ok, err := ogenjson.Equal([]byte(a), []byte(b))
	switch {
	case err != nil:
		return "err"
	case ok:
		return "true"
	}
	return "false"
}

func enumOutcome(members ...string) (res string) {
	defer func() {
		if e := recover(); e != nil {
			res = "panic"
		}
	}()
	p := jsonschema.NewParser(jsonschema.Settings{})
	var enum jsonschema.Enum
	for _, m := range members {
		enum = append(enum, stdjson.RawMessage(m))
	}
	_, err := p.Parse(&jsonschema.RawSchema{Enum: enum}, jsonpointer.NewResolveCtx(nil, 10))
	switch {
	case err == nil:
		return "ok"
	case strings.Contains(err.Error(), "duplicate enum value"):
		return "dup"
	}
	return "err"
}

func isNumberText(t string) bool {
	if t == "" {
		return false
	}
	c := t[0]
	return (c == '-' || c >= '0' && c <= '9') && stdjson.Valid([]byte(t))
}

// reduceOutcome builds a document with two operations whose only responses are inline
// default responses {type: number, minimum: a} and {type: number, minimum: b} and tells
// whether the generator folded them into one convenient error type.
func reduceOutcome(a, b string) (res string) {
	defer func() {
		if e := recover(); e != nil {
			res = "panic"
		}
	}()
	op := func(id, min string) *ogen.PathItem {
		return &ogen.PathItem{Get: &ogen.Operation{OperationID: id, Responses: ogen.Responses{
			"200": &ogen.Response{Description: "ok"},
			"default": &ogen.Response{Description: "err", Content: map[string]ogen.Media{
				"application/json": {Schema: &ogen.Schema{Type: "number", Minimum: ogen.Num(min)}}}}}}}
	}
	spec := &ogen.Spec{OpenAPI: "3.0.3", Info: ogen.Info{Title: "t", Version: "1"},
		Paths: ogen.Paths{"/a": op("a", a), "/b": op("b", b)}}
	g, err := gen.NewGenerator(spec, gen.Options{})
	if err != nil {
		return "err"
	}
	for name := range g.Types() {
		if strings.HasPrefix(name, "ErrResp") {
			return "folded"
		}
	}
	return "kept"
}

// docEnumOutcome writes the enum into a document text and loads it the way cmd/ogen does.
func docEnumOutcome(a, b string) (res string) {
	defer func() {
		if e := recover(); e != nil {
			res = "panic"
		}
	}()
	doc := `{"openapi":"3.0.3","info":{"title":"t","version":"1"},"paths":{},"components":{"schemas":{"E":{"enum":[` + a + `,` + b + `]}}}}`
	spec, err := ogen.Parse([]byte(doc))
	if err == nil {
		_, err = parser.Parse(spec, parser.Settings{})
	}
	switch {
	case err == nil:
		return "ok"
	case strings.Contains(err.Error(), "duplicate enum value"):
		return "dup"
	}
	return "err"
}

func sameFloat64(a, b string) bool {
	x, e1 := strconv.ParseFloat(a, 64)
	y, e2 := strconv.ParseFloat(b, 64)
	// ParseFloat reports a range error together with +-Inf / 0: the rounding still counts
	_ = e1
	_ = e2
	return x == y
}

var nullSp = stdjson.RawMessage(`{"t":"lit","v":"null"}`)

func observe(sa, sb stdjson.RawMessage, ta, tb string, withEnum bool) observation {
	o := observation{Sa: sa, Sb: sb, Ta: bx.Ints(ta), Tb: bx.Ints(tb), Enum: "na", Red: "na", Doc: "na", Sm: nullSp, Tm: []int{}, Enum3: "na"}
	o.AB, o.BA, o.AA = equal(ta, tb), equal(tb, ta), equal(ta, ta)
	if withEnum {
		o.Enum = enumOutcome(ta, tb)
		if isNumberText(ta) && isNumberText(tb) {
			o.Red = reduceOutcome(ta, tb)
			o.F64 = sameFloat64(ta, tb)
			// numbers only: what the loader does to other texts (line separators inside
			// strings, member order) is the business of C17
			o.Doc = docEnumOutcome(ta, tb)
		}
	}
	return o
}

// ---- Go-side renderer for seeded random spellings (TLC re-checks Text(sp) = text) ----

func digits(ds []int) string {
	var b strings.Builder
	for _, d := range ds {
		b.WriteByte(byte('0' + d))
	}
	return b.String()
}

func ints(v any) []int {
	switch x := v.(type) {
	case []int:
		return x
	case []any:
		out := make([]int, len(x))
		for i := range x {
			out[i] = int(x[i].(float64))
		}
		return out
	}
	return nil
}

var shortEsc = map[int]byte{34: '"', 92: '\\', 47: '/', 8: 'b', 12: 'f', 10: 'n', 13: 'r', 9: 't'}

func text(s sp) string {
	var b strings.Builder
	switch s["t"] {
	case "lit":
		b.WriteString(s["v"].(string))
	case "num":
		if s["neg"].(bool) {
			b.WriteByte('-')
		}
		b.WriteString(digits(ints(s["ip"])))
		if fp := ints(s["fp"]); len(fp) > 0 {
			b.WriteByte('.')
			b.WriteString(digits(fp))
		}
		if ex := s["ex"].(string); ex != "" {
			b.WriteString(ex)
			b.WriteString(s["es"].(string))
			b.WriteString(digits(ints(s["ed"])))
		}
	case "str":
		b.WriteByte('"')
		for _, it := range s["items"].([]sp) {
			c := it["c"].(int)
			switch it["f"] {
			case "raw":
				b.WriteString(string(rune(c)))
			case "u":
				fmt.Fprintf(&b, "\\u%04x", c)
			case "U":
				fmt.Fprintf(&b, "\\u%04X", c)
			case "s":
				b.WriteByte('\\')
				b.WriteByte(shortEsc[c])
			}
		}
		b.WriteByte('"')
	case "arr":
		ws := s["ws"].(bool)
		b.WriteByte('[')
		if ws {
			b.WriteByte(' ')
		}
		for i, v := range s["vals"].([]sp) {
			if i > 0 {
				if ws {
					b.WriteString(" ,\n")
				} else {
					b.WriteByte(',')
				}
			}
			b.WriteString(text(v))
		}
		if ws {
			b.WriteByte('\t')
		}
		b.WriteByte(']')
	case "obj":
		ws := s["ws"].(bool)
		b.WriteByte('{')
		if ws {
			b.WriteByte('\n')
		}
		keys := s["keys"].([]sp)
		for i, v := range s["vals"].([]sp) {
			if i > 0 {
				if ws {
					b.WriteString("\r, ")
				} else {
					b.WriteByte(',')
				}
			}
			b.WriteString(text(keys[i]))
			if ws {
				b.WriteString(" : ")
			} else {
				b.WriteByte(':')
			}
			b.WriteString(text(v))
		}
		if ws {
			b.WriteByte(' ')
		}
		b.WriteByte('}')
	}
	return b.String()
}

// abstract random value; spelled several ways
type val struct {
	kind string // lit num str arr obj
	lit  string
	neg  bool
	ds   []int // significant digits, no leading/trailing zeros (empty = zero)
	exp  int
	cps  []int
	vals []val
	keys [][]int
}

func randDigits(rng *rand.Rand, n int) []int {
	ds := make([]int, n)
	for i := range ds {
		ds[i] = rng.IntN(10)
	}
	if n > 0 {
		if ds[0] == 0 {
			ds[0] = 1 + rng.IntN(9)
		}
		if ds[n-1] == 0 {
			ds[n-1] = 1 + rng.IntN(9)
		}
	}
	return ds
}

var cpPool = []int{65, 97, 98, 47, 34, 92, 10, 9, 32, 49, 233, 769, 8364, 48, 127, 1, 31, 8232, 65279}

func randVal(rng *rand.Rand, depth int) val {
	k := rng.IntN(10)
	if depth == 0 && k >= 7 {
		k = rng.IntN(7)
	}
	switch {
	case k == 0:
		return val{kind: "lit", lit: []string{"null", "true", "false"}[rng.IntN(3)]}
	case k <= 3:
		v := val{kind: "num", neg: rng.IntN(4) == 0}
		switch rng.IntN(6) {
		case 0: // zero
		case 1: // around 2^53
			v.ds = []int{9, 0, 0, 7, 1, 9, 9, 2, 5, 4, 7, 4, 0, 9, 9, 1 + rng.IntN(4)}
		case 2: // long fraction
			v.ds = randDigits(rng, 17+rng.IntN(5))
			v.exp = -len(v.ds) + rng.IntN(3)
		case 3: // huge / tiny exponent
			v.ds = randDigits(rng, 1+rng.IntN(3))
			v.exp = []int{400, 399, -400, -399, 308, -324, 22}[rng.IntN(7)]
		default:
			v.ds = randDigits(rng, 1+rng.IntN(4))
			v.exp = rng.IntN(7) - 3
		}
		return v
	case k <= 6:
		n := rng.IntN(4)
		v := val{kind: "str"}
		for i := 0; i < n; i++ {
			v.cps = append(v.cps, cpPool[rng.IntN(len(cpPool))])
		}
		return v
	case k <= 7:
		n := rng.IntN(4)
		v := val{kind: "arr"}
		for i := 0; i < n; i++ {
			v.vals = append(v.vals, randVal(rng, depth-1))
		}
		return v
	default:
		n := rng.IntN(4)
		v := val{kind: "obj"}
		names := [][]int{{97}, {98}, {}, {97, 47}, {233}, {34}}
		perm := rng.Perm(len(names))
		for i := 0; i < n; i++ {
			v.keys = append(v.keys, names[perm[i]])
			v.vals = append(v.vals, randVal(rng, depth-1))
		}
		return v
	}
}

func spellStr(rng *rand.Rand, cps []int) sp {
	items := []sp{}
	for _, c := range cps {
		forms := []string{"u", "U"}
		if c >= 32 && c != 34 && c != 92 {
			forms = append(forms, "raw", "raw", "raw")
		}
		if _, ok := shortEsc[c]; ok {
			forms = append(forms, "s", "s")
		}
		items = append(items, sp{"c": c, "f": forms[rng.IntN(len(forms))]})
	}
	return sp{"t": "str", "items": items}
}

// spellNum writes ds * 10^exp in a random but value-preserving form.
func spellNum(rng *rand.Rand, v val) sp {
	s := sp{"t": "num", "neg": v.neg, "ip": []int{0}, "fp": []int{}, "ex": "", "es": "", "ed": []int{}}
	if len(v.ds) == 0 {
		if rng.IntN(2) == 0 {
			s["fp"] = make([]int, 1+rng.IntN(3))
		}
		if rng.IntN(3) == 0 {
			s["ex"], s["ed"] = "e", []int{rng.IntN(10)}
		}
		return s
	}
	ds := append([]int{}, v.ds...)
	exp := v.exp
	// optional trailing zeros
	for i := rng.IntN(3); i > 0; i-- {
		ds = append(ds, 0)
		exp--
	}
	// choose the position of the decimal point: k digits in the integer part
	k := 1 + rng.IntN(len(ds))
	if rng.IntN(3) == 0 {
		k = len(ds)
	}
	ip, fp := ds[:k], ds[k:]
	e := exp + len(fp)
	if rng.IntN(4) == 0 && e > 0 && e <= 6 && len(fp) == 0 { // plain integer with zeros
		ip = append(append([]int{}, ip...), make([]int, e)...)
		e = 0
	}
	if rng.IntN(4) == 0 && len(ip) > 0 { // 0.xxx form
		fp = append(append([]int{}, ip...), fp...)
		e += len(ip)
		ip = []int{0}
	}
	s["ip"], s["fp"] = ip, fp
	if e != 0 || rng.IntN(4) == 0 {
		s["ex"] = []string{"e", "E"}[rng.IntN(2)]
		if e < 0 {
			s["es"] = "-"
			e = -e
		} else if rng.IntN(2) == 0 {
			s["es"] = "+"
		}
		var ed []int
		for _, c := range fmt.Sprint(e) {
			ed = append(ed, int(c-'0'))
		}
		if rng.IntN(4) == 0 {
			ed = append([]int{0}, ed...)
		}
		s["ed"] = ed
	}
	return s
}

func spell(rng *rand.Rand, v val, shuffle bool) sp {
	switch v.kind {
	case "lit":
		return sp{"t": "lit", "v": v.lit}
	case "num":
		return spellNum(rng, v)
	case "str":
		return spellStr(rng, v.cps)
	case "arr":
		vals := []sp{}
		for _, x := range v.vals {
			vals = append(vals, spell(rng, x, shuffle))
		}
		return sp{"t": "arr", "vals": vals, "ws": rng.IntN(2) == 0}
	default:
		idx := make([]int, len(v.vals))
		for i := range idx {
			idx[i] = i
		}
		if shuffle {
			rng.Shuffle(len(idx), func(i, j int) { idx[i], idx[j] = idx[j], idx[i] })
		}
		keys, vals := []sp{}, []sp{}
		for _, i := range idx {
			keys = append(keys, spellStr(rng, v.keys[i]))
			vals = append(vals, spell(rng, v.vals[i], shuffle))
		}
		return sp{"t": "obj", "keys": keys, "vals": vals, "ws": rng.IntN(2) == 0}
	}
}

// mutate changes exactly one leaf (near-equal mutant).
func mutate(rng *rand.Rand, v val) val {
	switch v.kind {
	case "lit":
		v.lit = map[string]string{"null": "false", "true": "false", "false": "true"}[v.lit]
	case "num":
		switch {
		case len(v.ds) == 0:
			v.ds, v.exp = []int{1}, []int{0, -400, -1}[rng.IntN(3)]
		case rng.IntN(3) == 0:
			v.exp++
		case rng.IntN(2) == 0:
			v.neg = !v.neg
		default:
			ds := append([]int{}, v.ds...)
			i := len(ds) - 1
			ds[i] = ds[i]%9 + 1
			v.ds = ds
		}
	case "str":
		if len(v.cps) == 0 || rng.IntN(3) == 0 {
			v.cps = append(append([]int{}, v.cps...), 65)
		} else {
			c := append([]int{}, v.cps...)
			c[rng.IntN(len(c))] ^= 1
			v.cps = c
		}
	case "arr", "obj":
		if len(v.vals) == 0 {
			v.vals = []val{{kind: "lit", lit: "null"}}
			if v.kind == "obj" {
				v.keys = [][]int{{122}}
			}
		} else {
			vs := append([]val{}, v.vals...)
			i := rng.IntN(len(vs))
			vs[i] = mutate(rng, vs[i])
			v.vals = vs
		}
	}
	return v
}

func malformed(rng *rand.Rand, t string) (string, bool) {
	var m string
	switch rng.IntN(4) {
	case 0:
		if len(t) < 2 {
			return "", false
		}
		m = t[:1+rng.IntN(len(t)-1)]
	case 1:
		m = t + []string{"x", "]", "}", ",", " 1", "\"", ":"}[rng.IntN(7)]
	case 2:
		i := rng.IntN(len(t) + 1)
		m = t[:i] + []string{",", ":", "\x00", "'", "+"}[rng.IntN(5)] + t[i:]
	default:
		m = strings.Replace(t, "null", "nul", 1)
		if m == t {
			m = strings.Replace(t, "true", "tru", 1)
		}
	}
	if m == t || stdjson.Valid([]byte(m)) {
		return "", false
	}
	return m, true
}

func cfg(r *core.Run) string { return obs.StdCfg("KnownDeviations = " + r.KnownSet()) }

// Check is the C18 entry point.
func Check(r *core.Run) error {
	r.SetRule("TLC emits every unordered pair of a 219-spelling domain (numbers incl. 2^53+1, 1e400, 1e-400, -0, 1.0/1e0/10e-1; strings with \\u / short escapes / UTF-8; " +
		"arrays and objects with blanks, member order, repeated names, nesting) together with both texts; Go calls json.Equal(a,b), (b,a), (a,a) and the schema parser's enum " +
		"duplicate detection; TLC recomputes Den() of both spellings and judges. Seeded random values are spelled twice plus a one-leaf mutant, and malformed byte-mutants must never compare true. " +
		"Non-trivial = the two texts differ byte-wise; distinct = distinct (type pair, expected-equal, observed) classes plus distinct number-spelling shape pairs.")
	nRand := 3000
	if r.Thorough() {
		nRand = 60000
	}
	// model level
	mc := func(devs string) (*tlc.Result, error) {
		return tlc.Run(nil, tlc.Options{SpecDir: obs.SpecDir, Module: "JSONEqualMC", Timeout: 10 * time.Minute, Scratch: r.Scratch, Workers: 8, Heap: "8g",
			Cfg: tlc.Cfg("CONSTANTS Devs = "+devs, "INIT Init", "NEXT Next", "INVARIANTS Refines Symmetric Reflexive RefinesDup", "CHECK_DEADLOCK FALSE")})
	}
	res, err := mc("{}")
	if err != nil {
		return err
	}
	if res.Violated != "" {
		return fmt.Errorf("%w: JSONEqualMC: %s\n%s", tlc.ErrInfra, res.Violated, tlc.Tail(res, 25))
	}
	r.AddStates(res.Distinct, res.Generated)
	r.Cov("mc_states", res.Distinct)
	if res, err = mc(`{"Dev_DupKeyAsymmetry"}`); err != nil {
		return err
	} else if res.Violated == "" {
		return fmt.Errorf("%w: JSONEqualMC accepts Dev_DupKeyAsymmetry: vacuous", tlc.ErrInfra)
	}

	// B1: enumerated pairs
	const parts = 8
	var cfgs []string
	for p := 0; p < parts; p++ {
		cfgs = append(cfgs, tlc.Cfg("CONSTANTS", fmt.Sprintf(" Part = %d", p), fmt.Sprintf(" Parts = %d", parts), "INIT Init", "NEXT Next"))
	}
	vecs, err := obs.EmitParallel(r, "JSONEqualEmit", cfgs, 15*time.Minute)
	if err != nil {
		return err
	}
	r.Cov("enumerated_pairs", len(vecs))
	r.SetExhaustive(true)
	var all []observation
	nBetween := 0
	firstText := make([]string, len(vecs))
	for i, l := range vecs {
		var w struct {
			Ta []int `json:"ta"`
		}
		if stdjson.Unmarshal(l, &w) == nil {
			firstText[i] = bx.Str(w.Ta)
		}
	}
	for i, l := range vecs {
		var v struct {
			Sa stdjson.RawMessage `json:"sa"`
			Sb stdjson.RawMessage `json:"sb"`
			Ta []int              `json:"ta"`
			Tb []int              `json:"tb"`
		}
		if err := stdjson.Unmarshal(l, &v); err != nil {
			return err
		}
		o := observe(v.Sa, v.Sb, bx.Str(v.Ta), bx.Str(v.Tb), true)
		// a third member from a vector nearby, preferably one whose text sorts strictly between
		if len(vecs) > 1 {
			lo, hi := bx.Str(v.Ta), bx.Str(v.Tb)
			if lo > hi {
				lo, hi = hi, lo
			}
			pick := (i + 1) % len(vecs)
			for d := 1; d <= 400; d++ {
				found := false
				for _, k := range []int{i + d, i - d} {
					if k >= 0 && k < len(vecs) && firstText[k] > lo && firstText[k] < hi {
						pick, found = k, true
						nBetween++
						break
					}
				}
				if found {
					break
				}
			}
			var w struct {
				Sa stdjson.RawMessage `json:"sa"`
				Ta []int              `json:"ta"`
			}
			if stdjson.Unmarshal(vecs[pick], &w) == nil && len(w.Ta) > 0 {
				o.Sm, o.Tm = w.Sa, w.Ta
				o.Enum3 = enumOutcome(bx.Str(v.Ta), bx.Str(o.Tm), bx.Str(v.Tb))
			}
		}
		all = append(all, o)
		if i%4000 == 5 {
			r.Sample(map[string]any{"a": bx.Str(v.Ta), "b": bx.Str(v.Tb), "ab": o.AB, "ba": o.BA, "enum": o.Enum})
		}
	}
	// regression inputs of fixed findings and malformed classics
	for _, p := range [][2]string{{"1 x", "1"}, {"nul", "null"}, {"[1]", "[1]]"}, {"truex", "true"}, {`"a"`, `"a"x`}, {"[1,]", "[1]"}, {"01", "1"}, {"1.", "1"}, {"-", "-"}, {"", ""}, {"{", "{"}} {
		o := observe(nullSp, nullSp, p[0], p[1], false)
		o.Mal = true
		all = append(all, o)
	}
	// seeded random values
	rng := rand.New(rand.NewPCG(uint64(r.Seed), 0xC18))
	nMal := 0
	for i := 0; i < nRand; i++ {
		v := randVal(rng, 2)
		s1, s2 := spell(rng, v, false), spell(rng, v, true)
		s3 := spell(rng, mutate(rng, v), true)
		j1, _ := stdjson.Marshal(s1)
		j2, _ := stdjson.Marshal(s2)
		j3, _ := stdjson.Marshal(s3)
		t1, t2, t3 := text(s1), text(s2), text(s3)
		all = append(all, observe(j1, j2, t1, t2, i%4 == 0), observe(j1, j3, t1, t3, i%4 == 0))
		if m, ok := malformed(rng, t2); ok {
			o := observe(nullSp, nullSp, m, t1, false)
			o.Mal = true
			all = append(all, o)
			nMal++
		}
		if i%1000 == 1 {
			r.Sample(map[string]any{"a": t1, "respelled": t2, "mutant": t3})
		}
	}
	r.Cov("three_member_enums_with_the_third_text_between", nBetween)
	r.Cov("random_values", nRand)
	r.Cov("malformed_texts", nMal)
	lines := make([][]byte, len(all))
	for i, o := range all {
		lines[i], _ = stdjson.Marshal(o)
		if bx.Str(o.Ta) != bx.Str(o.Tb) {
			r.Nontrivial(fmt.Sprintf("%s|%s|%s|%s|%v|%s", shape(bx.Str(o.Ta)), shape(bx.Str(o.Tb)), o.AB, o.BA, o.Mal, o.Enum))
		}
	}
	red := map[string]int{}
	for _, o := range all {
		red[o.Red]++
	}
	r.Cov("reduction_pairs_folded", red["folded"])
	r.Cov("reduction_pairs_kept", red["kept"])
	r.Cov("reduction_pairs_generator_error", red["err"])
	r.AddEvals(int64(len(all)))
	vs, err := obs.Check(r, lines, obs.CheckOpts{Module: "JSONEqualCheck", Cfg: cfg(r), ChunkSize: 6000})
	if err != nil {
		return err
	}
	for _, v := range vs {
		o := all[v.Index]
		what := fmt.Sprintf("json.Equal(%q, %q) = %s, swapped = %s, reflexive = %s, enum = %s, default-response reduction = %s, enum in a loaded document = %s, enum with %q between the two = %s", bx.Str(o.Ta), bx.Str(o.Tb), o.AB, o.BA, o.AA, o.Enum, o.Red, o.Doc, bx.Str(o.Tm), o.Enum3)
		switch {
		case v.Kind == "drift":
			r.Drift(what)
		case strings.HasPrefix(v.Kind, "known="):
			r.KnownHit(strings.TrimPrefix(v.Kind, "known="), what)
		case v.Kind == "viol":
			r.Violate(what+": outside the outcomes spec/JSONEqual.tla admits", map[string]any{"obs": o})
		default:
			r.Infra("%s: %s", v.Kind, what)
		}
	}
	if r.Thorough() {
		for _, o := range all {
			if !o.Mal && o.AB == "true" && bx.Str(o.Ta) != bx.Str(o.Tb) {
				c := o
				c.AB = "false"
				b, _ := stdjson.Marshal(c)
				vs, err := obs.Check(r, [][]byte{b}, obs.CheckOpts{Module: "JSONEqualCheck", Cfg: obs.StdCfg("KnownDeviations = {}")})
				if err != nil {
					return err
				}
				if len(vs) != 1 || vs[0].Kind != "viol" {
					return fmt.Errorf("%w: binding self-test: corrupted observation accepted", tlc.ErrInfra)
				}
				r.Cov("binding_selftest", "corrupted observation rejected")
				break
			}
		}
	}
	return nil
}

// shape abstracts a JSON text for counting distinct classes.
func shape(t string) string {
	var b strings.Builder
	for i := 0; i < len(t) && b.Len() < 10; i++ {
		c := t[i]
		switch {
		case c >= '1' && c <= '9':
			if b.Len() == 0 || b.String()[b.Len()-1] != 'd' {
				b.WriteByte('d')
			}
		case c == ' ' || c == '\n' || c == '\t' || c == '\r':
		case c >= 'a' && c <= 'z' && c != 'e' && c != 'u':
			if b.Len() == 0 || b.String()[b.Len()-1] != 'x' {
				b.WriteByte('x')
			}
		default:
			b.WriteByte(c)
		}
	}
	return b.String()
}

// Replay re-runs one stored case.
func Replay(r *core.Run, path string) error {
	b, err := os.ReadFile(path)
	if err != nil {
		return err
	}
	var f struct {
		Case struct {
			Obs observation `json:"obs"`
		} `json:"case"`
	}
	if err := stdjson.Unmarshal(b, &f); err != nil {
		return err
	}
	r.SetRule("replay of one stored case")
	o := f.Case.Obs
	n := observe(o.Sa, o.Sb, bx.Str(o.Ta), bx.Str(o.Tb), o.Enum != "na")
	n.Mal = o.Mal
	r.AddEvals(1)
	r.Sample(n)
	l, _ := stdjson.Marshal(n)
	vs, err := obs.Check(r, [][]byte{l}, obs.CheckOpts{Module: "JSONEqualCheck", Cfg: cfg(r)})
	if err != nil {
		return err
	}
	for _, v := range vs {
		if v.Kind == "viol" {
			r.Violate(fmt.Sprintf("json.Equal(%q, %q) = %s / %s", bx.Str(n.Ta), bx.Str(n.Tb), n.AB, n.BA), map[string]any{"obs": n})
		}
	}
	return nil
}
