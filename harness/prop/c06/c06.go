// Package c06 decides C06 (parameter serialization follows the style table and is
// lossless) — spec/ParamStyle*.tla. The public uri encoders/decoders are driven with
// the same callback shapes the templates emit.
package c06

import (
	"encoding/json"
	"fmt"
	"math/rand/v2"
	"net/http"
	"net/url"
	"os"
	"sort"
	"strings"
	"time"

	"github.com/ogen-go/ogen"
	"github.com/ogen-go/ogen/gen"
	"github.com/ogen-go/ogen/openapi/parser"
	"github.com/ogen-go/ogen/uri"

	"verif/internal/bx"
	"verif/internal/core"
	"verif/internal/obs"
	"verif/internal/tlc"
)

type cfgT struct {
	Loc     string `json:"loc"`
	Style   string `json:"style"`
	Explode bool   `json:"explode"`
	Shape   string `json:"shape"`
}

type valT struct {
	Shape string    `json:"shape"`
	Prim  []int     `json:"prim"`
	Arr   [][]int   `json:"arr"`
	Obj   [][][]int `json:"obj"`
}

type qent struct {
	K  []int   `json:"k"`
	Vs [][]int `json:"vs"`
}

type observation struct {
	K        string    `json:"k"`
	Loc      string    `json:"loc"`
	Style    string    `json:"style"`
	Explode  bool      `json:"explode"`
	Shape    string    `json:"shape"`
	Admitted bool      `json:"admitted"`
	Prim     []int     `json:"prim"`
	Arr      [][]int   `json:"arr"`
	Obj      [][][]int `json:"obj"`
	Enc      string    `json:"enc"`
	Raw      []int     `json:"raw"`
	Text     []int     `json:"text"`
	QMap     []qent    `json:"qmap"`
	Dec      string    `json:"dec"`
	DPrim    []int     `json:"dprim"`
	DArr     [][]int   `json:"darr"`
	DObj     [][][]int `json:"dobj"`
}

func blank(c cfgT) observation {
	return observation{Loc: c.Loc, Style: c.Style, Explode: c.Explode, Shape: c.Shape,
		Prim: []int{}, Arr: [][]int{}, Obj: [][][]int{}, Enc: "none", Raw: []int{}, Text: []int{}, QMap: []qent{},
		Dec: "na", DPrim: []int{}, DArr: [][]int{}, DObj: [][][]int{}}
}

// ---- admission on the real parser + generator ------------------------------------

func schemaFor(shape string) string {
	switch shape {
	case "arr":
		return "{type: array, items: {type: string}}"
	case "obj":
		return "{type: object, properties: {r: {type: string}, n: {type: string}}}"
	}
	return "{type: string}"
}

func admitted(c cfgT) (ok bool, panicked bool) {
	defer func() {
		if e := recover(); e != nil {
			ok, panicked = false, true
		}
	}()
	path := "/x"
	if c.Loc == "path" {
		path = "/x/{id}"
	}
	required := c.Loc == "path"
	doc := fmt.Sprintf(`openapi: 3.0.3
info: {title: t, version: "1"}
paths:
  %s:
    get:
      operationId: op
      parameters:
        - name: id
          in: %s
          required: %v
          style: %s
          explode: %v
          schema: %s
      responses:
        "200": {description: ok}
`, path, c.Loc, required, c.Style, c.Explode, schemaFor(c.Shape))
	spec, err := ogen.Parse([]byte(doc))
	if err != nil {
		return false, false
	}
	_, err = gen.NewGenerator(spec, gen.Options{})
	return err == nil, false
}

// defaults parses a parameter whose style (when style == "") and explode are left out and
// returns what the parser chose; ok=false when the document is refused.
func defaults(loc, style, shape string) (st string, explode bool, ok bool) {
	defer func() {
		if e := recover(); e != nil {
			ok = false
		}
	}()
	path := "/x"
	if loc == "path" {
		path = "/x/{id}"
	}
	styleLine := ""
	if style != "" {
		styleLine = "\n          style: " + style
	}
	doc := fmt.Sprintf(`openapi: 3.0.3
info: {title: t, version: "1"}
paths:
  %s:
    get:
      operationId: op
      parameters:
        - name: id
          in: %s
          required: %v%s
          schema: %s
      responses:
        "200": {description: ok}
`, path, loc, loc == "path", styleLine, schemaFor(shape))
	spec, err := ogen.Parse([]byte(doc))
	if err != nil {
		return "", false, false
	}
	api, err := parser.Parse(spec, parser.Settings{})
	if err != nil || len(api.Operations) != 1 || len(api.Operations[0].Parameters) != 1 {
		return "", false, false
	}
	p := api.Operations[0].Parameters[0]
	return string(p.Style), p.Explode, true
}

// ---- codecs ---------------------------------------------------------------------

func feed(v valT) func(uri.Encoder) error {
	return func(e uri.Encoder) error {
		switch v.Shape {
		case "prim":
			return e.EncodeValue(bx.Str(v.Prim))
		case "arr":
			return e.EncodeArray(func(e uri.Encoder) error {
				for _, it := range v.Arr {
					if err := e.EncodeValue(bx.Str(it)); err != nil {
						return err
					}
				}
				return nil
			})
		default:
			// generated EncodeURI calls EncodeField once per declared property; the callback of
			// an unset optional property encodes nothing
			unset := func(uri.Encoder) error { return nil }
			if err := e.EncodeField("zz_unset_first", unset); err != nil {
				return err
			}
			for _, f := range v.Obj {
				val := bx.Str(f[1])
				if err := e.EncodeField(bx.Str(f[0]), func(e uri.Encoder) error { return e.EncodeValue(val) }); err != nil {
					return err
				}
			}
			return e.EncodeField("zz_unset_last", unset)
		}
	}
}

func read(shape string, o *observation) func(uri.Decoder) error {
	return func(d uri.Decoder) error {
		switch shape {
		case "prim":
			s, err := d.DecodeValue()
			if err != nil {
				return err
			}
			o.DPrim = bx.Ints(s)
			return nil
		case "arr":
			return d.DecodeArray(func(d uri.Decoder) error {
				s, err := d.DecodeValue()
				if err != nil {
					return err
				}
				o.DArr = append(o.DArr, bx.Ints(s))
				return nil
			})
		default:
			return d.DecodeFields(func(name string, d uri.Decoder) error {
				s, err := d.DecodeValue()
				if err != nil {
					return err
				}
				o.DObj = append(o.DObj, [][]int{bx.Ints(name), bx.Ints(s)})
				return nil
			})
		}
	}
}

func guard(dst *string, f func() error) {
	defer func() {
		if e := recover(); e != nil {
			*dst = "panic"
		}
	}()
	if err := f(); err != nil {
		if *dst == "enc?" {
			*dst = "refused"
		} else {
			*dst = "err"
		}
		return
	}
	*dst = "ok"
}

func roundTrip(c cfgT, v valT) observation {
	o := blank(c)
	o.K = "val"
	o.Prim, o.Arr, o.Obj = v.Prim, v.Arr, v.Obj
	if o.Prim == nil {
		o.Prim = []int{}
	}
	if o.Arr == nil {
		o.Arr = [][]int{}
	}
	if o.Obj == nil {
		o.Obj = [][][]int{}
	}
	o.Enc = "enc?"
	var fields []uri.QueryParameterObjectField
	for _, f := range v.Obj {
		fields = append(fields, uri.QueryParameterObjectField{Name: bx.Str(f[0])})
	}
	switch c.Loc {
	case "path":
		var raw string
		guard(&o.Enc, func() error {
			e := uri.NewPathEncoder(uri.PathEncoderConfig{Param: "id", Style: uri.PathStyle(c.Style), Explode: c.Explode})
			if err := feed(v)(e); err != nil {
				return err
			}
			var err error
			raw, err = e.Result()
			return err
		})
		if o.Enc != "ok" {
			return o
		}
		o.Raw = bx.Ints(raw)
		text, err := url.PathUnescape(raw)
		if err != nil {
			text = raw
		}
		o.Text = bx.Ints(text)
		guard(&o.Dec, func() error {
			d := uri.NewPathDecoder(uri.PathDecoderConfig{Param: "id", Value: text, Style: uri.PathStyle(c.Style), Explode: c.Explode})
			return read(c.Shape, &o)(d)
		})
	case "query":
		q := uri.NewQueryEncoder()
		guard(&o.Enc, func() error {
			return q.EncodeParam(uri.QueryParameterEncodingConfig{Name: "id", Style: uri.QueryStyle(c.Style), Explode: c.Explode}, feed(v))
		})
		if o.Enc != "ok" {
			return o
		}
		raw := q.Values().Encode()
		o.Raw = bx.Ints(raw)
		parsed, err := url.ParseQuery(raw)
		if err != nil {
			o.Enc = "refused"
			return o
		}
		keys := make([]string, 0, len(parsed))
		for k := range parsed {
			keys = append(keys, k)
		}
		sort.Strings(keys)
		for _, k := range keys {
			e := qent{K: bx.Ints(k), Vs: [][]int{}}
			for _, x := range parsed[k] {
				e.Vs = append(e.Vs, bx.Ints(x))
			}
			o.QMap = append(o.QMap, e)
		}
		guard(&o.Dec, func() error {
			return uri.NewQueryDecoder(parsed).DecodeParam(uri.QueryParameterDecodingConfig{Name: "id", Style: uri.QueryStyle(c.Style), Explode: c.Explode, Fields: fields}, read(c.Shape, &o))
		})
	case "header":
		h := http.Header{}
		guard(&o.Enc, func() error {
			return uri.NewHeaderEncoder(h).EncodeParam(uri.HeaderParameterEncodingConfig{Name: "id", Explode: c.Explode}, feed(v))
		})
		if o.Enc != "ok" {
			return o
		}
		if len(h.Values("id")) == 0 {
			// nothing was written (empty object): the parameter is absent on the wire
			o.Dec = "err"
			return o
		}
		o.Raw = bx.Ints(h.Get("id"))
		o.Text = o.Raw
		guard(&o.Dec, func() error {
			return uri.NewHeaderDecoder(h).DecodeParam(uri.HeaderParameterDecodingConfig{Name: "id", Explode: c.Explode}, read(c.Shape, &o))
		})
	case "cookie":
		req, _ := http.NewRequest(http.MethodGet, "http://x/", nil)
		guard(&o.Enc, func() error {
			return uri.NewCookieEncoder(req).EncodeParam(uri.CookieParameterEncodingConfig{Name: "id", Explode: c.Explode}, feed(v))
		})
		if o.Enc != "ok" {
			return o
		}
		raw := req.Header.Get("Cookie")
		if raw == "" {
			o.Dec = "err"
			return o
		}
		o.Raw = bx.Ints(raw)
		text, err := url.PathUnescape(strings.TrimPrefix(raw, "id="))
		if err != nil {
			text = raw
		}
		o.Text = bx.Ints(text)
		guard(&o.Dec, func() error {
			return uri.NewCookieDecoder(req).DecodeParam(uri.CookieParameterDecodingConfig{Name: "id", Explode: c.Explode}, read(c.Shape, &o))
		})
	}
	if o.Dec != "ok" {
		o.DPrim, o.DArr, o.DObj = []int{}, [][]int{}, [][][]int{}
	}
	return o
}

func ckCfg(r *core.Run) string { return obs.StdCfg("KnownDeviations = " + r.KnownSet()) }

var randAlphabet = []string{"a", "b", "Z", "0", ",", ".", ";", "=", "|", "%", " ", "/", "&", "[", "]", "?", "#", "+", "\"", "\\", "é", "\x00", "\x7f", "\xff", "~", ":", "@", "日"}

func randStr(rng *rand.Rand, max int) []int {
	n := rng.IntN(max + 1)
	var b strings.Builder
	for i := 0; i < n; i++ {
		b.WriteString(randAlphabet[rng.IntN(len(randAlphabet))])
	}
	return bx.Ints(b.String())
}

func randVal(rng *rand.Rand, shape string) valT {
	v := valT{Shape: shape, Prim: []int{}, Arr: [][]int{}, Obj: [][][]int{}}
	switch shape {
	case "prim":
		v.Prim = randStr(rng, 6)
	case "arr":
		for i := rng.IntN(5); i > 0; i-- {
			v.Arr = append(v.Arr, randStr(rng, 4))
		}
	default:
		names := []string{"r", "n", "x y", "é", "a.b", "q;", "k|", "p%", "sl/", "br[", "am&"}
		perm := rng.Perm(len(names))
		for i := rng.IntN(4); i > 0; i-- {
			v.Obj = append(v.Obj, [][]int{bx.Ints(names[perm[i]]), randStr(rng, 4)})
		}
	}
	return v
}

// Check is the C06 entry point.
func Check(r *core.Run) error {
	r.SetRule("TLC enumerates all 168 (location, style, explode, shape) combinations and a bounded value domain over {a , . ; = | % space /} (primitives, arrays of <=3 items, objects of <=2 fields " +
		"with delimiter-bearing names and values, empty strings and collections). Admission of each combination is observed on parser.Parse + gen.NewGenerator; every value is pushed through the public uri encoder " +
		"of every admitted row, the wire form is observed raw and logically (url.ParseQuery / PathUnescape / http.Header / Cookie header) and decoded by the matching decoder; TLC judges each line against " +
		"EncOK / RawOK / DecOK of spec/ParamStyle.tla. Seeded random Unicode/byte members are judged the same way. Non-trivial = the value contains a delimiter, escape-needing byte or an empty member; " +
		"distinct = distinct (row, member-class word, enc outcome, dec outcome).")
	maxPrim, nRand := 2, 400
	if r.Thorough() {
		maxPrim, nRand = 3, 12000
	}
	mc := func(devs string) (*tlc.Result, error) {
		return tlc.Run(nil, tlc.Options{SpecDir: obs.SpecDir, Module: "ParamStyleMC", Timeout: 15 * time.Minute, Scratch: r.Scratch, Workers: 8, Heap: "8g",
			Cfg: tlc.Cfg("CONSTANTS Devs = "+devs, fmt.Sprintf(" MaxPrim = %d", maxPrim), "INIT Init", "NEXT Next", "INVARIANTS RoundTrip EncodeOK", "CHECK_DEADLOCK FALSE")})
	}
	res, err := mc("{}")
	if err != nil {
		return err
	}
	if res.Violated != "" {
		return fmt.Errorf("%w: ParamStyleMC: table + ideal cursor decoder violate %s\n%s", tlc.ErrInfra, res.Violated, tlc.Tail(res, 30))
	}
	r.AddStates(res.Distinct, res.Generated)
	r.Cov("mc_states", res.Distinct)
	if res, err = mc(`{"Dev_EmptyTailEOF"}`); err != nil {
		return err
	} else if res.Violated == "" {
		return fmt.Errorf("%w: ParamStyleMC accepts Dev_EmptyTailEOF: vacuous", tlc.ErrInfra)
	}

	emit := func(mode string) ([][]byte, error) {
		return obs.Emit(r, "ParamStyleEmit", tlc.Cfg("CONSTANTS Devs = {}", fmt.Sprintf(" MaxPrim = %d", maxPrim), ` Mode = "`+mode+`"`, "INIT EInit", "NEXT ENext"), 10*time.Minute)
	}
	cl, err := emit("cfgs")
	if err != nil {
		return err
	}
	vl, err := emit("vals")
	if err != nil {
		return err
	}
	var all []observation
	var admittedCfgs []cfgT
	for _, l := range cl {
		var c cfgT
		if err := json.Unmarshal(l, &c); err != nil {
			return err
		}
		ok, panicked := admitted(c)
		o := blank(c)
		o.K, o.Admitted = "adm", ok
		if panicked {
			o.K, o.Enc = "val", "panic" // a panic while admitting is a W5 violation
		}
		all = append(all, o)
		if ok {
			admittedCfgs = append(admittedCfgs, c)
		}
	}
	// defaults: style and / or explode left out of the document; the parser's choice is
	// reported in the cfg fields, the given style (or "" = left out) in the text field
	nDflt := 0
	for _, loc := range []string{"path", "query", "header", "cookie"} {
		for _, style := range []string{"", "simple", "label", "matrix", "form", "pipeDelimited", "deepObject"} {
			for _, shape := range []string{"prim", "arr", "obj"} {
				st, ex, ok := defaults(loc, style, shape)
				if !ok {
					continue
				}
				o := blank(cfgT{Loc: loc, Style: st, Explode: ex, Shape: shape})
				o.K, o.Text = "dflt", bx.Ints(style)
				all = append(all, o)
				nDflt++
			}
		}
	}
	r.Cov("default_style_and_explode_rows", nDflt)
	r.Cov("combinations", len(cl))
	r.Cov("admitted_by_parser_and_generator", len(admittedCfgs))
	var vals []valT
	for _, l := range vl {
		var v valT
		if err := json.Unmarshal(l, &v); err != nil {
			return err
		}
		vals = append(vals, v)
	}
	r.Cov("enumerated_values", len(vals))
	r.SetExhaustive(true)
	rng := rand.New(rand.NewPCG(uint64(r.Seed), 0xC06))
	for _, c := range admittedCfgs {
		for _, v := range vals {
			if v.Shape == c.Shape {
				all = append(all, roundTrip(c, v))
			}
		}
		for i := 0; i < nRand; i++ {
			all = append(all, roundTrip(c, randVal(rng, c.Shape)))
		}
	}
	lines := make([][]byte, len(all))
	for i, o := range all {
		lines[i], _ = json.Marshal(o)
		if o.K == "val" {
			cls := classOf(o)
			if strings.ContainsAny(cls, "dxe") {
				r.Nontrivial(fmt.Sprintf("%s/%s/%v/%s|%s|%s|%s", o.Loc, o.Style, o.Explode, o.Shape, cls, o.Enc, o.Dec))
			}
		}
		if i%3000 == 17 {
			r.Sample(describe(o))
		}
	}
	r.AddEvals(int64(len(all)))
	vs, err := obs.Check(r, lines, obs.CheckOpts{Module: "ParamStyleCheck", Cfg: ckCfg(r), ChunkSize: 8000})
	if err != nil {
		return err
	}
	for _, v := range vs {
		o := all[v.Index]
		what := describe(o)
		switch {
		case v.Kind == "drift":
			r.Drift(what)
		case strings.HasPrefix(v.Kind, "known="):
			r.KnownHit(strings.TrimPrefix(v.Kind, "known="), what)
		default:
			r.Violate(what+": outside what spec/ParamStyle.tla admits", map[string]any{"obs": o})
		}
	}
	if r.Thorough() {
		for _, o := range all {
			if o.K == "val" && o.Dec == "ok" && o.Shape == "arr" && len(o.DArr) == 2 {
				c := o
				c.DArr = [][]int{o.DArr[1], o.DArr[0], {97}}
				b, _ := json.Marshal(c)
				vs, err := obs.Check(r, [][]byte{b}, obs.CheckOpts{Module: "ParamStyleCheck", Cfg: obs.StdCfg("KnownDeviations = {}")})
				if err != nil {
					return err
				}
				if len(vs) != 1 || vs[0].Kind != "viol" {
					return fmt.Errorf("%w: binding self-test: corrupted observation accepted", tlc.ErrInfra)
				}
				r.Cov("binding_selftest", "corrupted observation rejected")
				break
			}
		}
	}
	return nil
}

func describe(o observation) string {
	if o.K == "dflt" {
		given := bx.Str(o.Text)
		if given == "" {
			given = "(none)"
		}
		return fmt.Sprintf("in=%s %s parameter, document gives style %s and no explode -> parser chose style=%s explode=%v", o.Loc, o.Shape, given, o.Style, o.Explode)
	}
	if o.K == "adm" {
		return fmt.Sprintf("admission of in=%s style=%s explode=%v shape=%s: %v", o.Loc, o.Style, o.Explode, o.Shape, o.Admitted)
	}
	val := ""
	switch o.Shape {
	case "prim":
		val = fmt.Sprintf("%q", bx.Str(o.Prim))
	case "arr":
		var it []string
		for _, x := range o.Arr {
			it = append(it, fmt.Sprintf("%q", bx.Str(x)))
		}
		val = "[" + strings.Join(it, ",") + "]"
	default:
		var it []string
		for _, f := range o.Obj {
			it = append(it, fmt.Sprintf("%q:%q", bx.Str(f[0]), bx.Str(f[1])))
		}
		val = "{" + strings.Join(it, ",") + "}"
	}
	dec := ""
	switch {
	case o.Dec != "ok":
	case o.Shape == "prim":
		dec = fmt.Sprintf(" %q", bx.Str(o.DPrim))
	case o.Shape == "arr":
		for _, x := range o.DArr {
			dec += fmt.Sprintf(" %q", bx.Str(x))
		}
	default:
		for _, f := range o.DObj {
			dec += fmt.Sprintf(" %q:%q", bx.Str(f[0]), bx.Str(f[1]))
		}
	}
	return fmt.Sprintf("in=%s style=%s explode=%v %s value %s -> enc=%s wire=%q -> dec=%s%s", o.Loc, o.Style, o.Explode, o.Shape, val, o.Enc, bx.Str(o.Raw), o.Dec, dec)
}

// classOf abstracts the members of a value: d delimiter, x escape-needing, e empty, p plain.
func classOf(o observation) string {
	cls := func(s []int) byte {
		if len(s) == 0 {
			return 'e'
		}
		c := byte('p')
		for _, b := range s {
			switch {
			case strings.ContainsRune(",.;=|", rune(b)):
				return 'd'
			case b <= 32 || b >= 127 || strings.ContainsRune("%/&[]?#+\"\\", rune(b)):
				c = 'x'
			}
		}
		return c
	}
	var b []byte
	switch o.Shape {
	case "prim":
		b = append(b, cls(o.Prim))
	case "arr":
		if len(o.Arr) == 0 {
			b = append(b, 'e')
		}
		for _, x := range o.Arr {
			b = append(b, cls(x))
		}
	default:
		if len(o.Obj) == 0 {
			b = append(b, 'e')
		}
		for _, f := range o.Obj {
			b = append(b, cls(f[0]), ':', cls(f[1]))
		}
	}
	return string(b)
}

// Replay re-runs one stored case.
func Replay(r *core.Run, path string) error {
	b, err := os.ReadFile(path)
	if err != nil {
		return err
	}
	var f struct {
		Case struct {
			Obs observation `json:"obs"`
		} `json:"case"`
	}
	if err := json.Unmarshal(b, &f); err != nil {
		return err
	}
	r.SetRule("replay of one stored case")
	o := f.Case.Obs
	c := cfgT{o.Loc, o.Style, o.Explode, o.Shape}
	n := roundTrip(c, valT{Shape: o.Shape, Prim: o.Prim, Arr: o.Arr, Obj: o.Obj})
	r.AddEvals(1)
	r.Sample(describe(n))
	l, _ := json.Marshal(n)
	vs, err := obs.Check(r, [][]byte{l}, obs.CheckOpts{Module: "ParamStyleCheck", Cfg: ckCfg(r)})
	if err != nil {
		return err
	}
	for _, v := range vs {
		if v.Kind == "viol" {
			r.Violate(describe(n), map[string]any{"obs": n})
		}
	}
	return nil
}
