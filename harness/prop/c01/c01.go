// Package c01 decides C01 (generated client and server exchange values without silent
// change) — spec/Exchange*.tla.
package c01

import (
	_ "embed"
	"encoding/json"
	"fmt"
	"os"
	"path/filepath"
	"reflect"
	"strings"
	"time"

	"verif/internal/core"
	"verif/internal/gencode"
	"verif/internal/obs"
	"verif/internal/tlc"
)

//go:embed driver_main.go.txt
var driverMain string

type M = map[string]any

type cfg struct {
	Loc     string `json:"loc"`
	Style   string `json:"style"`
	Explode bool   `json:"explode"`
	Shape   string `json:"shape"`
}

type row struct {
	C  cfg    `json:"c"`
	Ty string `json:"ty"`
}

type param struct {
	row
	name  string // p<i>
	group string
}

func (p param) goName() string { return "P" + p.name[1:] }

func strOf(s string) M {
	b := []any{}
	for _, x := range []byte(s) {
		b = append(b, float64(x))
	}
	return M{"t": "str", "s": b}
}

var absent = M{"t": "absent"}

// coreValue is what every parameter that does not vary holds.
func (p param) coreValue() M {
	switch {
	case p.C.Shape == "prim" && p.Ty == "int":
		return M{"t": "int", "n": float64(5)}
	case p.C.Shape == "prim" && p.Ty == "num":
		return M{"t": "num", "x": "1.5"}
	case p.C.Shape == "prim" && p.Ty == "dt":
		return M{"t": "time", "x": "2021-06-07T08:09:10Z"}
	case p.C.Shape == "prim" && p.Ty == "date":
		return M{"t": "time", "x": "2021-06-07T00:00:00Z"}
	case p.C.Shape == "prim":
		return strOf("k")
	case p.C.Shape == "arr":
		return M{"t": "arr", "v": []any{strOf("k")}}
	}
	return M{"t": "obj", "m": []any{strOf("k"), absent}}
}

func (p param) schema() M {
	switch {
	case p.C.Shape == "prim" && p.Ty == "int":
		return M{"type": "integer"}
	case p.C.Shape == "prim" && p.Ty == "num":
		return M{"type": "number"}
	case p.C.Shape == "prim" && p.Ty == "dt":
		return M{"type": "string", "format": "date-time"}
	case p.C.Shape == "prim" && p.Ty == "date":
		return M{"type": "string", "format": "date"}
	case p.C.Shape == "prim":
		s := M{"type": "string"}
		if p.group == "dflt" {
			s["default"] = "dv"
		}
		return s
	case p.C.Shape == "arr":
		return M{"type": "array", "items": M{"type": "string"}}
	}
	return M{"type": "object", "properties": orderedProps{{"a", M{"type": "string"}}, {"b", M{"type": "string"}}}}
}

// orderedProps keeps declaration order (generated struct fields follow it).
type orderedProps []struct {
	k string
	v any
}

func (o orderedProps) MarshalJSON() ([]byte, error) {
	var b strings.Builder
	b.WriteByte('{')
	for i, kv := range o {
		if i > 0 {
			b.WriteByte(',')
		}
		k, _ := json.Marshal(kv.k)
		v, err := json.Marshal(kv.v)
		if err != nil {
			return nil, err
		}
		b.Write(k)
		b.WriteByte(':')
		b.Write(v)
	}
	b.WriteByte('}')
	return []byte(b.String()), nil
}

type op struct {
	id     string // operationId, lower case
	method string // Go method name
	params []param
}

// toGo rewrites a tagged value of the specification (objects positional) into the
// driver's form (objects by Go field name).
func toGo(v M, fields []string) M {
	switch v["t"] {
	case "obj":
		var m []any
		for i, x := range v["m"].([]any) {
			m = append(m, []any{fields[i], toGoAny(x.(M))})
		}
		return M{"t": "objn", "m": m}
	}
	return toGoAny(v)
}

func toGoAny(v M) M {
	switch v["t"] {
	case "arr":
		var items []any
		for _, x := range v["v"].([]any) {
			items = append(items, toGoAny(x.(M)))
		}
		if items == nil {
			items = []any{}
		}
		return M{"t": "arr", "v": items}
	case "obj":
		// the only nested positional objects are parameter objects {a, b}
		return toGo(v, []string{"A", "B"})
	}
	return v
}

// fromGo rewrites a value the driver projected (objects by Go field name) into the
// specification's positional form over the given field order.
func fromGo(v M, fields []string) (M, error) {
	if v == nil {
		return absent, nil
	}
	switch v["t"] {
	case "objn":
		byName := map[string]M{}
		for _, m := range v["m"].([]any) {
			kv := m.([]any)
			byName[kv[0].(string)] = kv[1].(M)
		}
		if len(byName) != len(fields) {
			return nil, fmt.Errorf("struct has fields %v, expected %v", keys(byName), fields)
		}
		var out []any
		for _, f := range fields {
			x, ok := byName[f]
			if !ok {
				return nil, fmt.Errorf("struct has fields %v, expected %v", keys(byName), fields)
			}
			y, err := fromGo(x, []string{"A", "B"})
			if err != nil {
				return nil, err
			}
			out = append(out, y)
		}
		return M{"t": "obj", "m": out}, nil
	case "arr":
		items := []any{}
		for _, x := range v["v"].([]any) {
			y, err := fromGo(x.(M), nil)
			if err != nil {
				return nil, err
			}
			items = append(items, y)
		}
		return M{"t": "arr", "v": items}, nil
	}
	return v, nil
}

func keys(m map[string]M) []string {
	var out []string
	for k := range m {
		out = append(out, k)
	}
	return out
}

var bodyFields = []string{"N", "S", "On", "L", "Dn", "U"}
var formFields = []string{"A", "N", "L", "D", "Dn"}

func emit(r *core.Run, mode string, into any) error {
	ls, err := obs.Emit(r, "ExchangeEmit", tlc.Cfg(`CONSTANT Mode = "`+mode+`"`, "INIT Init", "NEXT Next"), 10*time.Minute)
	if err != nil {
		return err
	}
	var all []json.RawMessage
	for _, l := range ls {
		all = append(all, l)
	}
	b, _ := json.Marshal(all)
	return json.Unmarshal(b, into)
}

type dcall struct {
	Method  string     `json:"method"`
	Hook    string     `json:"hook,omitempty"`
	ReqType string     `json:"reqType,omitempty"`
	HasReq  bool       `json:"hasReq"`
	Req     M          `json:"req,omitempty"`
	Params  M          `json:"params,omitempty"`
	Keys    [][]string `json:"keys"`
	Resp    *dresp     `json:"resp,omitempty"`
	Nested  *dcall     `json:"nested,omitempty"`
	ViaURL  bool       `json:"viaURL,omitempty"`
}

type dresp struct {
	Type  string `json:"type"`
	Value M      `json:"value"`
}

type dres struct {
	Outcome    string   `json:"outcome"`
	Status     int      `json:"status"`
	Handler    bool     `json:"handler"`
	HArgs      []M      `json:"hargs"`
	HTypes     []string `json:"htypes"`
	URLChanged bool     `json:"urlChanged"`
	MwSeen     bool     `json:"mwSeen"`
	MwBody     M        `json:"mwBody"`
	MwParams   []M      `json:"mwParams"`
	RType      string   `json:"rtype"`
	RVal       M        `json:"rval"`
	Err        string   `json:"err"`
}

// meta says how one driver call becomes an observation line.
type meta struct {
	kind  string
	op    *op
	vary  int // index of the varying parameter, -1: none
	sent  M
	resp  M // resp vector
	descr string
	med   *mediaCase
}

// ---- bodies with several media entries, a second response declaration, a webhook ---------

// mediaVariant is one declared media entry of an operation's body as the generated package
// spells it: the request and the response type of the variant and whether each carries a
// content type field of its own.
type mediaVariant struct {
	e                [2]string
	reqType, resType string
	reqCT, resCT     bool
	json             bool
}

type mediaOp struct {
	method   string
	D        [][2]string
	variants []mediaVariant
}

var mtJSON, mtText, mtImage = [2]string{"application", "json"}, [2]string{"text", "plain"}, [2]string{"image", "*"}

var mediaOps = []mediaOp{
	{"Neg", [][2]string{mtJSON, mtText}, []mediaVariant{
		{e: mtJSON, reqType: "NMsg", resType: "NMsg", json: true},
		{e: mtText, reqType: "NegReqTextPlain", resType: "NegOKTextPlain"}}},
	{"Mask", [][2]string{mtImage}, []mediaVariant{
		{e: mtImage, reqType: "MaskReqWithContentType", resType: "MaskOKHeaders", reqCT: true, resCT: true}}},
	{"Negmask", [][2]string{mtJSON, mtImage}, []mediaVariant{
		{e: mtJSON, reqType: "NMsg", resType: "NMsgHeaders", resCT: true, json: true},
		{e: mtImage, reqType: "NegmaskReqImageWithContentType", resType: "NegmaskOKImageHeaders", reqCT: true, resCT: true}}},
}

type mediaCase struct {
	op      *mediaOp
	dir     string // req | resp
	v       mediaVariant
	ct      string // the media type the value travels as
	payload string
}

func splitMT(ct string) []string {
	if i := strings.IndexByte(ct, '/'); i >= 0 {
		return []string{ct[:i], ct[i+1:]}
	}
	return []string{ct, ""}
}

// mediaValue builds the tagged value of one variant: the payload in its Msg / Data member,
// wrapped with the content type when the generated type has the field.
func mediaValue(v mediaVariant, hasCT bool, inner, ct, payload string) M {
	var body M
	if v.json {
		body = M{"t": "objn", "m": []any{[]any{"Msg", strOf(payload)}}}
	} else {
		body = M{"t": "objn", "m": []any{[]any{"Data", strOf(payload)}}}
	}
	if !hasCT {
		return body
	}
	return M{"t": "objn", "m": []any{[]any{"ContentType", strOf(ct)}, []any{inner, body}}}
}

// mediaParts reads a projected variant back: its content type member (if any) and the payload.
func mediaParts(v M) (ct string, hasCT bool, payload M) {
	payload = absent
	var walk func(x M)
	walk = func(x M) {
		if x == nil || x["t"] != "objn" {
			return
		}
		for _, m := range x["m"].([]any) {
			kv := m.([]any)
			val, _ := kv[1].(M)
			switch kv[0] {
			case "ContentType":
				ct, hasCT = bytesToString(val), true
			case "Msg", "Data":
				payload = val
			default:
				walk(val)
			}
		}
	}
	walk(v)
	return
}

var typeEntry = map[string][2]string{
	"*api.NMsg": mtJSON, "*api.NMsgHeaders": mtJSON,
	"*api.NegReqTextPlain": mtText, "*api.NegOKTextPlain": mtText,
	"*api.MaskReqWithContentType": mtImage, "*api.MaskOKHeaders": mtImage,
	"*api.NegmaskReqImageWithContentType": mtImage, "*api.NegmaskOKImageHeaders": mtImage,
}

var resp2Decl = M{"exact": []int{200, 404}, "pats": []int{4}, "dflt": false}
var resp2Variant = map[string]M{"*api.NMsg": {"kind": "code", "n": 200}, "*api.E404": {"kind": "code", "n": 404}, "*api.F4StatusCode": {"kind": "pat", "n": 4}}

// Prepared is the regenerated package with its driver and the call list.
type Prepared struct {
	Bin   string
	Calls []dcall
	metas []meta
	ops   map[string]*op
}

// Prepare lets TLC emit rows, values, bodies and responses, renders the exchange document,
// regenerates client and server from /repo and builds the driver. extra adds operations
// only C19 drives (validated body with pattern / multipleOf, streamed body and response).
func Prepare(r *core.Run, extra, race bool) (*Prepared, error) {
	var rows []row
	var vals []struct {
		Shape string `json:"shape"`
		Ty    string `json:"ty"`
		V     M      `json:"v"`
	}
	var bodies []struct {
		B M `json:"b"`
	}
	var resps []M
	var forms []struct {
		B M `json:"b"`
	}
	for mode, into := range map[string]any{"rows": &rows, "vals": &vals, "bodies": &bodies, "resps": &resps, "forms": &forms} {
		if err := emit(r, mode, into); err != nil {
			return nil, err
		}
	}
	r.Cov("parameter_rows", len(rows))
	r.Cov("values", len(vals))
	r.Cov("bodies", len(bodies))
	r.Cov("responses", len(resps))
	r.Cov("form_bodies", len(forms))
	r.SetExhaustive(true)

	// ---- the document -----------------------------------------------------------------
	ops := map[string]*op{}
	var order []string
	for i, rw := range rows {
		groups := []string{"req", "opt"}
		if rw.C.Loc == "path" {
			groups = []string{"req"}
		} else if rw.C.Shape == "prim" && rw.Ty == "str" {
			groups = append(groups, "dflt")
		}
		for _, g := range groups {
			id := rw.C.Loc + g
			o, ok := ops[id]
			if !ok {
				o = &op{id: id, method: strings.ToUpper(id[:1]) + id[1:]}
				ops[id] = o
				order = append(order, id)
			}
			o.params = append(o.params, param{row: rw, name: fmt.Sprintf("p%d", i), group: g})
		}
	}
	paths := M{}
	for _, id := range order {
		o := ops[id]
		path := "/" + id
		var ps []any
		for _, p := range o.params {
			if p.C.Loc == "path" {
				path += "/{" + p.name + "}"
			}
			ps = append(ps, M{"name": p.name, "in": p.C.Loc, "required": p.group == "req", "style": p.C.Style, "explode": p.C.Explode, "schema": p.schema()})
		}
		if id == "pathreq" {
			// declared in the opposite order of their places in the path template: the router cuts
			// the arguments in path order, the decoder looks them up per declared parameter
			for i, j := 0, len(ps)-1; i < j; i, j = i+1, j-1 {
				ps[i], ps[j] = ps[j], ps[i]
			}
		}
		paths[path] = M{"get": M{"operationId": id, "parameters": ps, "responses": M{"200": M{"description": "ok"}}}}
	}
	jsonOf := func(ref string) M {
		return M{"application/json": M{"schema": M{"$ref": "#/components/schemas/" + ref}}}
	}
	paths["/body"] = M{"post": M{"operationId": "body", "requestBody": M{"required": true, "content": jsonOf("Body")}, "responses": M{"200": M{"description": "ok"}}}}
	paths["/resp"] = M{"get": M{"operationId": "resp", "responses": M{
		"200":     M{"description": "ok", "headers": M{"X-R": M{"schema": M{"type": "string"}}}, "content": jsonOf("R200")},
		"201":     M{"description": "created"},
		"4XX":     M{"description": "client error", "headers": M{"X-E": M{"schema": M{"type": "string"}}}, "content": jsonOf("E4")},
		"default": M{"description": "error", "headers": M{"X-E": M{"schema": M{"type": "string"}}}, "content": jsonOf("ED")}}}}
	formOf := func(ct string) M { return M{ct: M{"schema": M{"$ref": "#/components/schemas/Form"}}} }
	paths["/form"] = M{"post": M{"operationId": "form", "requestBody": M{"required": true, "content": formOf("application/x-www-form-urlencoded")}, "responses": M{"200": M{"description": "ok"}}}}
	paths["/multi"] = M{"post": M{"operationId": "multi", "requestBody": M{"required": true, "content": formOf("multipart/form-data")}, "responses": M{"200": M{"description": "ok"}}}}
	// the same bodies, optional: the request type is a wrapper around the form type
	paths["/formopt"] = M{"post": M{"operationId": "formopt", "requestBody": M{"required": false, "content": formOf("application/x-www-form-urlencoded")}, "responses": M{"200": M{"description": "ok"}}}}
	paths["/multiopt"] = M{"post": M{"operationId": "multiopt", "requestBody": M{"required": false, "content": formOf("multipart/form-data")}, "responses": M{"200": M{"description": "ok"}}}}
	paths["/bodyopt"] = M{"post": M{"operationId": "bodyopt", "requestBody": M{"required": false, "content": jsonOf("Body")}, "responses": M{"200": M{"description": "ok"}}}}
	octets := M{"application/octet-stream": M{"schema": M{"type": "string", "format": "binary"}}}
	paths["/stream"] = M{"post": M{"operationId": "stream", "requestBody": M{"required": true, "content": octets}, "responses": M{"200": M{"description": "ok", "content": octets}}}}
	// bodies that declare several media entries (exact and mask), in both directions
	mediaContent := func(entries ...string) M {
		c := M{}
		for _, e := range entries {
			switch e {
			case "application/json":
				c[e] = M{"schema": M{"$ref": "#/components/schemas/NMsg"}}
			case "text/plain":
				c[e] = M{"schema": M{"type": "string"}}
			default:
				c[e] = M{"schema": M{"type": "string", "format": "binary"}}
			}
		}
		return c
	}
	for id, entries := range map[string][]string{"neg": {"application/json", "text/plain"}, "mask": {"image/*"}, "negmask": {"application/json", "image/*"}} {
		paths["/"+id] = M{"post": M{"operationId": id, "requestBody": M{"required": true, "content": mediaContent(entries...)},
			"responses": M{"200": M{"description": "ok", "content": mediaContent(entries...)}}}}
	}
	// a response declaration with an exact code inside a declared class and no default
	paths["/resp2"] = M{"get": M{"operationId": "resp2", "responses": M{
		"200": M{"description": "ok", "content": jsonOf("NMsg")}, "404": M{"description": "nf", "content": jsonOf("E404")}, "4XX": M{"description": "ce", "content": jsonOf("F4")}}}}
	// a query parameter whose schema is a map (additionalProperties), optional and required
	mapSchema := func() M { return M{"type": "object", "additionalProperties": M{"type": "string"}} }
	paths["/mapq"] = M{"get": M{"operationId": "mapq", "parameters": []any{
		M{"name": "m", "in": "query", "required": false, "style": "form", "explode": true, "schema": mapSchema()}},
		"responses": M{"200": M{"description": "ok"}}}}
	paths["/mapr"] = M{"get": M{"operationId": "mapr", "parameters": []any{
		M{"name": "m", "in": "query", "required": true, "style": "form", "explode": true, "schema": mapSchema()}},
		"responses": M{"200": M{"description": "ok"}}}}
	webhooks := M{"onEvent": M{"post": M{"operationId": "onEvent", "parameters": []any{
		M{"name": "X-H", "in": "header", "required": true, "schema": M{"type": "string"}},
		M{"name": "q", "in": "query", "required": false, "schema": M{"type": "array", "items": M{"type": "string"}}}},
		"requestBody": M{"required": true, "content": jsonOf("NMsg")}, "responses": M{"200": M{"description": "ok", "content": jsonOf("NMsg")}}}}}
	// text/plain bodies of format byte: streamed through a base64 encoder / decoder
	b64 := M{"text/plain": M{"schema": M{"type": "string", "format": "byte"}}}
	paths["/b64"] = M{"post": M{"operationId": "b64", "requestBody": M{"required": true, "content": b64}, "responses": M{"200": M{"description": "ok", "content": b64}}}}
	if extra {
		paths["/vbody"] = M{"post": M{"operationId": "vbody", "requestBody": M{"required": true, "content": jsonOf("VBody")}, "responses": M{"200": M{"description": "ok", "content": jsonOf("VBody")}}}}
	}
	msg := func() M {
		return M{"type": "object", "required": []string{"msg"}, "properties": M{"msg": M{"type": "string"}}}
	}
	doc, _ := json.Marshal(M{"openapi": "3.1.0", "info": M{"title": "t", "version": "1"}, "paths": paths, "webhooks": webhooks, "components": M{"schemas": M{
		"NMsg": msg(), "E404": msg(), "F4": msg(),
		"Body": M{"type": "object", "required": []string{"n", "dn"}, "properties": orderedProps{{"n", M{"type": "integer"}}, {"s", M{"type": "string", "default": "sd"}},
			{"on", M{"type": "string", "nullable": true}}, {"l", M{"type": "array", "items": M{"type": "integer"}}},
			// required, nullable, null by default: the decoder starts from the default
			{"dn", M{"type": "string", "nullable": true, "default": nil}}, {"u", M{"type": "integer", "format": "unix-seconds"}}}},
		"R200": msg(), "E4": msg(), "ED": msg(),
		"Form": M{"type": "object", "required": []string{"a"}, "properties": orderedProps{{"a", M{"type": "string"}}, {"n", M{"type": "integer"}},
			{"l", M{"type": "array", "items": M{"type": "string"}}}, {"d", M{"type": "string", "default": "fd"}},
			{"dn", M{"type": "string", "nullable": true, "default": nil}}}},
		"VBody": M{"type": "object", "required": []string{"p", "m"}, "properties": orderedProps{{"p", M{"type": "string", "pattern": "^[a-z]+$"}}, {"m", M{"type": "number", "multipleOf": 0.5}},
			{"q", M{"type": "string", "pattern": "^(a|b)+c$", "maxLength": 40}},
			// patterns the RE2 converter has to hand to the backtracking engine
			{"r", M{"type": "string", "pattern": "^(?!admin)[a-z]+$"}}, {"w", M{"type": "string", "pattern": "^(\\w+)-\\1$"}}}}}}})
	mod, err := gencode.NewModule(r.Scratch, "mod")
	if err != nil {
		return nil, err
	}
	if _, err := mod.Generate("api", doc, gencode.ClientServerOptions()); err != nil {
		return nil, fmt.Errorf("%w: the exchange document is refused: %v", tlc.ErrInfra, err)
	}
	surf, err := gencode.InspectDir(filepath.Join(mod.Dir, "api"), "api")
	if err != nil {
		return nil, err
	}
	if err := mod.WriteFile("drv/glue.go", []byte(glue(surf))); err != nil {
		return nil, err
	}
	if err := mod.WriteFile("drv/main.go", []byte(driverMain)); err != nil {
		return nil, err
	}
	var flags []string
	if race {
		flags = append(flags, "-race")
	}
	bin, err := mod.Build("drv", "drv", flags...)
	if err != nil {
		return nil, err
	}

	// ---- the calls ----------------------------------------------------------------------
	var calls []dcall
	var metas []meta
	paramsOf := func(o *op, vary int, v M) (M, [][]string) {
		var m []any
		var ks [][]string
		for j, p := range o.params {
			val := p.coreValue()
			if j == vary {
				val = v
			}
			m = append(m, []any{p.goName(), toGo(val, []string{"A", "B"})})
			ks = append(ks, []string{p.name, p.C.Loc})
		}
		return M{"t": "objn", "m": m}, ks
	}
	for _, id := range order {
		o := ops[id]
		for j, p := range o.params {
			var dom []M
			for _, v := range vals {
				if v.Shape == p.C.Shape && v.Ty == p.Ty {
					dom = append(dom, v.V)
				}
			}
			if p.group != "req" {
				dom = append(dom, absent)
			}
			for _, v := range dom {
				if p.Ty == "date" && v["t"] == "time" {
					// the same calendar day handed over in three zones: UTC, east of Greenwich at
					// midnight (the instant is on the previous UTC day), west in the evening (next)
					for _, zone := range []string{"", "+02:00", "-08:00"} {
						sp := M{"t": "time", "x": v["x"], "zone": zone}
						ps, ks := paramsOf(o, j, sp)
						calls = append(calls, dcall{Method: o.method, Params: ps, Keys: ks})
						metas = append(metas, meta{kind: "param", op: o, vary: j, sent: v, descr: "zone " + zone})
					}
					continue
				}
				ps, ks := paramsOf(o, j, v)
				calls = append(calls, dcall{Method: o.method, Params: ps, Keys: ks})
				metas = append(metas, meta{kind: "param", op: o, vary: j, sent: v})
			}
		}
	}
	for _, method := range []string{"Body", "Bodyopt"} {
		for _, b := range bodies {
			calls = append(calls, dcall{Method: method, HasReq: true, Req: toGo(b.B, bodyFields), Keys: [][]string{}})
			metas = append(metas, meta{kind: "body", vary: -1, sent: b.B, descr: method})
		}
	}
	// the same bodies while a second call goes through the same client between "request built"
	// and "request sent" (made by the transport): what the first call delivers must not change
	innerBody := M{"t": "obj", "m": []any{M{"t": "int", "n": 9}, strOf("zz"), strOf("q"), M{"t": "arr", "v": []any{M{"t": "int", "n": 8}, M{"t": "int", "n": 7}}}, strOf("w"), absent}}
	for _, b := range bodies {
		inner := dcall{Method: "Body", HasReq: true, Req: toGo(innerBody, bodyFields), Keys: [][]string{}}
		calls = append(calls, dcall{Method: "Body", HasReq: true, Req: toGo(b.B, bodyFields), Keys: [][]string{}, Nested: &inner})
		metas = append(metas, meta{kind: "body", vary: -1, sent: b.B, descr: "Body with a second call made by the transport before sending"})
	}
	for _, method := range []string{"Form", "Multi", "Formopt", "Multiopt"} {
		for _, f := range forms {
			calls = append(calls, dcall{Method: method, HasReq: true, Req: toGo(f.B, formFields), Keys: [][]string{}})
			metas = append(metas, meta{kind: "form", vary: -1, sent: f.B, descr: method})
		}
	}
	msgOf := func(s string) M { return M{"t": "objn", "m": []any{[]any{"Msg", strOf(s)}}} }
	for _, rv := range resps {
		var d dresp
		switch rv["v"] {
		case "ok200":
			d = dresp{"R200Headers", M{"t": "objn", "m": []any{[]any{"XR", rv["hdr"]}, []any{"Response", msgOf("m200")}}}}
		case "created201":
			d = dresp{"RespCreated", M{"t": "objn", "m": []any{}}}
		case "pat4XX":
			d = dresp{"E4StatusCodeWithHeaders", M{"t": "objn", "m": []any{[]any{"StatusCode", M{"t": "int", "n": rv["k"]}}, []any{"XE", rv["hdr"]}, []any{"Response", msgOf("m4")}}}}
		default:
			d = dresp{"EDStatusCodeWithHeaders", M{"t": "objn", "m": []any{[]any{"StatusCode", M{"t": "int", "n": rv["k"]}}, []any{"XE", rv["hdr"]}, []any{"Response", msgOf("md")}}}}
		}
		calls = append(calls, dcall{Method: "Resp", Keys: [][]string{}, Resp: &d})
		metas = append(metas, meta{kind: "resp", vary: -1, resp: rv})
	}
	if extra {
		vb := func(p string, m float64, q M, more ...M) M {
			fields := []any{[]any{"P", strOf(p)}, []any{"M", M{"t": "int", "n": m}}, []any{"Q", q}}
			if len(more) == 2 {
				fields = append(fields, []any{"R", more[0]}, []any{"W", more[1]})
			}
			return M{"t": "objn", "m": fields}
		}
		for _, v := range []M{vb("abc", 15, absent), vb("ABC", 15, absent), vb("abc", 13, absent), vb("zz", 0, strOf("ababababc")), vb("q", 5, strOf("abababababababababababababababababab")), vb("", 10, absent),
			vb("a", 5, absent, strOf("user"), strOf("ab-ab")), vb("a", 5, absent, strOf("administrator"), absent), vb("a", 5, absent, strOf("adm"), strOf("ab-ba")), vb("a", 5, absent, strOf("zzzzzzzzzzzzzzzzzzzzzzzzzzzzzzzz"), strOf("xyzxyzxyz-xyzxyzxyz")),
			vb("a", 5, absent, strOf("root"), strOf("q-q")), vb("a", 5, absent, strOf("adminx"), strOf("long_word_here-long_word_here"))} {
			calls = append(calls, dcall{Method: "Vbody", HasReq: true, Req: v, Keys: [][]string{}, Resp: &dresp{"VBody", vb("ok", 5, absent)}})
			metas = append(metas, meta{kind: "extra", vary: -1})
		}
	}
	for _, data := range []string{"x", "xy", "xyz", "wxyz", "\x00\xff\r\n binary \x80", strings.Repeat("b64-", 3000) + "q"} {
		calls = append(calls, dcall{Method: "B64", HasReq: true, Req: M{"t": "objn", "m": []any{[]any{"Data", strOf(data)}}}, Keys: [][]string{},
			Resp: &dresp{"B64OK", M{"t": "objn", "m": []any{[]any{"Data", strOf("r:" + data)}}}}})
		metas = append(metas, meta{kind: "stream", vary: -1, sent: strOf(data), resp: strOf("r:" + data)})
	}
	for _, data := range []string{"", "x", "\x00\xff\r\n binary \x80", strings.Repeat("stream-", 3000)} {
		calls = append(calls, dcall{Method: "Stream", HasReq: true, Req: M{"t": "objn", "m": []any{[]any{"Data", strOf(data)}}}, Keys: [][]string{},
			Resp: &dresp{"StreamOK", M{"t": "objn", "m": []any{[]any{"Data", strOf("reply:" + data)}}}}})
		metas = append(metas, meta{kind: "stream", vary: -1, sent: strOf(data), resp: strOf("reply:" + data)})
	}
	// ---- media variants: one direction varies per call, the other carries a fixed plain value
	jsonPayloads := []string{"m", "", "\u00e9 \"q\" \\ \n"}
	dataPayloads := []string{"x", "", "\x00\xff\r\n bin \x80", "\u00e9"}
	for oi := range mediaOps {
		mo := &mediaOps[oi]
		plain := mo.variants[0]
		plainCT := plain.e[0] + "/" + plain.e[1]
		if plain.e == mtImage {
			plainCT = "image/png"
		}
		for _, v := range mo.variants {
			payloads := dataPayloads
			if v.json {
				payloads = jsonPayloads
			}
			own := v.e[0] + "/" + v.e[1]
			for _, dir := range []string{"req", "resp"} {
				hasCT := v.reqCT
				if dir == "resp" {
					hasCT = v.resCT
				}
				cts := []string{own}
				if hasCT && v.e == mtImage {
					cts = []string{"image/png", "image/svg+xml", "text/plain", "", "application/json", "image/*"}
				} else if hasCT {
					cts = []string{own, "", "image/png", "text/plain"}
				}
				for _, ct := range cts {
					for _, pl := range payloads {
						mc := &mediaCase{op: mo, dir: dir, v: v, ct: ct, payload: pl}
						c := dcall{Method: mo.method, HasReq: true, Keys: [][]string{}}
						if dir == "req" {
							c.ReqType, c.Req = v.reqType, mediaValue(v, v.reqCT, "Content", ct, pl)
							c.Resp = &dresp{plain.resType, mediaValue(plain, plain.resCT, "Response", plainCT, "fixed")}
						} else {
							c.ReqType, c.Req = plain.reqType, mediaValue(plain, plain.reqCT, "Content", plainCT, "fixed")
							c.Resp = &dresp{v.resType, mediaValue(v, v.resCT, "Response", ct, pl)}
						}
						calls = append(calls, c)
						metas = append(metas, meta{kind: "media", vary: -1, med: mc})
					}
				}
			}
		}
	}
	// ---- the second response declaration
	for _, k := range []int{0, 100, 200, 204, 302, 400, 404, 418, 499, 500, 599} {
		calls = append(calls, dcall{Method: "Resp2", Keys: [][]string{}, Resp: &dresp{"F4StatusCode", M{"t": "objn", "m": []any{[]any{"StatusCode", M{"t": "int", "n": k}}, []any{"Response", msgOf("f4")}}}}})
		metas = append(metas, meta{kind: "respd", vary: -1, resp: M{"v": M{"kind": "pat", "n": 4}, "k": k, "msg": "f4"}})
	}
	calls = append(calls, dcall{Method: "Resp2", Keys: [][]string{}, Resp: &dresp{"NMsg", msgOf("n200")}}, dcall{Method: "Resp2", Keys: [][]string{}, Resp: &dresp{"E404", msgOf("e404")}})
	metas = append(metas, meta{kind: "respd", vary: -1, resp: M{"v": M{"kind": "code", "n": 200}, "k": 0, "msg": "n200"}}, meta{kind: "respd", vary: -1, resp: M{"v": M{"kind": "code", "n": 404}, "k": 0, "msg": "e404"}})
	// ---- the webhook: header + query parameter, JSON body, JSON response
	for _, xh := range []string{"h", "a-b", "a,b", "\u00e9"} {
		for _, q := range []M{{"t": "nil"}, {"t": "arr", "v": []any{strOf("x")}}, {"t": "arr", "v": []any{strOf("x"), strOf("y z")}}, {"t": "arr", "v": []any{strOf("a&b=c")}}} {
			for _, body := range []string{"m", "\u00e9\n"} {
				calls = append(calls, dcall{Method: "OnEvent", Hook: "onEvent", HasReq: true, Req: msgOf(body), Params: M{"t": "objn", "m": []any{[]any{"XH", strOf(xh)}, []any{"Q", q}}},
					Keys: [][]string{{"X-H", "header"}, {"q", "query"}}, Resp: &dresp{"NMsg", msgOf("re:" + body)}})
				metas = append(metas, meta{kind: "hook", vary: -1, sent: M{"xh": strOf(xh), "q": q, "body": strOf(body)}, resp: strOf("re:" + body), descr: fmt.Sprintf("X-H=%q q=%s body=%q", xh, show(q), body)})
			}
		}
	}
	// ---- map-typed query parameters: one varies, the other holds {k: v}
	mapOf := func(kv ...string) M {
		m := []any{}
		for i := 0; i+1 < len(kv); i += 2 {
			m = append(m, []any{kv[i], strOf(kv[i+1])})
		}
		return M{"t": "map", "m": m}
	}
	for _, method := range []string{"Mapq", "Mapr"} {
		for _, v := range []M{mapOf("a", "1"), mapOf("a", "1", "b", "x y"), mapOf("k", "v"), mapOf("a", ""), mapOf()} {
			calls = append(calls, dcall{Method: method, Params: M{"t": "objn", "m": []any{[]any{"M", v}}}, Keys: [][]string{{"m", "query"}}})
			metas = append(metas, meta{kind: "mapparam", vary: 0, sent: v, descr: method})
		}
	}
	// ---- per-request options: the same webhook and body calls with WithServerURL(<one URL value
	// shared by every such call of the process>); what is delivered must not change and the URL
	// handed over must not be written to
	n0 := len(calls)
	for i := 0; i < n0; i++ {
		if mk := metas[i].kind; (mk == "hook" || (mk == "body" && calls[i].Method == "Body" && calls[i].Nested == nil)) && !calls[i].ViaURL {
			c := calls[i]
			c.ViaURL = true
			m := metas[i]
			m.descr += " (WithServerURL, URL value shared between calls)"
			calls = append(calls, c)
			metas = append(metas, m)
		}
	}
	return &Prepared{Bin: bin, Calls: calls, metas: metas, ops: ops}, nil
}

// Check is the C01 entry point.
func Check(r *core.Run) error {
	r.SetRule("spec/Exchange.tla: the handler and an installed middleware see exactly the parameter and body values the caller gave (absent members with a default arrive as the default), the caller gets exactly the variant, status, header and body the handler returned; a value outside a row's core domain (Core: non-empty text without the row's delimiters) is delivered exactly or refused with a client error / 4xx, never changed; an uncarriable <<variant, code>> is an error. " +
		"TLC checks the response routing design (status written -> variant picked) for every variant x code and that core values never fall under the style table's ambiguity rule, and emits every admitted parameter row (spec/ParamStyle.tla) x Go type, value domains per shape, bodies and <<variant, code, header>> responses. " +
		"Conformance: one document (operations per location x group required/optional/default, a body operation, a response operation with 200+header, 201, 4XX, default) is regenerated from /repo as client and server; the generated client calls the generated server in process; a recording handler, a middleware and the caller's result are projected by reflection and judged by TLC, one parameter varying per call. " +
		"Non-trivial = every call; distinct = (kind, row, outcome).")
	res, err := tlc.Run(nil, tlc.Options{SpecDir: obs.SpecDir, Module: "ExchangeMC", Timeout: 10 * time.Minute, Scratch: r.Scratch, Workers: 8,
		Cfg: tlc.Cfg("INIT Init", "NEXT Next", "INVARIANTS Routing Misrouted CoreCarried Generalises", "CHECK_DEADLOCK FALSE")})
	if err != nil {
		return err
	}
	if res.Violated != "" {
		return fmt.Errorf("%w: ExchangeMC violates %s\n%s", tlc.ErrInfra, res.Violated, tlc.Tail(res, 30))
	}
	r.AddStates(res.Distinct, res.Generated)
	pp, err := Prepare(r, false, false)
	if err != nil {
		return err
	}
	calls, metas := pp.Calls, pp.metas
	bin := pp.Bin
	r.Cov("calls", len(calls))
	out := filepath.Join(r.Scratch, "calls.out")
	job, _ := json.Marshal(M{"calls": calls, "out": out})
	jf := filepath.Join(r.Scratch, "calls.job")
	os.WriteFile(jf, job, 0o644)
	if o, err := gencode.Run(bin, nil, jf); err != nil {
		return fmt.Errorf("%w: driver: %v\n%s", tlc.ErrInfra, err, o)
	}
	raw, err := os.ReadFile(out)
	if err != nil {
		return err
	}
	var results []dres
	if err := json.Unmarshal(raw, &results); err != nil {
		return err
	}

	// ---- observation lines ----------------------------------------------------------------
	var lines [][]byte
	var desc []string
	variantOf := map[string]string{"*api.R200Headers": "ok200", "*api.RespCreated": "created201", "*api.E4StatusCodeWithHeaders": "pat4XX", "*api.EDStatusCodeWithHeaders": "default"}
	for i, mt := range metas {
		res := results[i]
		if res.URLChanged {
			// whatever else happened: the call wrote to the URL value the caller handed over
			res.Outcome = "shared_url_written"
		}
		var line M
		switch mt.kind {
		case "param":
			o := mt.op
			p := o.params[mt.vary]
			got, mwgot, others := absent, absent, true
			if res.Handler {
				if len(res.HArgs) != 1 {
					return fmt.Errorf("%w: handler of %s got %d arguments", tlc.ErrInfra, o.method, len(res.HArgs))
				}
				var names []string
				for _, q := range o.params {
					names = append(names, q.goName())
				}
				all, err := fromGo(res.HArgs[0], names)
				if err != nil {
					return fmt.Errorf("%w: params of %s: %v", tlc.ErrInfra, o.method, err)
				}
				for j, x := range all["m"].([]any) {
					if j == mt.vary {
						got = x.(M)
					} else if !sameJSON(x, o.params[j].coreValue()) {
						others = false
					}
				}
				if res.MwSeen && len(res.MwParams) == len(o.params) {
					mwgot, err = fromGo(res.MwParams[mt.vary], []string{"A", "B"})
					if err != nil {
						return fmt.Errorf("%w: middleware params of %s: %v", tlc.ErrInfra, o.method, err)
					}
				}
			}
			line = M{"kind": "param", "c": p.C, "group": p.group, "sent": mt.sent, "outcome": res.Outcome, "got": got, "mwgot": mwgot, "others": others}
			desc = append(desc, fmt.Sprintf("%s parameter %s (%s %s explode=%v %s %s, %s) given %s -> %s status %d handler saw %s middleware saw %s %s", o.id, p.name, p.C.Loc, p.C.Style, p.C.Explode, p.C.Shape, p.Ty, p.group, show(mt.sent), res.Outcome, res.Status, show(got), show(mwgot), res.Err))
			r.Nontrivial(fmt.Sprintf("param|%s|%s|%v|%s|%s|%s", p.C.Loc, p.C.Style, p.C.Explode, p.C.Shape, p.group, res.Outcome))
		case "body":
			got, mwgot := absent, absent
			if res.Handler && len(res.HArgs) == 1 {
				if got, err = fromGo(res.HArgs[0], bodyFields); err != nil {
					return fmt.Errorf("%w: body: %v", tlc.ErrInfra, err)
				}
				if mwgot, err = fromGo(res.MwBody, bodyFields); err != nil {
					return fmt.Errorf("%w: middleware body: %v", tlc.ErrInfra, err)
				}
			}
			line = M{"kind": "body", "sent": mt.sent, "outcome": res.Outcome, "got": got, "mwgot": mwgot}
			desc = append(desc, fmt.Sprintf("%s given %s -> %s status %d handler saw %s middleware saw %s %s", mt.descr, show(mt.sent), res.Outcome, res.Status, show(got), show(mwgot), res.Err))
			r.Nontrivial("body|" + res.Outcome)
		case "stream":
			field := func(v M) M {
				if v != nil && v["t"] == "objn" {
					for _, m := range v["m"].([]any) {
						if kv := m.([]any); kv[0] == "Data" {
							return kv[1].(M)
						}
					}
				}
				return absent
			}
			got, rgot := absent, absent
			if res.Handler && len(res.HArgs) == 1 {
				got = field(res.HArgs[0])
			}
			if res.Outcome == "ok" {
				rgot = field(res.RVal)
			}
			line = M{"kind": "stream", "sent": mt.sent, "outcome": res.Outcome, "got": got, "rsent": mt.resp, "rgot": rgot}
			desc = append(desc, fmt.Sprintf("streamed body of %d bytes -> %s status %d, handler read %d bytes, caller read %d bytes %s", len(mt.sent["s"].([]any)), res.Outcome, res.Status, lenOf(got), lenOf(rgot), res.Err))
			r.Nontrivial("stream|" + res.Outcome)
		case "form":
			got, mwgot := absent, absent
			if res.Handler && len(res.HArgs) == 1 {
				if got, err = fromGo(res.HArgs[0], formFields); err != nil {
					return fmt.Errorf("%w: form: %v", tlc.ErrInfra, err)
				}
				if mwgot, err = fromGo(res.MwBody, formFields); err != nil {
					return fmt.Errorf("%w: middleware form: %v", tlc.ErrInfra, err)
				}
			}
			// the member dn (nullable, `default: null`): when it was not given, null and absent are
			// the same "no value"
			if sm, ok := mt.sent["m"].([]any); ok && len(sm) == 5 && sm[4].(M)["t"] == "absent" {
				for _, g := range []M{got, mwgot} {
					if gm, ok := g["m"].([]any); ok && len(gm) == 5 && gm[4].(M)["t"] == "null" {
						gm[4] = absent
					}
				}
			}
			line = M{"kind": "form", "sent": mt.sent, "outcome": res.Outcome, "got": got, "mwgot": mwgot}
			desc = append(desc, fmt.Sprintf("%s body given %s -> %s status %d handler saw %s middleware saw %s %s", mt.descr, show(mt.sent), res.Outcome, res.Status, show(got), show(mwgot), res.Err))
			r.Nontrivial("form|" + mt.descr + "|" + res.Outcome)
		case "media":
			mc := mt.med
			e2, ct2, payload2 := []string{"", ""}, []string{"", ""}, absent
			var seen M
			var seenType string
			outcome := res.Outcome
			if mc.dir == "req" {
				// the handler's view of the request decides; a handler that ran is "ok" whatever came back
				if res.Handler && len(res.HArgs) == 1 && len(res.HTypes) == 1 {
					seen, seenType, outcome = res.HArgs[0], res.HTypes[0], "ok"
				} else if res.Outcome == "ok" {
					outcome = "answered_without_handler"
				}
			} else if res.Outcome == "ok" {
				seen, seenType = res.RVal, res.RType
			}
			if seen != nil {
				ent, ok := typeEntry[seenType]
				if !ok {
					return fmt.Errorf("%w: media: unknown variant type %s", tlc.ErrInfra, seenType)
				}
				e2 = ent[:]
				ct, hasCT, pl := mediaParts(seen)
				payload2 = pl
				if hasCT {
					ct2 = splitMT(ct)
				} else {
					ct2 = e2
				}
			}
			D := [][]string{}
			for _, d := range mc.op.D {
				D = append(D, []string{d[0], d[1]})
			}
			line = M{"kind": "media", "dir": mc.dir, "D": D, "e": mc.v.e[:], "ct": splitMT(mc.ct), "payload": strOf(mc.payload), "outcome": outcome, "e2": e2, "ct2": ct2, "payload2": payload2}
			desc = append(desc, fmt.Sprintf("%s %s body: variant %s/%s travelling as %q payload %q -> %s status %d, seen as %s type %s/%s payload %s %s", mc.op.method, mc.dir, mc.v.e[0], mc.v.e[1], mc.ct, mc.payload, outcome, res.Status, seenType, ct2[0], ct2[1], show(payload2), res.Err))
			r.Nontrivial(fmt.Sprintf("media|%s|%s|%s/%s|%s", mc.op.method, mc.dir, mc.v.e[0], mc.v.e[1], outcome))
			r.CovAdd("media_"+mc.dir+"_"+outcome, 1)
		case "mapparam":
			got, mwgot, other := absent, absent, true
			if res.Handler && len(res.HArgs) == 1 {
				for _, m := range res.HArgs[0]["m"].([]any) {
					if kv := m.([]any); kv[0] == "M" {
						got = kv[1].(M)
					}
				}
				if res.MwSeen && len(res.MwParams) == 1 {
					mwgot = res.MwParams[0]
				}
			}
			nothing := func(v M) M {
				if v["t"] == "absent" || v["t"] == "nil" || (v["t"] == "map" && len(v["m"].([]any)) == 0) {
					return M{"t": "nil"}
				}
				return v
			}
			line = M{"kind": "mapparam", "required": mt.descr == "Mapr", "sent": nothing(mt.sent), "outcome": res.Outcome, "got": nothing(got), "mwgot": nothing(mwgot), "others": other}
			desc = append(desc, fmt.Sprintf("%s parameter m (query form explode=true, map of strings) given %s -> %s status %d handler saw %s middleware saw %s %s", mt.descr, show(mt.sent), res.Outcome, res.Status, show(got), show(mwgot), res.Err))
			r.Nontrivial(fmt.Sprintf("mapparam|%s|%s", mt.descr, res.Outcome))
			r.CovAdd("map_parameter_"+res.Outcome, 1)
		case "respd":
			rv := mt.resp
			v2, k2, msg2 := M{"kind": "none", "n": 0}, float64(0), ""
			if res.Outcome == "ok" {
				var ok bool
				if v2, ok = resp2Variant[res.RType]; !ok {
					v2 = M{"kind": "unknown:" + res.RType, "n": 0}
				}
				var walk func(x M)
				walk = func(x M) {
					if x == nil || x["t"] != "objn" {
						return
					}
					for _, m := range x["m"].([]any) {
						kv := m.([]any)
						switch kv[0] {
						case "StatusCode":
							k2 = toF(kv[1].(M)["n"])
						case "Msg":
							msg2 = bytesToString(kv[1].(M))
						default:
							walk(kv[1].(M))
						}
					}
				}
				walk(res.RVal)
			}
			line = M{"kind": "respd", "d": resp2Decl, "v": rv["v"], "k": rv["k"], "msg": rv["msg"], "outcome": res.Outcome, "v2": v2, "k2": k2, "msg2": msg2}
			desc = append(desc, fmt.Sprintf("resp2 (200, 404, 4XX declared): handler returned %v code %v -> caller: %s status on the wire %d got %v code %v %q %s", rv["v"], rv["k"], res.Outcome, res.Status, v2, k2, msg2, res.Err))
			r.Nontrivial(fmt.Sprintf("respd|%v|%s", rv["v"].(M)["kind"], res.Outcome))
			r.CovAdd("second_response_declaration_"+res.Outcome, 1)
		case "hook":
			nothing := func(v M) M {
				if v == nil || v["t"] == "absent" || v["t"] == "nil" {
					return M{"t": "nil"}
				}
				if v["t"] == "arr" && len(v["v"].([]any)) == 0 {
					return M{"t": "nil"}
				}
				return v
			}
			sentp := []any{mt.sent["xh"], nothing(mt.sent["q"].(M))}
			gotp, mwp := []any{absent, absent}, []any{absent, absent}
			gotb, mwb, rgot := absent, absent, absent
			field := func(v M, name string) M {
				if v != nil && v["t"] == "objn" {
					for _, m := range v["m"].([]any) {
						if kv := m.([]any); kv[0] == name {
							return kv[1].(M)
						}
					}
				}
				return absent
			}
			if res.Handler && len(res.HArgs) == 2 {
				gotb = field(res.HArgs[0], "Msg")
				gotp = []any{field(res.HArgs[1], "XH"), nothing(field(res.HArgs[1], "Q"))}
				if res.MwSeen && len(res.MwParams) == 2 {
					mwp = []any{res.MwParams[0], nothing(res.MwParams[1])}
					mwb = field(res.MwBody, "Msg")
				}
			}
			if res.Outcome == "ok" {
				rgot = field(res.RVal, "Msg")
			}
			core := !strings.Contains(bytesToString(mt.sent["xh"].(M)), ",")
			line = M{"kind": "hook", "sentp": sentp, "gotp": gotp, "mwp": mwp, "sentb": mt.sent["body"], "gotb": gotb, "mwb": mwb, "rsent": mt.resp, "rgot": rgot, "outcome": res.Outcome, "core": core}
			desc = append(desc, fmt.Sprintf("webhook onEvent %s -> %s status %d handler saw X-H=%s q=%s body=%s, middleware saw X-H=%s q=%s, caller got %s %s", mt.descr, res.Outcome, res.Status, show(gotp[0].(M)), show(gotp[1].(M)), show(gotb), show(mwp[0].(M)), show(mwp[1].(M)), show(rgot), res.Err))
			r.Nontrivial("hook|" + res.Outcome)
			r.CovAdd("webhook_"+res.Outcome, 1)
		case "resp":
			rv := mt.resp
			payload := M{"hdr": rv["hdr"], "msg": map[string]string{"ok200": "m200", "created201": "", "pat4XX": "m4", "default": "md"}[rv["v"].(string)]}
			v2, k2, payload2 := "none", float64(0), M{"hdr": absent, "msg": ""}
			if res.Outcome == "ok" {
				var ok bool
				if v2, ok = variantOf[res.RType]; !ok {
					v2 = "unknown:" + res.RType
				}
				for _, m := range res.RVal["m"].([]any) {
					kv := m.([]any)
					switch kv[0] {
					case "StatusCode":
						k2 = toF(kv[1].(M)["n"])
					case "XR", "XE":
						payload2["hdr"] = kv[1]
					case "Response":
						for _, mm := range kv[1].(M)["m"].([]any) {
							payload2["msg"] = bytesToString(mm.([]any)[1].(M))
						}
					}
				}
			}
			line = M{"kind": "resp", "v": rv["v"], "k": rv["k"], "payload": payload, "outcome": res.Outcome, "v2": v2, "k2": k2, "payload2": payload2}
			desc = append(desc, fmt.Sprintf("handler returned %v code %v header %s -> caller: %s status on the wire %d got %s code %v %s %s", rv["v"], rv["k"], show(rv["hdr"].(M)), res.Outcome, res.Status, v2, k2, show(payload2["hdr"].(M)), res.Err))
			r.Nontrivial(fmt.Sprintf("resp|%v|%s", rv["v"], res.Outcome))
		}
		b, _ := json.Marshal(line)
		lines = append(lines, b)
		if i%97 == 0 {
			r.Sample(desc[len(desc)-1])
		}
	}
	r.AddEvals(int64(len(lines)))
	vs, err := obs.Check(r, lines, obs.CheckOpts{Module: "ExchangeCheck", Cfg: obs.StdCfg("KnownDeviations = " + r.KnownSet()), ChunkSize: 400, Parallel: 8})
	if err != nil {
		return err
	}
	for _, v := range vs {
		what := desc[v.Index] + ": " + v.Kind
		if strings.HasPrefix(v.Kind, "known=") {
			r.KnownHit(strings.TrimPrefix(v.Kind, "known="), what)
			continue
		}
		var line M
		json.Unmarshal(lines[v.Index], &line)
		r.Violate(what, M{"line": line, "verdict": v.Kind})
	}
	return nil
}

func lenOf(v M) int {
	if s, ok := v["s"].([]any); ok {
		return len(s)
	}
	return -1
}

func toF(x any) float64 {
	switch v := x.(type) {
	case float64:
		return v
	case int:
		return float64(v)
	case int64:
		return float64(v)
	}
	return -1
}

func bytesToString(v M) string {
	if v["t"] != "str" {
		return "?" + fmt.Sprint(v["t"])
	}
	var b []byte
	for _, x := range v["s"].([]any) {
		b = append(b, byte(toF(x)))
	}
	return string(b)
}

func sameJSON(a, b any) bool {
	x, _ := json.Marshal(a)
	y, _ := json.Marshal(b)
	var u, v any
	json.Unmarshal(x, &u)
	json.Unmarshal(y, &v)
	return reflect.DeepEqual(u, v)
}

// show renders a tagged value for messages.
func show(v M) string {
	if v == nil {
		return "-"
	}
	switch v["t"] {
	case "str":
		return fmt.Sprintf("%q", bytesToString(v))
	case "int":
		return fmt.Sprint(v["n"])
	case "num", "time":
		return fmt.Sprint(v["x"])
	case "arr":
		var xs []string
		for _, x := range v["v"].([]any) {
			xs = append(xs, show(x.(M)))
		}
		return "[" + strings.Join(xs, ",") + "]"
	case "obj":
		var xs []string
		for _, x := range v["m"].([]any) {
			xs = append(xs, show(x.(M)))
		}
		return "{" + strings.Join(xs, ",") + "}"
	case "map":
		var xs []string
		for _, x := range v["m"].([]any) {
			kv := x.([]any)
			xs = append(xs, fmt.Sprintf("%v: %s", kv[0], show(kv[1].(M))))
		}
		return "map{" + strings.Join(xs, ", ") + "}"
	}
	return fmt.Sprint(v["t"])
}

// glue implements the generated Handler with a recording one and registers the
// generated types by name.
func glue(s *gencode.Surface) string {
	var b strings.Builder
	b.WriteString("package main\n\nimport (\n\t\"context\"\n\t\"net/http\"\n\t\"net/url\"\n\t\"reflect\"\n\n\t\"github.com/ogen-go/ogen/middleware\"\n\n\tapi \"vmod/api\"\n)\n\nvar _ context.Context\nvar _ *url.URL\n\ntype handler struct{}\n\n")
	for _, m := range append(append([]gencode.Method{}, s.HandlerMethods...), s.WebhookMethods...) {
		args := []string{}
		for i := range m.Types {
			if i > 0 {
				args = append(args, fmt.Sprintf("a%d", i))
			}
		}
		fmt.Fprintf(&b, "func (handler) %s%s %s {\n\trecordArgs(a0, []any{%s})\n", m.Name, m.Params, m.Results, strings.Join(args, ", "))
		if m.NRes == 2 {
			// the response was built behind a pointer: the operation may want the value itself
			fmt.Fprintf(&b, "\tv := nextResp(a0)\n\tif r, ok := v.(%[1]s); ok {\n\t\treturn r, nil\n\t}\n\tif rv := reflect.ValueOf(v); rv.IsValid() && rv.Kind() == reflect.Ptr && !rv.IsNil() {\n\t\tif r, ok := rv.Elem().Interface().(%[1]s); ok {\n\t\t\treturn r, nil\n\t\t}\n\t}\n\tvar z %[1]s\n\treturn z, nil\n}\n\n", m.ResType[0])
		} else {
			b.WriteString("\treturn nil\n}\n\n")
		}
	}
	b.WriteString("func init() {\n")
	for _, t := range s.TypeNames {
		fmt.Fprintf(&b, "\ttypes[%q] = reflect.TypeOf((*api.%s)(nil)).Elem()\n", t, t)
	}
	b.WriteString("\tmkServer = func(mw middleware.Middleware) (http.Handler, error) { return api.NewServer(handler{}, api.WithMiddleware(passThrough, mw, passThrough)) }\n")
	b.WriteString("\tmkClient = func(url string, c *http.Client) (any, error) { return api.NewClient(url, api.WithClient(c)) }\n")
	if len(s.WebhookMethods) > 0 {
		b.WriteString("\tmkWebhook = func(mw middleware.Middleware) (func(string) http.Handler, error) {\n\t\ts, err := api.NewWebhookServer(handler{}, api.WithMiddleware(passThrough, mw, passThrough))\n\t\tif err != nil {\n\t\t\treturn nil, err\n\t\t}\n\t\treturn s.Handler, nil\n\t}\n")
		b.WriteString("\tmkWebhookClient = func(c *http.Client) (any, error) { return api.NewWebhookClient(api.WithClient(c)) }\n")
	}
	if s.HasRequestOptions {
		b.WriteString("\tmkServerURLOption = func(u *url.URL) any { return api.WithServerURL(u) }\n")
	}
	b.WriteString("}\n")
	b.WriteString("\n// passThrough: the recording middleware sits between two others, so the generated chain\n// (middleware.ChainMiddlewares) is exercised with more than one element\n")
	b.WriteString("func passThrough(req middleware.Request, next middleware.Next) (middleware.Response, error) { return next(req) }\n")
	return b.String()
}

// Replay re-runs the check.
func Replay(r *core.Run, path string) error { return Check(r) }
