// Package obs implements the two TLC-facing halves of the replay binding:
// Emit (B1: TLC enumerates a bounded domain into ndjson vectors) and Check (B3: TLC
// judges ndjson observations of the real code against the abstract layer).
package obs

import (
	"bufio"
	"bytes"
	"context"
	"fmt"
	"os"
	"path/filepath"
	"regexp"
	"strconv"
	"sync"
	"time"

	"verif/internal/core"
	"verif/internal/tlc"
)

var SpecDir = filepath.Join(core.VerifDir, "spec")

// Emit runs an emitter module (one that ASSUMEs ndJsonSerialize(IOEnv.VERIF_VECTORS, ...))
// and returns the raw ndjson lines.
func Emit(r *core.Run, module, cfg string, timeout time.Duration) ([][]byte, error) {
	f, err := os.CreateTemp(r.Scratch, "vec-*.ndjson")
	if err != nil {
		return nil, err
	}
	f.Close()
	defer os.Remove(f.Name())
	res, err := tlc.Run(context.Background(), tlc.Options{SpecDir: SpecDir, Module: module, Cfg: cfg,
		Env: map[string]string{"VERIF_VECTORS": f.Name()}, Timeout: timeout, Scratch: r.Scratch, Heap: "8g"})
	if err != nil {
		return nil, err
	}
	if res.Violated != "" {
		return nil, fmt.Errorf("%w: emitter %s: %s\n%s", tlc.ErrInfra, module, res.Violated, tlc.Tail(res, 30))
	}
	b, err := os.ReadFile(f.Name())
	if err != nil {
		return nil, err
	}
	return SplitLines(b), nil
}

// EmitParallel runs several emitter configurations concurrently and concatenates the output.
func EmitParallel(r *core.Run, module string, cfgs []string, timeout time.Duration) ([][]byte, error) {
	out := make([][][]byte, len(cfgs))
	errs := make([]error, len(cfgs))
	var wg sync.WaitGroup
	sem := make(chan struct{}, 8)
	for i := range cfgs {
		wg.Add(1)
		go func(i int) {
			defer wg.Done()
			sem <- struct{}{}
			defer func() { <-sem }()
			out[i], errs[i] = Emit(r, module, cfgs[i], timeout)
		}(i)
	}
	wg.Wait()
	var all [][]byte
	for i := range cfgs {
		if errs[i] != nil {
			return nil, errs[i]
		}
		all = append(all, out[i]...)
	}
	return all, nil
}

func SplitLines(b []byte) [][]byte {
	var out [][]byte
	sc := bufio.NewScanner(bytes.NewReader(b))
	sc.Buffer(make([]byte, 1<<20), 1<<26)
	for sc.Scan() {
		if len(bytes.TrimSpace(sc.Bytes())) == 0 {
			continue
		}
		out = append(out, append([]byte(nil), sc.Bytes()...))
	}
	return out
}

// Verdict is one non-ok judgement of TLC about observation line Index (0-based, global).
type Verdict struct {
	Index int
	Kind  string // "viol", "drift", "known=Dev_X", or a module-specific label
}

var reV = regexp.MustCompile(`^"V:(\d+):(.*)"$`)

// CheckOpts tunes Check.
type CheckOpts struct {
	Module    string
	Cfg       string // cfg text (INIT Init / NEXT Next are appended if absent)
	ChunkSize int    // observations per TLC process (default 40000)
	Parallel  int    // concurrent TLC processes (default 8)
	Timeout   time.Duration
	Heap      string
	Env       map[string]string
}

// Check feeds observation lines to the checking module and returns every non-ok verdict.
// It fails (infrastructure) unless TLC consumed every line of every chunk.
func Check(r *core.Run, lines [][]byte, o CheckOpts) ([]Verdict, error) {
	if o.ChunkSize == 0 {
		o.ChunkSize = 40000
	}
	if o.Parallel == 0 {
		o.Parallel = 8
	}
	if o.Timeout == 0 {
		o.Timeout = 15 * time.Minute
	}
	if o.Heap == "" {
		o.Heap = "4g"
	}
	type chunk struct{ lo, hi int }
	var chunks []chunk
	for lo := 0; lo < len(lines); lo += o.ChunkSize {
		hi := lo + o.ChunkSize
		if hi > len(lines) {
			hi = len(lines)
		}
		chunks = append(chunks, chunk{lo, hi})
	}
	var (
		mu   sync.Mutex
		all  []Verdict
		ferr error
		wg   sync.WaitGroup
		sem  = make(chan struct{}, o.Parallel)
	)
	for _, c := range chunks {
		wg.Add(1)
		go func(c chunk) {
			defer wg.Done()
			sem <- struct{}{}
			defer func() { <-sem }()
			f, err := os.CreateTemp(r.Scratch, "obs-*.ndjson")
			if err != nil {
				mu.Lock()
				ferr = err
				mu.Unlock()
				return
			}
			w := bufio.NewWriter(f)
			for _, l := range lines[c.lo:c.hi] {
				w.Write(l)
				w.WriteByte('\n')
			}
			w.Flush()
			f.Close()
			defer os.Remove(f.Name())
			env := map[string]string{"VERIF_OBS": f.Name()}
			for k, v := range o.Env {
				env[k] = v
			}
			res, err := tlc.Run(context.Background(), tlc.Options{SpecDir: SpecDir, Module: o.Module, Cfg: o.Cfg,
				Env: env, Timeout: o.Timeout, Scratch: r.Scratch, Heap: o.Heap, Workers: 1})
			mu.Lock()
			defer mu.Unlock()
			if err != nil {
				ferr = err
				return
			}
			if res.Violated != "" {
				ferr = fmt.Errorf("%w: checker %s stopped: %s\n%s", tlc.ErrInfra, o.Module, res.Violated, tlc.Tail(res, 30))
				return
			}
			if res.Distinct != int64(c.hi-c.lo)+1 {
				ferr = fmt.Errorf("%w: checker %s consumed %d of %d observations\n%s", tlc.ErrInfra, o.Module, res.Distinct-1, c.hi-c.lo, tlc.Tail(res, 30))
				return
			}
			r.AddStates(res.Distinct, res.Generated)
			for _, p := range res.Prints {
				if m := reV.FindStringSubmatch(p); m != nil {
					n, _ := strconv.Atoi(m[1])
					all = append(all, Verdict{Index: c.lo + n - 1, Kind: m[2]})
				}
			}
		}(c)
	}
	wg.Wait()
	if ferr != nil {
		return nil, ferr
	}
	return all, nil
}

// StdCfg is the cfg shared by all observation checkers.
func StdCfg(constants ...string) string {
	s := ""
	if len(constants) > 0 {
		s = "CONSTANTS\n"
		for _, c := range constants {
			s += " " + c + "\n"
		}
	}
	return s + "INIT Init\nNEXT Next\nCHECK_DEADLOCK FALSE\n"
}
