// Package gencode regenerates ogen packages from /repo's working tree (in process,
// through the gen package the checker binary was just linked against) into a scratch
// Go module, and builds driver binaries that link them against /repo's runtime packages.
package gencode

import (
	"bytes"
	"fmt"
	"os"
	"os/exec"
	"path/filepath"
	"strings"

	"github.com/ogen-go/ogen"
	"github.com/ogen-go/ogen/gen"
	"github.com/ogen-go/ogen/gen/genfs"
	"github.com/ogen-go/ogen/gen/ir"

	"verif/internal/core"
)

// Module is a scratch Go module ("vmod") holding regenerated packages and a driver.
type Module struct {
	Dir string
}

// NewModule creates <scratch>/<name> with a go.mod that replaces ogen with /repo.
func NewModule(scratch, name string) (*Module, error) {
	dir := filepath.Join(scratch, name)
	if err := os.MkdirAll(dir, 0o755); err != nil {
		return nil, err
	}
	gomod := "module vmod\n\ngo 1.23.0\n\nrequire github.com/ogen-go/ogen v0.0.0\n\nreplace github.com/ogen-go/ogen => " + core.RepoDir + "\n"
	if err := os.WriteFile(filepath.Join(dir, "go.mod"), []byte(gomod), 0o644); err != nil {
		return nil, err
	}
	sum, err := os.ReadFile(filepath.Join(core.RepoDir, "go.sum"))
	if err != nil {
		return nil, err
	}
	if err := os.WriteFile(filepath.Join(dir, "go.sum"), sum, 0o644); err != nil {
		return nil, err
	}
	return &Module{Dir: dir}, nil
}

// ServerOnly is the feature set used when only the server side is driven.
func ServerOnly() gen.Options {
	return gen.Options{Generator: gen.GenerateOptions{Features: &gen.FeatureOptions{
		DisableAll: true,
		Enable:     gen.FeatureSet{"paths/server": {}, "ogen/unimplemented": {}},
	}}}
}

// ClientServer keeps client and server, drops OpenTelemetry (smaller builds).
func ClientServer() gen.Options {
	return gen.Options{Generator: gen.GenerateOptions{Features: &gen.FeatureOptions{
		DisableAll: true,
		Enable:     gen.FeatureSet{"paths/server": {}, "paths/client": {}, "ogen/unimplemented": {}, "webhooks/server": {}, "webhooks/client": {}},
	}}}
}

// ClientServerOptions is ClientServer with per-request options (WithServerURL, ...).
func ClientServerOptions() gen.Options {
	o := ClientServer()
	o.Generator.Features.Enable["client/request/options"] = struct{}{}
	return o
}

// Generated describes one regenerated package.
type Generated struct {
	Pkg   string
	Ops   []*ir.Operation // in the generator's own order (the router insertion order)
	Gen   *gen.Generator
	Files []string
}

// GenError tells which stage refused the document.
type GenError struct {
	Stage string // parse | ir | write
	Err   error
}

func (e *GenError) Error() string { return e.Stage + ": " + e.Err.Error() }
func (e *GenError) Unwrap() error { return e.Err }

// Generate runs ogen.Parse -> gen.NewGenerator -> WriteSource into <module>/<pkg>.
func (m *Module) Generate(pkg string, spec []byte, opts gen.Options) (g *Generated, err error) {
	defer func() {
		if e := recover(); e != nil {
			err = &GenError{Stage: "panic", Err: fmt.Errorf("%v", e)}
		}
	}()
	s, err := ogen.Parse(spec)
	if err != nil {
		return nil, &GenError{"parse", err}
	}
	gg, err := gen.NewGenerator(s, opts)
	if err != nil {
		return nil, &GenError{"ir", err}
	}
	dir := filepath.Join(m.Dir, pkg)
	if err := os.MkdirAll(dir, 0o755); err != nil {
		return nil, err
	}
	if err := gg.WriteSource(genfs.FormattedSource{Root: dir}, pkg); err != nil {
		return nil, &GenError{"write", err}
	}
	ents, _ := os.ReadDir(dir)
	out := &Generated{Pkg: pkg, Ops: gg.Operations(), Gen: gg}
	for _, e := range ents {
		out.Files = append(out.Files, e.Name())
	}
	return out, nil
}

// WriteFile writes a file relative to the module root.
func (m *Module) WriteFile(rel string, content []byte) error {
	p := filepath.Join(m.Dir, rel)
	if err := os.MkdirAll(filepath.Dir(p), 0o755); err != nil {
		return err
	}
	return os.WriteFile(p, content, 0o644)
}

func goEnv() []string {
	env := os.Environ()
	return append(env, "GOFLAGS=-mod=mod", "GOPROXY=off", "GOSUMDB=off", "GOTOOLCHAIN=local")
}

// Build compiles ./<mainPkg> of the module into <module>/bin/<name>.
func (m *Module) Build(mainPkg, name string, extra ...string) (string, error) {
	out := filepath.Join(m.Dir, "bin", name)
	args := append([]string{"build", "-o", out}, extra...)
	args = append(args, "./"+mainPkg)
	cmd := exec.Command("go", args...)
	cmd.Dir = m.Dir
	cmd.Env = goEnv()
	var buf bytes.Buffer
	cmd.Stdout, cmd.Stderr = &buf, &buf
	if err := cmd.Run(); err != nil {
		return "", fmt.Errorf("go build %s: %v\n%s", mainPkg, err, tailLines(buf.String(), 40))
	}
	return out, nil
}

// Vet type-checks packages (used by C02 as the observation of "compiles").
func (m *Module) GoBuildPkgs(pkgs ...string) (string, error) {
	args := []string{"build"}
	for _, p := range pkgs {
		args = append(args, "./"+p)
	}
	cmd := exec.Command("go", args...)
	cmd.Dir = m.Dir
	cmd.Env = goEnv()
	var buf bytes.Buffer
	cmd.Stdout, cmd.Stderr = &buf, &buf
	err := cmd.Run()
	return buf.String(), err
}

// Run executes a built driver with the given arguments and environment additions.
func Run(bin string, env []string, args ...string) (string, error) {
	cmd := exec.Command(bin, args...)
	cmd.Env = append(os.Environ(), env...)
	var buf bytes.Buffer
	cmd.Stdout, cmd.Stderr = &buf, &buf
	err := cmd.Run()
	return buf.String(), err
}

func tailLines(s string, n int) string {
	l := strings.Split(strings.TrimRight(s, "\n"), "\n")
	if len(l) > n {
		l = l[len(l)-n:]
	}
	return strings.Join(l, "\n")
}
