package gencode

import (
	"fmt"
	"go/ast"
	"go/parser"
	"go/printer"
	"go/token"
	"path/filepath"
	"strings"
)

// Surface is what the glue synthesiser learned from the generated sources (identifiers
// and signatures only; no expectation is ever derived from it).
type Surface struct {
	Pkg              string
	HasServer        bool
	HasSecurity      bool     // NewServer takes a SecurityHandler
	SecMethods       []string // full method declarations of SecurityHandler, rendered
	HasUnimplemented bool
	NewErrorType     string // e.g. "*ErrorStatusCode" when convenient errors are on, else ""
	HasClient        bool
	ClientHasSec     bool
	HandlerMethods   []Method
	WebhookMethods   []Method // methods of WebhookHandler (OpenAPI 3.1 webhooks)
	HasRequestOptions bool    // feature client/request/options: WithServerURL exists
	SecSourceMethods []Method
	TypeNames        []string // exported non-interface named types
}

// Method is one interface method, rendered with the package qualifier "api.".
type Method struct {
	Name    string
	Params  string // "(ctx context.Context, req *api.X, params api.YParams)"
	Results string // "(api.Res, error)" or "error"
	NRes    int
	Types   []string // parameter type expressions (qualified)
	ResType []string
}

func qualify(expr ast.Expr, local map[string]bool) ast.Expr {
	switch e := expr.(type) {
	case *ast.Ident:
		if local[e.Name] {
			return &ast.SelectorExpr{X: ast.NewIdent("api"), Sel: ast.NewIdent(e.Name)}
		}
		return e
	case *ast.StarExpr:
		return &ast.StarExpr{X: qualify(e.X, local)}
	case *ast.ArrayType:
		return &ast.ArrayType{Len: e.Len, Elt: qualify(e.Elt, local)}
	case *ast.MapType:
		return &ast.MapType{Key: qualify(e.Key, local), Value: qualify(e.Value, local)}
	case *ast.Ellipsis:
		return &ast.Ellipsis{Elt: qualify(e.Elt, local)}
	}
	return expr
}

func render(fset *token.FileSet, n ast.Node) string {
	var b strings.Builder
	printer.Fprint(&b, fset, n)
	return b.String()
}

// InspectDir parses the generated package and extracts the public surface.
func InspectDir(dir, pkg string) (*Surface, error) {
	fset := token.NewFileSet()
	matches, err := filepath.Glob(filepath.Join(dir, "*.go"))
	if err != nil {
		return nil, err
	}
	var files []*ast.File
	local := map[string]bool{}
	for _, m := range matches {
		if strings.HasSuffix(m, "_test.go") {
			continue
		}
		f, err := parser.ParseFile(fset, m, nil, parser.SkipObjectResolution)
		if err != nil {
			return nil, err
		}
		files = append(files, f)
		for _, d := range f.Decls {
			if gd, ok := d.(*ast.GenDecl); ok && gd.Tok == token.TYPE {
				for _, s := range gd.Specs {
					local[s.(*ast.TypeSpec).Name.Name] = true
				}
			}
		}
	}
	s := &Surface{Pkg: pkg}
	methodsOf := func(it *ast.InterfaceType) []Method {
		var out []Method
		for _, m := range it.Methods.List {
			ft, ok := m.Type.(*ast.FuncType)
			if !ok || len(m.Names) == 0 {
				continue
			}
			md := Method{Name: m.Names[0].Name}
			var ps []string
			i := 0
			for _, p := range ft.Params.List {
				t := render(fset, qualify(p.Type, local))
				n := len(p.Names)
				if n == 0 {
					n = 1
				}
				for k := 0; k < n; k++ {
					ps = append(ps, fmt.Sprintf("a%d %s", i, t))
					md.Types = append(md.Types, t)
					i++
				}
			}
			md.Params = "(" + strings.Join(ps, ", ") + ")"
			if ft.Results != nil {
				var rs []string
				for _, r := range ft.Results.List {
					t := render(fset, qualify(r.Type, local))
					n := len(r.Names)
					if n == 0 {
						n = 1
					}
					for k := 0; k < n; k++ {
						rs = append(rs, t)
					}
				}
				md.NRes = len(rs)
				md.ResType = rs
				if len(rs) == 1 {
					md.Results = rs[0]
				} else {
					md.Results = "(" + strings.Join(rs, ", ") + ")"
				}
			}
			out = append(out, md)
		}
		return out
	}
	for _, f := range files {
		for _, d := range f.Decls {
			switch dd := d.(type) {
			case *ast.GenDecl:
				if dd.Tok != token.TYPE {
					continue
				}
				for _, sp := range dd.Specs {
					ts := sp.(*ast.TypeSpec)
					it, isIface := ts.Type.(*ast.InterfaceType)
					if !isIface && ast.IsExported(ts.Name.Name) && ts.TypeParams == nil {
						s.TypeNames = append(s.TypeNames, ts.Name.Name)
					}
					switch ts.Name.Name {
					case "SecurityHandler":
						if isIface {
							for _, m := range methodsOf(it) {
								s.SecMethods = append(s.SecMethods, fmt.Sprintf("%s%s %s", m.Name, m.Params, m.Results))
							}
						}
					case "Handler":
						if isIface {
							s.HandlerMethods = methodsOf(it)
							for _, m := range s.HandlerMethods {
								if m.Name == "NewError" && len(m.ResType) == 1 {
									s.NewErrorType = m.ResType[0]
								}
							}
						}
					case "WebhookHandler":
						if isIface {
							s.WebhookMethods = methodsOf(it)
						}
					case "SecuritySource":
						if isIface {
							s.SecSourceMethods = methodsOf(it)
						}
					case "UnimplementedHandler":
						s.HasUnimplemented = true
					}
				}
			case *ast.FuncDecl:
				if dd.Recv != nil {
					continue
				}
				switch dd.Name.Name {
				case "WithServerURL":
					s.HasRequestOptions = true
				case "NewServer":
					s.HasServer = true
					for _, p := range dd.Type.Params.List {
						if id, ok := p.Type.(*ast.Ident); ok && id.Name == "SecurityHandler" {
							s.HasSecurity = true
						}
					}
				case "NewClient":
					s.HasClient = true
					for _, p := range dd.Type.Params.List {
						if id, ok := p.Type.(*ast.Ident); ok && id.Name == "SecuritySource" {
							s.ClientHasSec = true
						}
					}
				}
			}
		}
	}
	return s, nil
}
