// Package core holds the plumbing shared by every property check: run context, scratch
// space, verdict accumulation, known findings, evidence and replay files, exit codes.
package core

import (
	"crypto/sha256"
	"encoding/hex"
	"encoding/json"
	"fmt"
	"os"
	"path/filepath"
	"sort"
	"strings"
	"sync"
	"time"
)

const (
	VerifDir = "/verif"
	RepoDir  = "/repo"
)

// Run is the context of one `vcheck -p ID -tier T` invocation.
type Run struct {
	ID      string
	Tier    string // quick | thorough
	Seed    int64
	Level   string
	Scratch string
	Start   time.Time

	mu          sync.Mutex
	cov         map[string]any
	samples     []any
	assumptions []string
	violations  []Violation
	known       map[string]*knownHit
	drift       int
	infra       []string
	Known       *KnownFile
	states      int64
	transitions int64
	traces      int64
	evals       int64
	nontrivial  map[string]struct{}
	rule        string
	exhaustive  bool
}

type Violation struct {
	What   string
	Replay string
}

type knownHit struct {
	count   int
	witness string
}

// KnownFile is /verif/known_findings.json.
type KnownFile struct {
	Findings []Finding `json:"findings"`
	Fixed    []string  `json:"fixed"`
}

// Finding is one recorded genuine defect that is not repaired.
type Finding struct {
	Property  string `json:"property"`
	Deviation string `json:"deviation"`
	What      string `json:"what"`
	Witness   string `json:"witness"`
	Site      string `json:"site,omitempty"`
}

func NewRun(id, tier string, seed int64, level string) (*Run, error) {
	sc, err := os.MkdirTemp("", "verif-"+id+"-")
	if err != nil {
		return nil, err
	}
	r := &Run{ID: id, Tier: tier, Seed: seed, Level: level, Scratch: sc, Start: time.Now(),
		cov: map[string]any{}, assumptions: []string{}, known: map[string]*knownHit{}, nontrivial: map[string]struct{}{}}
	kf := &KnownFile{}
	b, err := os.ReadFile(filepath.Join(VerifDir, "known_findings.json"))
	if err == nil {
		if err := json.Unmarshal(b, kf); err != nil {
			return nil, fmt.Errorf("known_findings.json: %w", err)
		}
	}
	r.Known = kf
	return r, nil
}

// Thorough reports whether the thorough tier was requested.
func (r *Run) Thorough() bool { return r.Tier == "thorough" }

// KnownDeviations lists the deviation names recorded for this property.
func (r *Run) KnownDeviations() []string {
	var out []string
	seen := map[string]bool{}
	for _, f := range r.Known.Findings {
		if f.Property == r.ID && !seen[f.Deviation] {
			seen[f.Deviation] = true
			out = append(out, f.Deviation)
		}
	}
	sort.Strings(out)
	return out
}

// KnownSet renders KnownDeviations as a TLA+ set literal for a cfg CONSTANT.
func (r *Run) KnownSet() string {
	d := r.KnownDeviations()
	q := make([]string, len(d))
	for i, s := range d {
		q[i] = `"` + s + `"`
	}
	return "{" + strings.Join(q, ", ") + "}"
}

func (r *Run) Cleanup() {
	if os.Getenv("VERIF_KEEP_SCRATCH") != "" {
		fmt.Fprintln(os.Stderr, "scratch kept:", r.Scratch)
		return
	}
	os.RemoveAll(r.Scratch)
}

func (r *Run) AddStates(states, transitions int64) {
	r.mu.Lock()
	r.states += states
	r.transitions += transitions
	r.mu.Unlock()
}
func (r *Run) AddTraces(n int64)    { r.mu.Lock(); r.traces += n; r.mu.Unlock() }
func (r *Run) AddEvals(n int64)     { r.mu.Lock(); r.evals += n; r.mu.Unlock() }
func (r *Run) SetRule(s string)     { r.rule = s }
func (r *Run) SetExhaustive(b bool) { r.exhaustive = b }
func (r *Run) Assume(s string)      { r.mu.Lock(); r.assumptions = append(r.assumptions, s); r.mu.Unlock() }
func (r *Run) Cov(k string, v any)  { r.mu.Lock(); r.cov[k] = v; r.mu.Unlock() }
func (r *Run) CovAdd(k string, n int64) {
	r.mu.Lock()
	if v, ok := r.cov[k].(int64); ok {
		r.cov[k] = v + n
	} else {
		r.cov[k] = n
	}
	r.mu.Unlock()
}

// Nontrivial records one distinct non-trivial case class (counted for evidence).
func (r *Run) Nontrivial(class string) {
	r.mu.Lock()
	r.nontrivial[class] = struct{}{}
	r.mu.Unlock()
}

// Sample stores up to 12 written-out cases for the evidence file.
func (r *Run) Sample(v any) {
	r.mu.Lock()
	if len(r.samples) < 12 {
		r.samples = append(r.samples, v)
	}
	r.mu.Unlock()
}

// Drift counts disagreements with the implementation-layer model only (never an alarm).
func (r *Run) Drift(what string) {
	r.mu.Lock()
	r.drift++
	n := r.drift
	r.mu.Unlock()
	if n <= 5 {
		fmt.Printf("DRIFT property=%s %s\n", r.ID, what)
	}
}

// Infra records an infrastructure failure (exit 2).
func (r *Run) Infra(format string, a ...any) {
	r.mu.Lock()
	r.infra = append(r.infra, fmt.Sprintf(format, a...))
	r.mu.Unlock()
	fmt.Fprintf(os.Stderr, "INFRA property=%s %s\n", r.ID, fmt.Sprintf(format, a...))
}

// KnownHit records that an observation outside Allowed is explained by a listed deviation.
func (r *Run) KnownHit(dev, witness string) {
	r.mu.Lock()
	h := r.known[dev]
	if h == nil {
		h = &knownHit{witness: witness}
		r.known[dev] = h
	}
	h.count++
	r.mu.Unlock()
}

// IsListed reports whether dev is a recorded deviation of this property.
func (r *Run) IsListed(dev string) bool {
	for _, d := range r.KnownDeviations() {
		if d == dev {
			return true
		}
	}
	return false
}

// Violate writes a replay file and records a violation.
func (r *Run) Violate(what string, replay any) {
	b, _ := json.MarshalIndent(map[string]any{"property": r.ID, "what": what, "case": replay,
		"rerun": fmt.Sprintf("./check.sh %s --replay <this file>", r.ID)}, "", " ")
	h := sha256.Sum256(b)
	dir := filepath.Join(VerifDir, "evidence", "replays")
	p := filepath.Join(dir, fmt.Sprintf("%s-%s.json", r.ID, hex.EncodeToString(h[:6])))
	r.mu.Lock()
	if len(r.violations) < 20 { // the first 20 get a replay file and a line; all are counted
		os.MkdirAll(dir, 0o755)
		os.WriteFile(p, b, 0o644)
	}
	r.violations = append(r.violations, Violation{What: what, Replay: p})
	n := len(r.violations)
	r.mu.Unlock()
	if n <= 20 {
		fmt.Printf("VIOLATION property=%s replay=%s\n", r.ID, p)
		fmt.Printf("  what: %s\n", what)
	}
}

func (r *Run) NumViolations() int { r.mu.Lock(); defer r.mu.Unlock(); return len(r.violations) }

// Finish writes the evidence file, prints KNOWN-FINDING lines and returns the exit code.
func (r *Run) Finish() int {
	devs := make([]string, 0, len(r.known))
	for d := range r.known {
		devs = append(devs, d)
	}
	sort.Strings(devs)
	knownOut := map[string]any{}
	for _, d := range devs {
		h := r.known[d]
		what := ""
		for _, f := range r.Known.Findings {
			if f.Property == r.ID && f.Deviation == d {
				what = f.What
			}
		}
		fmt.Printf("KNOWN-FINDING: property=%s %s hits=%d first=%s — %s\n", r.ID, d, h.count, h.witness, what)
		knownOut[d] = map[string]any{"hits": h.count, "first_witness": h.witness}
	}
	// Listed findings that this run did not hit are still reported (the tree is unchanged
	// as far as the file knows), marked as not exercised in this tier.
	for _, f := range r.Known.Findings {
		if f.Property == r.ID {
			if _, ok := r.known[f.Deviation]; !ok {
				fmt.Printf("KNOWN-FINDING: property=%s %s hits=0 (not reached in this run) witness=%s — %s\n", r.ID, f.Deviation, f.Witness, f.What)
			}
		}
	}
	cov := map[string]any{}
	for k, v := range r.cov {
		cov[k] = v
	}
	cov["evaluations"] = r.evals
	cov["distinct_nontrivial"] = len(r.nontrivial)
	cov["rule"] = r.rule
	if len(r.samples) == 0 {
		r.samples = append(r.samples, "none recorded")
	}
	cov["samples"] = r.samples
	cov["states"] = r.states
	cov["transitions"] = r.transitions
	cov["traces_validated_against_impl"] = r.traces
	cov["exhaustive"] = r.exhaustive
	cov["drift"] = r.drift
	cov["known_findings_hit"] = knownOut
	if len(r.infra) > 0 {
		cov["infrastructure_failures"] = r.infra
	}
	ev := map[string]any{
		"property_id": r.ID, "tier": r.Tier, "seed": r.Seed, "level": r.Level,
		"coverage": cov, "assumptions": r.assumptions,
		"wall_s": time.Since(r.Start).Seconds(), "violations": len(r.violations),
	}
	b, _ := json.MarshalIndent(ev, "", " ")
	os.MkdirAll(filepath.Join(VerifDir, "evidence"), 0o755)
	if err := os.WriteFile(filepath.Join(VerifDir, "evidence", r.ID+".json"), append(b, '\n'), 0o644); err != nil {
		fmt.Fprintln(os.Stderr, "evidence:", err)
		return 2
	}
	fmt.Printf("SUMMARY property=%s tier=%s seed=%d evaluations=%d nontrivial=%d states=%d traces=%d violations=%d known=%d drift=%d wall=%.1fs\n",
		r.ID, r.Tier, r.Seed, r.evals, len(r.nontrivial), r.states, r.traces, len(r.violations), len(r.known), r.drift, time.Since(r.Start).Seconds())
	if len(r.violations) > 0 {
		return 1
	}
	if len(r.infra) > 0 {
		return 2
	}
	return 0
}
