// Package bx converts between Go strings and the TLC-safe byte-sequence form
// (JSON arrays of small integers) used in every vector and observation file.
package bx

// Ints renders a string as its bytes.
func Ints(s string) []int {
	out := make([]int, len(s))
	for i := 0; i < len(s); i++ {
		out[i] = int(s[i])
	}
	return out
}

// Str is the inverse of Ints.
func Str(v []int) string {
	b := make([]byte, len(v))
	for i, x := range v {
		b[i] = byte(x)
	}
	return string(b)
}

// Bool renders a Go bool as a TLA+ literal.
func Bool(b bool) string {
	if b {
		return "TRUE"
	}
	return "FALSE"
}
