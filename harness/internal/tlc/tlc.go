// Package tlc runs the TLC model checker on the specifications under /verif/spec and
// parses what it reports. Every run gets a private scratch copy of the spec directory
// and a private -metadir, so concurrent runs never interfere and nothing is left behind.
package tlc

import (
	"bytes"
	"context"
	"errors"
	"fmt"
	"os"
	"os/exec"
	"path/filepath"
	"regexp"
	"strconv"
	"strings"
	"time"
)

// Options describes one TLC invocation.
type Options struct {
	SpecDir string            // directory holding the .tla files (copied to scratch)
	Module  string            // root module name (without .tla)
	Cfg     string            // text of the .cfg file
	Env     map[string]string // extra environment (IOEnv.* in the spec)
	Workers int               // 0 = 1
	Timeout time.Duration     // 0 = 10 min
	Scratch string            // parent scratch directory (must exist)
	Args    []string          // extra TLC arguments (-simulate, -coverage 1, ...)
	Heap    string            // e.g. "8g"; empty = wrapper default
	DFS     bool              // depth-first state queue (branching trace specs)
}

// Result is what one TLC run reported.
type Result struct {
	Out       string
	ExitCode  int
	Generated int64
	Distinct  int64
	Depth     int64
	Prints    []string // lines produced by PrintT / Print in the spec (raw TLC value text)
	Violated  string   // name of the violated invariant/property/assumption, "" if none
	Coverage  map[string]int64
	Wall      time.Duration
	Dir       string // scratch directory of this run (already removed unless Keep)
}

var (
	reStates = regexp.MustCompile(`(\d+) states generated, (\d+) distinct states found`)
	reDepth  = regexp.MustCompile(`The depth of the complete state graph search is (\d+)`)
	reInv    = regexp.MustCompile(`Invariant (\S+) is violated`)
	reProp   = regexp.MustCompile(`(?:Temporal properties were violated|Action property (\S+) is violated)`)
	reAssume = regexp.MustCompile(`Assumption line (\d+), col (\d+) to line (\d+), col (\d+) of module (\S+) is false`)
	reCov    = regexp.MustCompile(`^<(\w+) line \d+, col \d+ to line \d+, col \d+ of module \w+>: (\d+):(\d+)`)
)

// ErrInfra marks failures that are not verdicts (JVM, parse errors, timeouts).
var ErrInfra = errors.New("tlc infrastructure failure")

// Run executes TLC. A non-nil error means the run itself is unusable (infrastructure);
// invariant violations are reported through Result.Violated with a nil error.
func Run(ctx context.Context, o Options) (*Result, error) {
	if ctx == nil {
		ctx = context.Background()
	}
	if o.Timeout == 0 {
		o.Timeout = 10 * time.Minute
	}
	if o.Workers == 0 {
		o.Workers = 1
	}
	dir, err := os.MkdirTemp(o.Scratch, "tlc-"+o.Module+"-")
	if err != nil {
		return nil, err
	}
	defer os.RemoveAll(dir)
	ents, err := os.ReadDir(o.SpecDir)
	if err != nil {
		return nil, err
	}
	for _, e := range ents {
		if e.IsDir() || !strings.HasSuffix(e.Name(), ".tla") {
			continue
		}
		b, err := os.ReadFile(filepath.Join(o.SpecDir, e.Name()))
		if err != nil {
			return nil, err
		}
		if err := os.WriteFile(filepath.Join(dir, e.Name()), b, 0o644); err != nil {
			return nil, err
		}
	}
	cfgPath := filepath.Join(dir, o.Module+".cfg")
	// VERIF_KEEP_CFG=<dir>: keep a copy of every configuration of a model-checking module
	// (the committed spec/cfg/ files are produced this way, so that the specifications can be
	// checked with plain `tlc` without the harness)
	if keep := os.Getenv("VERIF_KEEP_CFG"); keep != "" && strings.HasSuffix(o.Module, "MC") {
		os.MkdirAll(keep, 0o755)
		sum := 0
		for _, c := range []byte(o.Cfg) {
			sum = (sum*31 + int(c)) % 100000
		}
		os.WriteFile(filepath.Join(keep, fmt.Sprintf("%s.%05d.cfg", o.Module, sum)), []byte(o.Cfg), 0o644)
	}
	if err := os.WriteFile(cfgPath, []byte(o.Cfg), 0o644); err != nil {
		return nil, err
	}
	meta := filepath.Join(dir, "meta")
	args := []string{"-XX:+UseParallelGC"}
	if o.Heap != "" {
		args = append(args, "-Xmx"+o.Heap)
	}
	args = append(args, "-Xss256m")
	// TLC makes an (empty) directory under java.io.tmpdir on every start: kept inside the run's scratch
	tmp := filepath.Join(dir, "jtmp")
	os.MkdirAll(tmp, 0o755)
	args = append(args, "-Djava.io.tmpdir="+tmp)
	if o.DFS {
		args = append(args, "-Dtlc2.tool.queue.IStateQueue=StateDeque")
	}
	args = append(args,
		"-cp", "/opt/veriftools/tla/tla2tools.jar:/opt/veriftools/tla/CommunityModules-deps.jar",
		"tlc2.TLC",
		"-maxSetSize", "50000000", "-metadir", meta, "-workers", strconv.Itoa(o.Workers), "-noGenerateSpecTE",
		"-config", o.Module+".cfg")
	args = append(args, o.Args...)
	args = append(args, o.Module+".tla")

	cctx, cancel := context.WithTimeout(ctx, o.Timeout)
	defer cancel()
	cmd := exec.CommandContext(cctx, "java", args...)
	cmd.Dir = dir
	cmd.Env = os.Environ()
	for k, v := range o.Env {
		cmd.Env = append(cmd.Env, k+"="+v)
	}
	var buf bytes.Buffer
	cmd.Stdout = &buf
	cmd.Stderr = &buf
	t0 := time.Now()
	runErr := cmd.Run()
	res := &Result{Out: buf.String(), Wall: time.Since(t0), Coverage: map[string]int64{}, Dir: dir}
	if cctx.Err() == context.DeadlineExceeded {
		return res, fmt.Errorf("%w: tlc %s timed out after %s", ErrInfra, o.Module, o.Timeout)
	}
	if ee := (*exec.ExitError)(nil); errors.As(runErr, &ee) {
		res.ExitCode = ee.ExitCode()
	} else if runErr != nil {
		return res, fmt.Errorf("%w: %v", ErrInfra, runErr)
	}
	parse(res)
	switch res.ExitCode {
	case 0:
	case 10, 12, 13: // assumption / safety / liveness violation: a verdict, not an error
		if res.Violated == "" {
			res.Violated = "unknown"
		}
	case 11: // deadlock
		res.Violated = "deadlock"
	default:
		return res, fmt.Errorf("%w: tlc %s exit %d:\n%s", ErrInfra, o.Module, res.ExitCode, tail(res.Out, 40))
	}
	return res, nil
}

func parse(r *Result) {
	for _, line := range strings.Split(r.Out, "\n") {
		line = strings.TrimRight(line, "\r")
		if m := reStates.FindStringSubmatch(line); m != nil {
			r.Generated, _ = strconv.ParseInt(m[1], 10, 64)
			r.Distinct, _ = strconv.ParseInt(m[2], 10, 64)
		}
		if m := reDepth.FindStringSubmatch(line); m != nil {
			r.Depth, _ = strconv.ParseInt(m[1], 10, 64)
		}
		if m := reInv.FindStringSubmatch(line); m != nil {
			r.Violated = m[1]
		}
		if m := reProp.FindStringSubmatch(line); m != nil {
			r.Violated = "property " + m[1]
		}
		if m := reAssume.FindStringSubmatch(line); m != nil {
			r.Violated = fmt.Sprintf("assumption %s:%s", m[5], m[1])
		}
		if m := reCov.FindStringSubmatch(line); m != nil {
			n, _ := strconv.ParseInt(m[2], 10, 64)
			r.Coverage[m[1]] += n
		}
		if strings.HasPrefix(line, "<<\"") || strings.HasPrefix(line, "\"V:") {
			r.Prints = append(r.Prints, line)
		}
	}
}

func tail(s string, n int) string {
	lines := strings.Split(strings.TrimRight(s, "\n"), "\n")
	if len(lines) > n {
		lines = lines[len(lines)-n:]
	}
	return strings.Join(lines, "\n")
}

// Tail exposes the last n lines of TLC output for diagnostics.
func Tail(r *Result, n int) string { return tail(r.Out, n) }

// Cfg builds a cfg text from parts.
func Cfg(lines ...string) string { return strings.Join(lines, "\n") + "\n" }
